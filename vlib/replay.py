# check --replay FILE: re-runs the harness process that produced a violation (same executable variant, seed and arguments).
import json, os, subprocess, sys
from . import core


def run(path):
    r = json.load(open(path))
    sc = r["scenario"]
    name = sc["exe"]; variant = sc["variant"]
    exe = core.build_harness(name, variant, with_malloc=name in ("c17", "c18"))
    env = dict(os.environ); env.update(sc.get("env", {}))
    out = "/tmp/replay-%d.json" % os.getpid()
    print("replaying:", exe, " ".join(sc["args"]))
    p = subprocess.run([exe] + sc["args"] + ["--out", out], env=env)
    res = json.load(open(out)) if os.path.exists(out) else None
    if res and res.get("violations_total"):
        for v in res["violations"][:5]:
            print("VIOLATION property=%s replay=%s key=%s" % (r["property"], path, v["key"]))
            print("  " + v["detail"][:1500])
        return 1
    if p.returncode != 0:
        print("process exited with", p.returncode)
        return 1
    print("no violation reproduced in this run (schedules are sampled: repeat, or raise --cases)")
    return 0
