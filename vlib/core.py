# Shared driver code: builds (libtbb / libtbbmalloc / harnesses per variant, cached by content hash),
# batch execution of harness processes, sanitizer-log triage, known-findings matching, evidence files.
import fcntl, hashlib, json, os, re, shutil, signal, subprocess, sys, time, glob
from concurrent.futures import ThreadPoolExecutor

VERIF = os.path.dirname(os.path.dirname(os.path.abspath(__file__)))
REPO = os.environ.get("VERIF_REPO", "/repo")
BUILD = os.path.join(VERIF, "build")
# Runs against a scratch tree (VERIF_REPO=<tree with a seeded change>) must not overwrite the evidence of the real tree:
# VERIF_OUT=<dir> redirects evidence/ and replays/ there.
OUT = os.environ.get("VERIF_OUT", VERIF)
NCPU = os.cpu_count() or 16

COMMON = ["-std=c++17", "-g", "-fPIC", "-DONETBB_VERIF=1", "-mrtm", "-mwaitpkg", "-pthread",
          "-fno-strict-overflow", "-fno-delete-null-pointer-checks", "-fwrapv", "-Wno-attributes"]
VARIANTS = {
    # the code users run: no assertions, optimised
    "rel":  ["-O2", "-DNDEBUG"],
    # ~1500 internal invariants of oneTBB become oracles
    "dbg":  ["-O2", "-DTBB_USE_ASSERT=1"],
    # no TBB_USE_ASSERT here: assertion-only code reads fields without the synchronisation the real code uses
    # (e.g. is_poisoned(ctx.my_context_list) in cancel_group_execution vs. a concurrent bind) and would be reported
    "tsan": ["-O1", "-fsanitize=thread", "-fno-omit-frame-pointer"],
    "asan": ["-O1", "-fsanitize=address,undefined", "-fno-sanitize=vptr", "-fno-sanitize-recover=all",
             "-DTBB_USE_ASSERT=1", "-fno-omit-frame-pointer"],
}
LIB_DEFS = ["-D__TBB_BUILD", "-D__TBB_USE_ITT_NOTIFY", "-fvisibility=hidden", "-fvisibility-inlines-hidden",
            "-flifetime-dse=1", "-D__TBB_GNU_ASM_VERSION=2040"]
MALLOC_DEFS = ["-D__TBBMALLOC_BUILD", "-D__TBB_USE_ITT_NOTIFY", "-fvisibility=hidden", "-fvisibility-inlines-hidden",
               "-flifetime-dse=1", "-fno-rtti", "-fno-exceptions", "-D__TBB_GNU_ASM_VERSION=2040"]


def log(*a):
    print("[check]", *a, file=sys.stderr, flush=True)


def _hash_tree(paths, extra=""):
    h = hashlib.sha256()
    h.update(extra.encode())
    for root in paths:
        if os.path.isfile(root):
            h.update(root.encode()); h.update(open(root, "rb").read()); continue
        for dp, dn, fn in sorted(os.walk(root)):
            dn.sort()
            for f in sorted(fn):
                p = os.path.join(dp, f)
                h.update(p.encode())
                try:
                    h.update(open(p, "rb").read())
                except OSError:
                    pass
    return h.hexdigest()[:16]


_repo_hash_cache = {}


def repo_hash(kind):
    """Content hash of the oneTBB sources a build depends on (current working tree)."""
    if kind in _repo_hash_cache:
        return _repo_hash_cache[kind]
    if kind == "include":
        paths = [os.path.join(REPO, "include")]
    elif kind == "tbb":
        paths = [os.path.join(REPO, "include"), os.path.join(REPO, "src/tbb")]
    elif kind == "tbbmalloc":
        paths = [os.path.join(REPO, "include"), os.path.join(REPO, "src/tbbmalloc"), os.path.join(REPO, "src/tbb")]
    else:
        raise ValueError(kind)
    _repo_hash_cache[kind] = _hash_tree(paths)
    return _repo_hash_cache[kind]


class _Lock:
    def __init__(self, name):
        os.makedirs(BUILD, exist_ok=True)
        self.path = os.path.join(BUILD, name + ".lock")

    def __enter__(self):
        self.f = open(self.path, "w")
        fcntl.flock(self.f, fcntl.LOCK_EX)

    def __exit__(self, *a):
        fcntl.flock(self.f, fcntl.LOCK_UN); self.f.close()


def _cmake_sources(cmakelists, target):
    txt = open(cmakelists).read()
    m = re.search(r"add_library\(%s\s*\n(.*?)\)" % target, txt, re.S)
    srcs = re.findall(r"([A-Za-z_0-9]+\.cpp)", m.group(1))
    return srcs


def _touch(d):
    """Marks a build directory as used now (its mtime is what _prune looks at)."""
    try:
        os.utime(d, None)
    except OSError:
        pass


def _prune(prefix, keep, keep_n=24, max_idle_s=6 * 3600, min_idle_s=45 * 60):
    """Drops builds of the same kind that have not been used for a long time. Several checks (and scratch trees given through
    VERIF_REPO) may be building and running at the same time - a library that disappears under a running check would make the dynamic
    loader fall back to the system's libtbb silently - so: every use refreshes the directory's mtime (_touch, also while jobs run), a
    directory used within the last 45 minutes is never removed, and otherwise one goes when it has been idle for 6 hours or when more
    than keep_n newer ones exist."""
    ds = [d for d in glob.glob(os.path.join(BUILD, prefix + "-*")) if os.path.isdir(d) and os.path.basename(d) != keep and not d.endswith(".tmp")]
    ds.sort(key=lambda d: os.path.getmtime(d), reverse=True)
    now = time.time()
    for i, d in enumerate(ds):
        idle = now - os.path.getmtime(d)
        if idle > min_idle_s and (i >= keep_n or idle > max_idle_s):
            shutil.rmtree(d, ignore_errors=True)


def _run(cmd, **kw):
    r = subprocess.run(cmd, stdout=subprocess.PIPE, stderr=subprocess.STDOUT, text=True, **kw)
    return r.returncode, r.stdout


def _compile_many(jobs):
    """jobs: list of (cmd, label). Runs them NCPU-wide; raises on failure."""
    def one(j):
        rc, out = _run(j[0])
        return rc, out, j[1]
    with ThreadPoolExecutor(NCPU) as ex:
        for rc, out, label in ex.map(one, jobs):
            if rc != 0:
                raise BuildError("compile failed: %s\n%s" % (label, out[-4000:]))


class BuildError(Exception):
    pass


def build_lib(variant):
    """Builds libtbb.so.12 for a variant from /repo's working tree; returns the directory."""
    flags = COMMON + VARIANTS[variant] + LIB_DEFS
    key = hashlib.sha256((repo_hash("tbb") + " ".join(flags)).encode()).hexdigest()[:16]
    name = "lib-%s-%s" % (variant, key)
    d = os.path.join(BUILD, name)
    with _Lock("lib-" + variant):
        if os.path.exists(os.path.join(d, "libtbb.so.12")):
            _touch(d)
            return d
        t0 = time.time()
        _prune("lib-" + variant, name)
        tmp = d + ".tmp"
        shutil.rmtree(tmp, ignore_errors=True); os.makedirs(tmp)
        srcs = _cmake_sources(os.path.join(REPO, "src/tbb/CMakeLists.txt"), "tbb")
        inc = ["-I" + os.path.join(REPO, "include"), "-I" + os.path.join(REPO, "src")]
        jobs = []
        for s in srcs:
            o = os.path.join(tmp, s + ".o")
            jobs.append((["g++"] + flags + inc + ["-c", os.path.join(REPO, "src/tbb", s), "-o", o], s))
        _compile_many(jobs)
        objs = [os.path.join(tmp, s + ".o") for s in srcs]
        san = [f for f in VARIANTS[variant] if f.startswith("-fsanitize") or f.startswith("-fno-sanitize")]
        rc, out = _run(["g++", "-shared"] + san + ["-o", os.path.join(tmp, "libtbb.so.12"), "-Wl,-soname,libtbb.so.12"] + objs +
                       ["-ldl", "-lpthread", "-Wl,--version-script=" + os.path.join(REPO, "src/tbb/def/lin64-tbb.def")])
        if rc != 0:
            raise BuildError("link libtbb failed\n" + out[-4000:])
        os.symlink("libtbb.so.12", os.path.join(tmp, "libtbb.so"))
        for o in objs:
            os.unlink(o)
        os.rename(tmp, d)
        log("built libtbb %s in %.1fs -> %s" % (variant, time.time() - t0, d))
    return d


def build_malloc(variant, debug_asserts=False):
    """Builds libtbbmalloc.so.2 (kept in its own directory so libtbb does not pick it up by itself)."""
    vflags = [f for f in VARIANTS[variant] if f != "-DTBB_USE_ASSERT=1"]
    if debug_asserts or variant in ("dbg",):
        vflags = vflags + ["-DTBB_USE_DEBUG=1"]
    flags = COMMON + vflags + MALLOC_DEFS
    key = hashlib.sha256((repo_hash("tbbmalloc") + " ".join(flags)).encode()).hexdigest()[:16]
    vname = variant + ("D" if debug_asserts and variant != "dbg" else "")
    name = "malloc-%s-%s" % (vname, key)
    d = os.path.join(BUILD, name)
    with _Lock("malloc-" + vname):
        if os.path.exists(os.path.join(d, "libtbbmalloc.so.2")):
            _touch(d)
            return d
        t0 = time.time()
        _prune("malloc-" + vname, name)
        tmp = d + ".tmp"
        shutil.rmtree(tmp, ignore_errors=True); os.makedirs(tmp)
        srcs = _cmake_sources(os.path.join(REPO, "src/tbbmalloc/CMakeLists.txt"), "tbbmalloc")
        inc = ["-I" + os.path.join(REPO, "include"), "-I" + os.path.join(REPO, "src")]
        jobs = []
        for s in srcs:
            sp = os.path.join(REPO, "src/tbbmalloc", s)
            if not os.path.exists(sp):
                sp = os.path.join(REPO, "src/tbb", os.path.basename(s))
            jobs.append((["g++"] + flags + inc + ["-c", sp, "-o", os.path.join(tmp, s + ".o")], s))
        _compile_many(jobs)
        objs = [os.path.join(tmp, s + ".o") for s in srcs]
        san = [f for f in VARIANTS[variant] if f.startswith("-fsanitize") or f.startswith("-fno-sanitize")]
        rc, out = _run(["g++", "-shared"] + san + ["-o", os.path.join(tmp, "libtbbmalloc.so.2"), "-Wl,-soname,libtbbmalloc.so.2"] + objs +
                       ["-ldl", "-lpthread", "-Wl,--version-script=" + os.path.join(REPO, "src/tbbmalloc/def/lin64-tbbmalloc.def")])
        if rc != 0:
            raise BuildError("link libtbbmalloc failed\n" + out[-4000:])
        os.symlink("libtbbmalloc.so.2", os.path.join(tmp, "libtbbmalloc.so"))
        for o in objs:
            os.unlink(o)
        os.rename(tmp, d)
        log("built libtbbmalloc %s in %.1fs" % (vname, time.time() - t0))
    return d


def build_harness(name, variant, with_tbb=True, with_malloc=False, malloc_debug=False, extra=()):
    """Compiles /verif/harness/<name>.cpp against the variant's libraries; returns path of the executable."""
    src = os.path.join(VERIF, "harness", name + ".cpp")
    libdir = build_lib(variant) if with_tbb else None
    mdir = build_malloc(variant, malloc_debug) if with_malloc else None
    flags = COMMON + VARIANTS[variant] + list(extra)
    hdrs = _hash_tree([os.path.join(VERIF, "vrt"), src] + [p for p in glob.glob(os.path.join(VERIF, "harness", "*.h"))])
    key = hashlib.sha256((repo_hash("include") + hdrs + " ".join(flags) + str(libdir) + str(mdir)).encode()).hexdigest()[:16]
    tag = "h-%s-%s" % (name, variant + ("D" if malloc_debug else ""))
    dname = "%s-%s" % (tag, key)
    d = os.path.join(BUILD, dname)
    exe = os.path.join(d, name)
    with _Lock(tag):
        if os.path.exists(exe):
            _touch(d)
            return exe
        t0 = time.time()
        _prune(tag, dname)
        tmp = d + ".tmp"
        shutil.rmtree(tmp, ignore_errors=True); os.makedirs(tmp)
        cmd = ["g++"] + flags + ["-I" + os.path.join(REPO, "include"), "-I" + os.path.join(VERIF, "vrt"), "-I" + os.path.join(VERIF, "harness"),
                                 src, "-o", os.path.join(tmp, name), "-rdynamic"]
        if libdir:
            cmd += ["-L" + libdir, "-Wl,-rpath," + libdir, "-ltbb"]
        if mdir:
            cmd += ["-L" + mdir, "-Wl,-rpath," + mdir, "-ltbbmalloc"]
        cmd += ["-ldl", "-lpthread"]
        rc, out = _run(cmd)
        if rc != 0:
            raise BuildError("harness %s (%s) failed to compile\n%s" % (name, variant, out[-6000:]))
        # the libraries this executable must find at run time (checked by the driver before every job and by the harness itself)
        with open(os.path.join(tmp, "libdirs.txt"), "w") as f:
            f.write("\n".join(x for x in (libdir, mdir) if x) + "\n")
        os.rename(tmp, d)
        log("built harness %s/%s in %.1fs" % (name, variant, time.time() - t0))
    return exe


def build_all(specs):
    """specs: list of dicts for build_harness(**spec). Builds libraries first (serially per variant, each
    uses all cores), then harnesses in parallel."""
    for v in sorted({s["variant"] for s in specs if s.get("with_tbb", True)}):
        build_lib(v)
    for v, dbg in sorted({(s["variant"], s.get("malloc_debug", False)) for s in specs if s.get("with_malloc")}):
        build_malloc(v, dbg)
    out = {}
    with ThreadPoolExecutor(min(len(specs), 8) or 1) as ex:
        futs = {(s["name"], s["variant"], s.get("malloc_debug", False)): ex.submit(build_harness, **s) for s in specs}
        for k, f in futs.items():
            out[k] = f.result()
    return out


# ------------------------------------------------------------------------------------------------ running
SAN_ENV = {
    "tsan": lambda logp: {"TSAN_OPTIONS": "halt_on_error=0:second_deadlock_stack=1:report_signal_unsafe=0:history_size=4:log_path=%s:suppressions=%s" % (
        logp, os.path.join(VERIF, "vlib", "tsan.supp"))},
    "asan": lambda logp: {"ASAN_OPTIONS": "abort_on_error=0:detect_leaks=1:halt_on_error=1:log_path=%s:detect_stack_use_after_return=0" % logp,
                          "UBSAN_OPTIONS": "print_stacktrace=1:halt_on_error=1:log_path=%s" % logp,
                          "LSAN_OPTIONS": "suppressions=%s:print_suppressions=0" % os.path.join(VERIF, "vlib", "lsan.supp")},
}


class Job:
    def __init__(self, exe, variant, args, tag, timeout=600, env=None, expect_leaks=True):
        self.exe, self.variant, self.args, self.tag, self.timeout, self.env = exe, variant, list(args), tag, timeout, dict(env or {})
        self.result = None      # parsed JSON of the harness
        self.rc = None
        self.timed_out = False
        self.stderr_tail = ""
        self.san_reports = []   # list of (kind, key, text)
        self.wall = 0.0
        self.attempts = 0


def _run_job(job, workdir):
    job.attempts += 1
    out = os.path.join(workdir, "%s.%d.json" % (job.tag, job.attempts))
    logp = os.path.join(workdir, "%s.%d.san" % (job.tag, job.attempts))
    env = dict(os.environ)
    env.update(job.env)
    # the libraries the executable was linked against must still be there (and are marked as in use); the harness verifies on its side that
    # the libtbb / libtbbmalloc it really loaded come from these directories (a missing directory would otherwise mean the system's library)
    libdirs = []
    try:
        libdirs = [l.strip() for l in open(os.path.join(os.path.dirname(job.exe), "libdirs.txt")) if l.strip()]
    except OSError:
        pass
    for ld in libdirs:
        _touch(ld)
    _touch(os.path.dirname(job.exe))
    missing = [ld for ld in libdirs if not os.path.isdir(ld)]
    if missing:
        job.rc, job.result, job.san_reports, job.wall = 2, None, [], 0.0
        job.stderr_tail = "[driver] library directory of this harness has disappeared: %s" % ", ".join(missing)
        return job
    if libdirs:
        env["VRT_EXPECT_LIBDIRS"] = ":".join(libdirs)
    if job.variant in SAN_ENV:
        env.update(SAN_ENV[job.variant](logp))
    cmd = [job.exe] + job.args + ["--out", out]
    t0 = time.time()
    job.timed_out = False
    try:
        p = subprocess.Popen(cmd, stdout=subprocess.DEVNULL, stderr=subprocess.PIPE, env=env, start_new_session=True)
        # the driver's limit is a watchdog against runaway processes, not a verdict: it is stretched when the machine is busy with other work
        # (load average above the number of CPUs), up to six times
        try:
            stretch = min(6.0, max(1.0, os.getloadavg()[0] / max(1, NCPU)))
        except OSError:
            stretch = 1.0
        try:
            _, err = p.communicate(timeout=job.timeout * stretch)
        except subprocess.TimeoutExpired:
            job.timed_out = True
            try:
                os.killpg(p.pid, signal.SIGKILL)
            except OSError:
                pass
            _, err = p.communicate()
        job.rc = p.returncode
        job.stderr_tail = (err or b"").decode("utf-8", "replace")[-6000:]
    except OSError as e:
        job.rc = 127; job.stderr_tail = str(e)
    job.wall = time.time() - t0
    job.result = None
    if os.path.exists(out):
        try:
            job.result = json.load(open(out))
        except Exception as e:
            job.stderr_tail += "\n[driver] unreadable result: %s" % e
    job.san_reports = []
    for lf in glob.glob(logp + ".*"):
        try:
            job.san_reports += parse_sanitizer_log(open(lf, errors="replace").read())
        except OSError:
            pass
    return job


def run_jobs(jobs, workdir, parallel=None):
    os.makedirs(workdir, exist_ok=True)
    parallel = parallel or NCPU
    with ThreadPoolExecutor(parallel) as ex:
        list(ex.map(lambda j: _run_job(j, workdir), jobs))
    # a watchdog expiry is inconclusive: re-run once from a fresh process before anything is reported
    # (driver time limit, or the harness's own watchdog leaving with exit code 4 = "stalled, but neither provably asleep nor provably spinning")
    retry = [j for j in jobs if j.timed_out or (j.rc == 4 and not (j.result or {}).get("violations_total"))]
    for j in retry:
        log("job %s %s after %.0fs; re-running once" % (j.tag, "timed out" if j.timed_out else "ended inconclusive (watchdog, exit 4)", j.wall))
        j.first_attempt = "timed out" if j.timed_out else "exit 4"
        _run_job(j, workdir)
    return jobs


_frame_re = re.compile(r"^\s*#(\d+)\s+(?:0x[0-9a-f]+\s+)?(?:in\s+)?(.*?)\s+(\S+?)(?::\d+)*(?:\s+\(.*\))?$")


def parse_sanitizer_log(text):
    """Splits a sanitizer log into report blocks; returns (kind, dedup_key, text)."""
    reports = []
    blocks = re.split(r"(?m)^(?=(?:==================\n)?(?:WARNING: ThreadSanitizer|==\d+==ERROR: AddressSanitizer|==\d+==ERROR: LeakSanitizer|.*runtime error:))", text)
    for b in blocks:
        kind = None
        m = re.search(r"WARNING: ThreadSanitizer: ([^\(\n]+)", b)
        if m:
            kind = "tsan:" + m.group(1).strip()
        m2 = re.search(r"ERROR: AddressSanitizer: ([A-Za-z\-_]+)", b)
        if m2:
            kind = "asan:" + m2.group(1)
        if re.search(r"ERROR: LeakSanitizer", b):
            kind = "lsan:leak"
        m3 = re.search(r"runtime error: (.*)", b)
        if m3 and not kind:
            kind = "ubsan:" + re.sub(r"0x[0-9a-f]+|\d+", "N", m3.group(1))[:80]
        if not kind:
            continue
        # de-duplicate by the first frames that are not sanitizer runtime / libstdc++ internals
        frames = []
        for ln in b.splitlines():
            fm = re.match(r"\s*#\d+\s+(?:0x[0-9a-f]+\s+in\s+)?(.+?)\s+(/\S+?|\S+\.(?:h|cpp|cc|hpp))(?::\d+)*", ln)
            if fm:
                fn, fl = fm.group(1), fm.group(2)
                if "sanitizer" in fl or "libsanitizer" in fl or fl.startswith("/usr/") or fl.startswith("/build/") or "interceptors" in fl:
                    continue
                fn = re.sub(r"<.*>", "<>", fn)
                frames.append("%s@%s" % (fn[:80], os.path.basename(fl)))
        key = kind + "|" + "|".join(frames[:3])
        files = sorted({f.split("@")[1] for f in frames[:12]})
        reports.append((kind, key, b.strip()[:6000], files))
    return reports


# ------------------------------------------------------------------------------------------------ findings
class Findings:
    def __init__(self):
        p = os.path.join(VERIF, "known_findings.json")
        self.entries = json.load(open(p))["findings"] if os.path.exists(p) else []

    def match(self, prop, key):
        """Returns the 'known' entry that lists this violation key, if any ('fixed' entries suppress nothing)."""
        for e in self.entries:
            if e.get("status") != "known":
                continue
            if e.get("property") == prop:
                for pat in e.get("keys", []):
                    if re.fullmatch(pat, key):
                        return e
            # an assertion site that identifies a known defect of another property: the crash is attributed to that
            # finding (printed as KNOWN-FINDING with its own property id) instead of failing this property's check
            for pat in e.get("crash_keys_any_property", []):
                if re.fullmatch(pat, key):
                    return e
        return None


# ------------------------------------------------------------------------------------------------ check run
class Check:
    """Accumulates the outcome of one property check and writes evidence / replay files."""

    def __init__(self, prop, tier, seed, level="exploration"):
        self.prop, self.tier, self.seed, self.level = prop, tier, seed, level
        self.t0 = time.time()
        self.findings = Findings()
        self.violations = []      # dicts: key, detail, scenario, job
        self.known = {}           # finding id -> count
        self.harness_failures = []
        self.evaluations = 0
        self.nontrivial = 0
        self.signatures = set()
        self.samples = []
        self.stats = {}
        self.hooks = {}
        self.per_phase = []
        self.inconclusive = 0
        self.san_reports = {}     # key -> (kind, text, count)
        self.assumptions = []
        self.rule = ""
        self.extra = {}
        self.workdir = os.path.join(BUILD, "run-%s-%d" % (prop, os.getpid()))
        shutil.rmtree(self.workdir, ignore_errors=True)
        os.makedirs(self.workdir, exist_ok=True)
        for old in glob.glob(os.path.join(OUT, "replays", "%s-*.json" % prop)):
            try:
                os.unlink(old)
            except OSError:
                pass

    # anchors: source files whose sanitizer reports / assertions count as violations of this property
    def absorb(self, jobs, phase, anchors_re=None, leak_is_violation=True):
        ph = {"phase": phase, "processes": len(jobs), "scenarios": 0, "nontrivial": 0, "wall_s": 0.0, "variant": jobs[0].variant if jobs else ""}
        for j in jobs:
            ph["wall_s"] = max(ph["wall_s"], round(j.wall, 1))
            r = j.result
            scen_args = {"exe": os.path.basename(j.exe), "variant": j.variant, "args": j.args, "env": j.env}
            if j.timed_out:
                # timed out twice (run_jobs re-ran it once): inconclusive => harness failure, not a verdict
                self.inconclusive += 1
                self.harness_failures.append("%s: driver time limit (%ds) hit twice; stderr tail: %s" % (j.tag, j.timeout, j.stderr_tail[-400:]))
                continue
            if r:
                self.evaluations += r.get("scenarios", 0); ph["scenarios"] += r.get("scenarios", 0)
                self.nontrivial += r.get("nontrivial", 0); ph["nontrivial"] += r.get("nontrivial", 0)
                self.inconclusive += r.get("inconclusive", 0)
                self.signatures.update(r.get("signatures", []))
                for s in r.get("samples", []):
                    if len(self.samples) < 6:
                        self.samples.append(s)
                for k, v in r.get("stats", {}).items():
                    if k.startswith("max_"):
                        self.stats[k] = max(self.stats.get(k, 0), v)
                    else:
                        self.stats[k] = self.stats.get(k, 0) + v
                for hid, hv in r.get("hooks", {}).items():
                    cur = self.hooks.setdefault(hid, {"n": 0, "h": [0] * 8})
                    cur["n"] += hv["n"]
                    cur["h"] = [a + b for a, b in zip(cur["h"], hv["h"])]
                for v in r.get("violations", []):
                    self.add_violation(v["key"], v.get("detail", ""), dict(scen_args, scenario=v.get("scenario", {})))
                extra_v = r.get("violations_total", 0) - len(r.get("violations", []))
                if extra_v > 0:
                    self.stats["violations_not_listed"] = self.stats.get("violations_not_listed", 0) + extra_v
            # process-level outcomes
            crashed = j.rc is not None and j.rc < 0
            asserted = re.search(r"Assertion (.*?) failed \(located in the (\S+) function, line in file: (\d+)\)", j.stderr_tail)
            cm = re.search(r"\[vrt-crash-context\] (\S+)", j.stderr_tail)
            cctx = ("@" + cm.group(1)) if cm else ""
            if asserted:
                self.add_violation("assert.%s%s" % (asserted.group(2), cctx), "oneTBB internal assertion: " + asserted.group(0)[:300] + " | " + j.stderr_tail[-600:], scen_args)
            for kind, key, text, files in j.san_reports:
                if kind == "lsan:leak" and not leak_is_violation:
                    continue
                cur = self.san_reports.get(key)
                if cur:
                    cur[2] += 1
                    continue
                self.san_reports[key] = [kind, text, 1]
                self.add_violation("san." + key.split("|")[0] + "." + (key.split("|")[1] if "|" in key and key.split("|")[1] else "noframe"),
                                   text[:3000], scen_args)
            if crashed and not asserted and not j.san_reports:
                sig = -j.rc
                try:
                    signame = signal.Signals(sig).name
                except ValueError:
                    signame = str(sig)
                mode = ""
                for i, a in enumerate(j.args):
                    if a == "--mode" and i + 1 < len(j.args):
                        mode = j.args[i + 1]
                self.add_violation("crash.%s.%s%s" % (mode or "default", signame, cctx), "process died on %s; stderr tail: %s" % (signame, j.stderr_tail[-1500:]), scen_args)
            elif r is None and not crashed and not asserted and not j.san_reports:
                self.harness_failures.append("%s: no result file (rc=%s) stderr: %s" % (j.tag, j.rc, j.stderr_tail[-600:]))
            elif r is not None and j.rc not in (0, None) and not crashed and not j.san_reports and not asserted and not r.get("violations_total"):
                self.harness_failures.append("%s: exit code %s without a recorded violation; stderr: %s" % (j.tag, j.rc, j.stderr_tail[-600:]))
        self.per_phase.append(ph)

    def add_violation(self, key, detail, scenario):
        e = self.findings.match(self.prop, key)
        if e:
            self.known[e["id"]] = self.known.get(e["id"], 0) + 1
            return
        self.violations.append({"key": key, "detail": detail, "scenario": scenario})

    def require(self, cond, msg):
        if not cond:
            self.harness_failures.append(msg)

    def finish(self):
        wall = time.time() - self.t0
        os.makedirs(os.path.join(OUT, "evidence"), exist_ok=True)
        os.makedirs(os.path.join(OUT, "replays"), exist_ok=True)
        for e in self.findings.entries:
            if e.get("status") == "known" and e["id"] in self.known:
                print("KNOWN-FINDING: property=%s %s (%s; seen %d times in this run)" % (e.get("property"), e["id"], e.get("what", "")[:600], self.known[e["id"]]))
        rc = 0
        replay_paths = []
        seen_keys = set()
        if self.violations:
            # which tree was judged? (a report on a tree that is not the committed one must be recognisable from the log alone)
            try:
                head = subprocess.run(["git", "-C", REPO, "rev-parse", "--short", "HEAD"], capture_output=True, text=True).stdout.strip()
                dirty = subprocess.run(["git", "-C", REPO, "status", "--short", "--untracked-files=no"], capture_output=True, text=True).stdout.strip().splitlines()
                print("TREE-UNDER-TEST repo=%s head=%s sources=%s include=%s uncommitted_changes=%s" % (REPO, head or "?", repo_hash("tbb"), repo_hash("include"), dirty[:8] if dirty else "none"))
                print("MACHINE cpus=%s usable=%s loadavg=%s" % (os.cpu_count(), len(os.sched_getaffinity(0)), open("/proc/loadavg").read().strip()))
            except Exception as e:
                print("TREE-UNDER-TEST repo=%s (git state unavailable: %s)" % (REPO, e))
        for i, v in enumerate(self.violations):
            if v["key"] in seen_keys and len(replay_paths) >= 10:
                continue
            seen_keys.add(v["key"])
            p = os.path.join(OUT, "replays", "%s-%d-%d.json" % (self.prop, self.seed, i))
            json.dump({"property": self.prop, "tier": self.tier, "seed": self.seed, **v}, open(p, "w"), indent=1)
            try:   # rolling log of everything ever reported (replays/ is cleared at the start of the next run of the property)
                with open(os.path.join(BUILD, "violations.log"), "a") as lf:
                    lf.write(json.dumps({"time": time.strftime("%Y-%m-%dT%H:%M:%S"), "repo": REPO, "property": self.prop, "tier": self.tier, "seed": self.seed, **v}) + "\n")
            except OSError:
                pass
            replay_paths.append(p)
            print("VIOLATION property=%s replay=%s key=%s" % (self.prop, p, v["key"]))
            print("  detail: " + v["detail"][:800].replace("\n", "\n  "))
            if i < 3:
                print("  scenario: " + json.dumps(v.get("scenario", {}))[:4000])
            rc = 1
        cov = {
            "evaluations": int(self.evaluations),
            "distinct_nontrivial": len(self.signatures),
            "rule": self.rule,
            "samples": self.samples[:6],
            "nontrivial_scenarios": int(self.nontrivial),
            "inconclusive": int(self.inconclusive),
            "phases": self.per_phase,
            "stats": self.stats,
            "hook_counters": {k: v for k, v in sorted(self.hooks.items(), key=lambda kv: int(kv[0]))},
            "sanitizer_reports": {k: v[2] for k, v in self.san_reports.items()},
            "known_findings_seen": self.known,
        }
        cov.update(self.extra)
        ev = {"property_id": self.prop, "tier": self.tier, "seed": int(self.seed), "level": self.level, "coverage": cov,
              "assumptions": self.assumptions, "wall_s": round(wall, 1), "violations": len(self.violations)}
        if self.harness_failures and rc == 0:
            for h in self.harness_failures[:10]:
                print("HARNESS-FAILURE property=%s %s" % (self.prop, h[:1200]))
            rc = 2
        if rc == 0 and (cov["evaluations"] < 1 or cov["distinct_nontrivial"] < 2):
            print("HARNESS-FAILURE property=%s observed too little: evaluations=%d distinct=%d" % (self.prop, cov["evaluations"], cov["distinct_nontrivial"]))
            rc = 2
        json.dump(ev, open(os.path.join(OUT, "evidence", "%s.json" % self.prop), "w"), indent=1)
        shutil.rmtree(self.workdir, ignore_errors=True)
        print("%s %s: %s  evaluations=%d distinct_nontrivial=%d inconclusive=%d known=%s wall=%.0fs" % (
            self.prop, self.tier, {0: "HELD", 1: "VIOLATED", 2: "INCONCLUSIVE/HARNESS-FAILURE"}[rc], cov["evaluations"],
            cov["distinct_nontrivial"], cov["inconclusive"], list(self.known), wall))
        return rc


def seeds(base, n, salt=0):
    return [(base * 1000003 + salt * 7919 + i * 104729 + 12345) % (2 ** 31 - 1) + 1 for i in range(n)]
