# check --setup: warm the build cache (library variants and the harnesses the quick tier needs). Offline, from files on disk.
import json, os, importlib
from . import core


def run():
    man = json.load(open(os.path.join(core.VERIF, "MANIFEST.json")))
    specs = []
    for c in man["checks"]:
        mod = importlib.import_module("checks." + c["property_id"].lower())
        for s in getattr(mod, "BUILDS", []):
            specs.append(s)
    uniq = {}
    for s in specs:
        uniq[(s["name"], s["variant"], s.get("malloc_debug", False))] = s
    try:
        core.build_all(list(uniq.values()))
    except core.BuildError as e:
        print("setup: build failed:", str(e)[-3000:])
        return 1
    print("setup: %d harness builds ready" % len(uniq))
    return 0
