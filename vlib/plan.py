# Generic phase runner used by the per-property check modules.
import os
from . import core


class Phase:
    def __init__(self, name, harness, variant, cases, procs=4, args=(), cpus=0, timeout=900, with_malloc=False, malloc_debug=False,
                 with_tbb=True, extra_flags=(), env=None, leak_is_violation=True, min_nontrivial=0):
        self.name, self.harness, self.variant, self.cases, self.procs = name, harness, variant, int(cases), int(procs)
        self.args, self.cpus, self.timeout = list(args), cpus, timeout
        self.with_malloc, self.malloc_debug, self.with_tbb, self.extra_flags = with_malloc, malloc_debug, with_tbb, tuple(extra_flags)
        self.env = env or {}
        self.leak_is_violation = leak_is_violation
        self.min_nontrivial = min_nontrivial


def run_phases(chk, phases, seed, scale=1.0, parallel=None):
    specs = {}
    for p in phases:
        k = (p.harness, p.variant, p.malloc_debug)
        specs[k] = dict(name=p.harness, variant=p.variant, with_tbb=p.with_tbb, with_malloc=p.with_malloc, malloc_debug=p.malloc_debug, extra=p.extra_flags)
    exes = core.build_all(list(specs.values()))
    jobs_by_phase = []
    all_jobs = []
    for pi, p in enumerate(phases):
        jobs = []
        cases = max(1, int(p.cases * scale))
        per = max(1, cases // p.procs)
        for i, sd in enumerate(core.seeds(seed, p.procs, salt=pi + 1)):
            args = ["--seed", str(sd), "--cases", str(per)] + p.args
            if p.cpus:
                args += ["--cpus", str(p.cpus)]
            jobs.append(core.Job(exes[(p.harness, p.variant, p.malloc_debug)], p.variant, args, "%s-%d" % (p.name, i), timeout=p.timeout, env=p.env))
        jobs_by_phase.append((p, jobs))
        all_jobs += jobs
    core.run_jobs(all_jobs, chk.workdir, parallel=parallel or core.NCPU)
    for p, jobs in jobs_by_phase:
        before = chk.nontrivial
        chk.absorb(jobs, p.name, leak_is_violation=p.leak_is_violation)
        if p.min_nontrivial:
            chk.require(chk.nontrivial - before >= p.min_nontrivial,
                        "phase %s observed only %d non-trivial scenarios (needs %d)" % (p.name, chk.nontrivial - before, p.min_nontrivial))
