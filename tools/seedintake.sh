#!/bin/bash
# usage: tools/seedintake.sh <seed-id>        (deliverables of the sub-agent in /tmp/mut/out-<seed-id>)
# 1. copies patch.diff / demo.cpp / run_demo.sh / notes.md to /verif/seeded/<seed-id>/
# 2. applies the patch in the persistent confirm worktree /tmp/confirm (own _build), rebuilds incrementally,
#    runs the whole pinned suite, runs the demo 3x on the patched tree and 3x on the unmodified build of /repo
# 3. reverts the confirm worktree, writes /verif/seeded/<seed-id>/confirm.log
# Nothing is applied to /repo.
set -u
ID=$1
OUT=/tmp/mut/out-$ID; DST=/verif/seeded/$ID; C=/tmp/confirm
mkdir -p $DST
for f in patch.diff demo.cpp run_demo.sh notes.md; do [ -f $OUT/$f ] && [ ! -f $DST/$f ] && cp $OUT/$f $DST/; done   # files already taken over (e.g. a patch rebased onto a later hook commit) are kept
cp $OUT/*.h $OUT/*.hpp $DST/ 2>/dev/null
LOG=$DST/confirm.log; : > $LOG
# the confirm worktree is scratch: (re)create it when it is missing (first build of all tests takes a while)
if [ ! -d $C/.git ] && [ ! -f $C/.git ]; then
  git -C /repo worktree prune; git -C /repo worktree add --detach -q $C HEAD || exit 2
  (cd $C && cmake -G Ninja -B _build -DCMAKE_BUILD_TYPE=RelWithDebInfo -DTBB_TEST=ON . > /dev/null) || exit 2
fi
git -C $C checkout -q -- . ; git -C $C clean -fdq -e _build
if ! git -C $C apply --check $DST/patch.diff 2>>$LOG; then echo "PATCH DOES NOT APPLY" | tee -a $LOG; exit 2; fi
git -C $C apply $DST/patch.diff
echo "== build with patch" | tee -a $LOG
if ! ninja -C $C/_build > /tmp/confirm_inc.log 2>&1; then echo "BUILD FAILED" | tee -a $LOG; tail -20 /tmp/confirm_inc.log >> $LOG; git -C $C checkout -q -- .; exit 2; fi
tail -1 /tmp/confirm_inc.log >> $LOG
echo "== full suite with patch" | tee -a $LOG
ctest --test-dir $C/_build -j8 --timeout 900 > /tmp/confirm_ctest.log 2>&1
P=$(grep -c " Passed " /tmp/confirm_ctest.log); echo "passed=$P" | tee -a $LOG
grep -E "\*\*\*|Failed|Timeout" /tmp/confirm_ctest.log | grep -v "test_tcm_" | head -20 | tee -a $LOG
W=/tmp/seeddemo/$ID; rm -rf $W; mkdir -p $W/mod $W/base
echo "== demo on patched tree (3 runs)" | tee -a $LOG
for i in 1 2 3; do (cd $W/mod && cp $DST/demo.cpp $DST/run_demo.sh . && cp $DST/*.h . 2>/dev/null; timeout 600 bash ./run_demo.sh $C > out.$i 2>&1; echo "rc=$? $(tail -1 out.$i | cut -c1-200)") | tee -a $LOG; done
git -C $C checkout -q -- .
echo "== demo on unmodified tree /repo (3 runs)" | tee -a $LOG
for i in 1 2 3; do (cd $W/base && cp $DST/demo.cpp $DST/run_demo.sh . && cp $DST/*.h . 2>/dev/null; timeout 600 bash ./run_demo.sh /repo > out.$i 2>&1; echo "rc=$? $(tail -1 out.$i | cut -c1-200)") | tee -a $LOG; done
# (the confirm build is brought back by the next intake's incremental build; sources are already reverted)
rm -rf $W
