#!/usr/bin/env python3
# Regenerates MANIFEST.json from vlib/registry.py, the check modules present, and /repo's hook commits.
import json, os, subprocess, sys
V = os.path.dirname(os.path.dirname(os.path.abspath(__file__)))
sys.path.insert(0, V)
from vlib.registry import REG
man = json.load(open(os.path.join(V, "MANIFEST.json")))
hooks = subprocess.run(["git", "-C", "/repo", "log", "--format=%h %s", "--grep=^verif hooks"], capture_output=True, text=True).stdout.strip().splitlines()
man["hooks"]["source_commits"] = [h.split()[0] for h in reversed(hooks)]
checks, na = [], []
for pid in sorted(REG):
    r = REG[pid]
    if os.path.exists(os.path.join(V, "checks", pid.lower() + ".py")) and r.get("text") and not r.get("disabled"):
        checks.append({
            "property_id": pid,
            "quick_cmd": "./check %s --tier quick" % pid,
            "thorough_cmd": "./check %s --tier thorough" % pid,
            "evidence_file": "/verif/evidence/%s.json" % pid,
            "replay_cmd_template": "./check --replay {path}",
            "engine": "vrt",
            "level_claimed": {"category": r.get("level", "exploration"), "text": r["text"], "design_ref": r["design_ref"]},
            "level_note": r["note"],
            "technique": r["technique"],
        })
    else:
        na.append({"property_id": pid, "reason": r.get("na_reason", "check not built yet (runtime-monitoring design exists in DESIGN.md section 2; not claimed until the harness is soaked)")})
man["checks"] = checks
man["not_applicable"] = na
man["engines"][0]["serves_properties"] = [c["property_id"] for c in checks]
json.dump(man, open(os.path.join(V, "MANIFEST.json"), "w"), indent=1)
print("checks:", [c["property_id"] for c in checks], "not_applicable:", len(na))
