#!/usr/bin/env python3
"""Writes /verif/seeded/<id>/meta.json from the confirmation log (tools/seedintake.sh) and the check runs (tools/seedrun.py).

usage: tools/seedmeta.py <seed-id> <PROPERTY> "<what it needs in order to manifest>" ["<one-line description of the change>"]
"""
import json, os, re, sys, time

V = os.path.dirname(os.path.dirname(os.path.abspath(__file__)))


def main():
    sid, prop, needs = sys.argv[1], sys.argv[2], sys.argv[3]
    what = sys.argv[4] if len(sys.argv) > 4 else ""
    d = os.path.join(V, "seeded", sid)
    conf = open(os.path.join(d, "confirm.log")).read() if os.path.exists(os.path.join(d, "confirm.log")) else ""
    runs = open(os.path.join(d, "runs.log")).read().strip().splitlines() if os.path.exists(os.path.join(d, "runs.log")) else []
    m = re.search(r"passed=(\d+)", conf)
    failed = [l for l in conf.splitlines() if re.search(r"\*\*\*|Failed|Timeout", l) and "test_tcm" not in l and not l.startswith("==")]
    sect = re.split(r"^== ", conf, flags=re.M)
    demo_mod = [l for s in sect if s.startswith("demo on patched") for l in s.splitlines()[1:] if l.startswith("rc=")]
    demo_base = [l for s in sect if s.startswith("demo on unmodified") for l in s.splitlines()[1:] if l.startswith("rc=")]
    files = []
    for l in open(os.path.join(d, "patch.diff")):
        if l.startswith("+++ b/"):
            files.append(l[6:].strip())
    meta = {
        "id": sid,
        "property": prop,
        "change": what,
        "files_changed": files,
        "needs_to_manifest": needs,
        "origin": "written by an independent sub-agent that saw only the text of the property and a scratch worktree of /repo (nothing from /verif)",
        "confirmed_by_me": {
            "how": "tools/seedintake.sh: patch applied in the scratch worktree /tmp/confirm (own build tree), incremental rebuild, whole pinned suite (ctest -j8), "
                   "demo 3x on the patched tree and 3x on the unmodified build of /repo; never applied to /repo",
            "suite_tests_passed_with_patch": int(m.group(1)) if m else None,
            "suite_failures_with_patch_other_than_the_baseline_always_fail_tests": failed,
            "demo_on_patched_tree": demo_mod,
            "demo_on_unmodified_tree": demo_base,
            "demo_fails_with_patch_and_passes_without": bool(demo_mod) and all(not l.startswith("rc=0") for l in demo_mod) and bool(demo_base) and all(l.startswith("rc=0") for l in demo_base),
        },
        "check_runs": runs,
        "written": time.strftime("%Y-%m-%d"),
    }
    json.dump(meta, open(os.path.join(d, "meta.json"), "w"), indent=1)
    print(sid, "suite passed:", meta["confirmed_by_me"]["suite_tests_passed_with_patch"], "other failures:", failed, "demo ok:", meta["confirmed_by_me"]["demo_fails_with_patch_and_passes_without"])


if __name__ == "__main__":
    main()
