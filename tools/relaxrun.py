#!/usr/bin/env python3
"""Detection-power probe for the sanitizer side of a check: weakens one memory order (or applies any one-line substitution) in a scratch
export of /repo's HEAD and runs a check against it (VERIF_REPO / VERIF_OUT; /repo itself is never touched).

usage: tools/relaxrun.py <name> <PROPERTY> <file>:<line>:<from>:<to> (or file@@line@@from@@to) [more edits...] [--tier quick|thorough] [--seed N]
Appends one line to /verif/seeded/own-mutants.log.
"""
import os, re, shutil, subprocess, sys, time, json
V = os.path.dirname(os.path.dirname(os.path.abspath(__file__)))
def main():
    args = sys.argv[1:]; tier = "quick"; seed = "1"; rest = []
    i = 0
    while i < len(args):
        if args[i] == "--tier": tier = args[i+1]; i += 2
        elif args[i] == "--seed": seed = args[i+1]; i += 2
        else: rest.append(args[i]); i += 1
    name, prop, edits = rest[0], rest[1], rest[2:]
    scr, out = "/tmp/relax/%s" % name, "/tmp/relax/%s-out" % name
    shutil.rmtree(scr, ignore_errors=True); shutil.rmtree(out, ignore_errors=True); os.makedirs(scr); os.makedirs(out)
    subprocess.run("git -C /repo archive HEAD | tar -x -C %s" % scr, shell=True, check=True)
    desc = []
    for e in edits:
        f, ln, a, b = e.split("@@", 3) if "@@" in e else e.split(":", 3); ln = int(ln)      # use @@ as separator when the text contains colons
        p = os.path.join(scr, f); L = open(p).read().split("\n")
        if a not in L[ln-1]: print("EDIT DOES NOT MATCH %s:%d: %r" % (f, ln, L[ln-1])); return 2
        L[ln-1] = L[ln-1].replace(a, b, 1); open(p, "w").write("\n".join(L)); desc.append("%s:%d %s->%s" % (f, ln, a, b))
    t0 = time.time()
    r = subprocess.run([os.path.join(V, "check"), prop, "--tier", tier, "--seed", seed], cwd=V, env=dict(os.environ, VERIF_REPO=scr, VERIF_OUT=out), capture_output=True, text=True)
    keys = {}
    for m in re.finditer(r"^VIOLATION property=\S+ replay=\S+ key=(.*)$", r.stdout, re.M): keys[m.group(1)[:90]] = keys.get(m.group(1)[:90], 0) + 1
    verdict = {0: "MISSED (held)", 1: "CAUGHT", 2: "HARNESS-FAILURE"}.get(r.returncode, "rc=%d" % r.returncode)
    line = "%s %s %s tier=%s seed=%s [%s]: %s in %.0fs %s" % (time.strftime("%Y-%m-%dT%H:%M:%S"), name, prop, tier, seed, "; ".join(desc), verdict, time.time()-t0, json.dumps(dict(sorted(keys.items(), key=lambda kv: -kv[1])[:5])))
    print(line, flush=True)
    open(os.path.join(V, "seeded", "own-mutants.log"), "a").write(line + "\n")
    shutil.rmtree(scr, ignore_errors=True); shutil.rmtree(out, ignore_errors=True)
if __name__ == "__main__": sys.exit(main())
