#!/bin/bash
# usage: seeded.sh <seed-id> <PROPERTY> [more properties...]   (seed output in /tmp/seed/<seed-id>-out)
# copies the deliverables to /verif/seeded/<seed-id>, builds a scratch tree with the patch, runs the demo on both trees,
# runs the named checks (quick) against the scratch tree through VERIF_REPO, prints a summary.
set -u
ID=$1; shift; PROPS="$@"
OUT=/tmp/seed/$ID-out; DST=/verif/seeded/$ID; SCR=/tmp/sm/$ID
mkdir -p $DST; cp $OUT/patch.diff $OUT/demo.cpp $OUT/build_demo.sh $OUT/notes.md $DST/ 2>/dev/null
git -C /repo apply --check $DST/patch.diff || { echo "PATCH DOES NOT APPLY to /repo HEAD"; exit 2; }
rm -rf $SCR $SCR-base; mkdir -p $SCR $SCR-base
git -C /repo archive HEAD | tar -x -C $SCR; git -C /repo archive HEAD | tar -x -C $SCR-base
(cd $SCR && git init -q . >/dev/null 2>&1; git apply $DST/patch.diff) || { echo "apply failed"; exit 2; }
echo "== demo on unmodified tree"; (bash $DST/build_demo.sh $SCR-base /tmp/sm/$ID-demo-base >/tmp/sm/$ID-b0.log 2>&1; for i in 1 2 3; do timeout 300 /tmp/sm/$ID-demo-base/demo >/dev/null 2>&1; echo -n "rc=$? "; done; echo)
echo "== demo on modified tree"; (bash $DST/build_demo.sh $SCR /tmp/sm/$ID-demo-mod >/tmp/sm/$ID-b1.log 2>&1; for i in 1 2 3; do timeout 300 /tmp/sm/$ID-demo-mod/demo 2>&1 | tail -1 | cut -c1-200; echo "rc=${PIPESTATUS[0]}"; done)
for P in $PROPS; do echo "== check $P against the modified tree"; (cd /verif && VERIF_REPO=$SCR timeout 3000 ./check $P --tier quick 2>&1 | grep -E "^VIOLATION|quick:|HARNESS" | sed 's/replay=[^ ]* //' | cut -c1-170 | sort | uniq -c | sort -rn | head -6); done
