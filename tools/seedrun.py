#!/usr/bin/env python3
"""Runs checks against a seeded change kept under /verif/seeded/<id>/ (patch.diff).

usage: tools/seedrun.py <seed-id> <PROPERTY> [PROPERTY...] [--tier quick|thorough] [--seed N] [--keep]

The patch is applied to a scratch export of /repo's HEAD under /tmp/seedrun/<id> (never to /repo itself), the checks are
run against that tree through VERIF_REPO with evidence and replays redirected to /tmp/seedrun/<id>-out (VERIF_OUT), and the
scratch tree is removed afterwards. Prints one line per check: caught (exit 1 + keys), missed (exit 0) or harness failure.
The result is appended to /verif/seeded/<id>/runs.log.
"""
import json, os, re, shutil, subprocess, sys, time

V = os.path.dirname(os.path.dirname(os.path.abspath(__file__)))


def main():
    args = sys.argv[1:]
    tier, seed, keep = "quick", "1", False
    rest = []
    i = 0
    while i < len(args):
        if args[i] == "--tier": tier = args[i + 1]; i += 2
        elif args[i] == "--seed": seed = args[i + 1]; i += 2
        elif args[i] == "--keep": keep = True; i += 1
        else: rest.append(args[i]); i += 1
    sid, props = rest[0], rest[1:]
    d = os.path.join(V, "seeded", sid)
    patch = os.path.join(d, "patch.diff")
    scr, out = "/tmp/seedrun/%s" % sid, "/tmp/seedrun/%s-out" % sid
    shutil.rmtree(scr, ignore_errors=True); shutil.rmtree(out, ignore_errors=True)
    os.makedirs(scr); os.makedirs(out)
    subprocess.run("git -C /repo archive HEAD | tar -x -C %s" % scr, shell=True, check=True)
    r = subprocess.run(["git", "apply", "--directory", scr.lstrip("/"), "--unsafe-paths", patch], cwd="/", capture_output=True, text=True)
    if r.returncode != 0:
        r = subprocess.run("cd %s && patch -p1 < %s" % (scr, patch), shell=True, capture_output=True, text=True)
        if r.returncode != 0:
            print("PATCH DOES NOT APPLY to /repo HEAD:", r.stdout[-500:], r.stderr[-500:]); return 2
    env = dict(os.environ, VERIF_REPO=scr, VERIF_OUT=out)
    summary = []
    for p in props:
        t0 = time.time()
        r = subprocess.run([os.path.join(V, "check"), p, "--tier", tier, "--seed", seed], cwd=V, env=env, capture_output=True, text=True)
        keys = {}
        for m in re.finditer(r"^VIOLATION property=\S+ replay=\S+ key=(.*)$", r.stdout, re.M):
            keys[m.group(1)] = keys.get(m.group(1), 0) + 1
        hf = re.findall(r"^HARNESS-FAILURE.*$", r.stdout, re.M)
        verdict = {0: "MISSED (held)", 1: "CAUGHT", 2: "HARNESS-FAILURE"}.get(r.returncode, "rc=%d" % r.returncode)
        line = "%s %s tier=%s seed=%s: %s in %.0fs %s %s" % (sid, p, tier, seed, verdict, time.time() - t0,
                                                          json.dumps(dict(sorted(keys.items(), key=lambda kv: -kv[1])[:6])), (hf[0][:300] if hf and r.returncode == 2 else ""))
        print(line, flush=True)
        summary.append(line)
    with open(os.path.join(d, "runs.log"), "a") as f:
        for l in summary:
            f.write(time.strftime("%Y-%m-%dT%H:%M:%S ") + l + "\n")
    if not keep:
        shutil.rmtree(scr, ignore_errors=True); shutil.rmtree(out, ignore_errors=True)
    return 0


if __name__ == "__main__":
    sys.exit(main())
