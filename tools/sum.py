#!/usr/bin/env python3
import json,sys
for p in sys.argv[1:]:
    r=json.load(open(p))
    print({k:r[k] for k in ['scenarios','nontrivial','inconclusive','perturb_delays','violations_total']}, 'wall=%.1f'%r['wall_s'], 'sigs=%d'%len(r['signatures']))
    print(' stats:',r['stats'])
    print(' hooks:',{k:v['n'] for k,v in r['hooks'].items()})
    for v in r['violations'][:3]: print(' VIOL',v['key'],v['detail'][:600].replace('\n',' | '))
    if r['samples']: print(' sample:',json.dumps(r['samples'][0])[:400])
