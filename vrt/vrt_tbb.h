// Helpers that need oneTBB headers: keeper thread for hot arenas, participation tracking.
#pragma once
#include "vrt.h"
#include <oneapi/tbb/task_arena.h>
#include <oneapi/tbb/global_control.h>

namespace vrt {

// Keeps the workers of an arena awake and hungry by trickling tiny tasks into it. Without it ~99.7 % of
// short scenarios run entirely on the calling thread (nothing is stolen, no interleaving is explored).
struct Keeper {
    tbb::task_arena& arena;
    std::atomic<bool> stop{false};
    std::atomic<long> enq{0}, ran{0};
    std::thread th;
    int burst; unsigned pause_us;
    explicit Keeper(tbb::task_arena& a, int burst_ = 4, unsigned pause_us_ = 50) : arena(a), burst(burst_), pause_us(pause_us_) {
        th = std::thread([this] {
            while (!stop.load(std::memory_order_relaxed)) {
                suspend_gate(&stop);   // let the process go quiet while the watchdog decides whether it is stuck
                // do not flood: keep at most a few hundred tasks outstanding
                if (enq.load(std::memory_order_relaxed) - ran.load(std::memory_order_relaxed) < 256)
                    for (int i = 0; i < burst; i++) { enq.fetch_add(1, std::memory_order_relaxed); arena.enqueue([this] { spin_iters(300); ran.fetch_add(1, std::memory_order_release); }); }
                sleep_us(pause_us);
            }
        });
    }
    ~Keeper() {
        stop.store(true); gate_wake(); th.join();   // the keeper may be parked at the gate (a join without the wake-up deadlocked under heavy load)
        // drain: the tasks reference this object
        double t0 = now_s();
        while (ran.load(std::memory_order_acquire) < enq.load() && now_s() - t0 < 60) sleep_us(200);
    }
};

// Thread ordinal for participation signatures (small dense ids in order of first appearance in the process)
inline int thread_ordinal() { return hook_thread().ordinal; }

} // namespace vrt
