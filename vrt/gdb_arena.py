# gdb script (sourced by vrt::stacks_dump for hang verdicts): dumps the scheduler state of every arena that can be reached from a
# stack frame of a live thread - slots (occupied, task pool state, head/tail, pool entries with isolation tag and proxy flag),
# mailboxes, task streams, pool state flag, reference counts. Read-only; values that the optimiser removed are skipped.
import gdb

seen = set()
out = []


def ev(expr):
    try:
        return gdb.parse_and_eval(expr)
    except Exception:
        return None


def atom(v, depth=0):
    # std::atomic<T> -> the stored value (_M_i for integers / bool, _M_b._M_p for pointers)
    try:
        t = v.type.strip_typedefs()
        if t.code not in (gdb.TYPE_CODE_STRUCT, gdb.TYPE_CODE_UNION) or depth > 4:
            return v
        for f in t.fields():
            if f.is_base_class:
                return atom(v[f], depth + 1)
            if f.name in ("_M_i", "_M_p"):
                return v[f.name]
            if f.name in ("_M_b", "_M_base"):
                return atom(v[f.name], depth + 1)
    except Exception:
        pass
    return v


def dump_arena(a):
    addr = int(a)
    if not addr or addr in seen:
        return
    seen.add(addr)
    ar = a.dereference()
    try:
        ns = int(ar['my_num_slots'])
        out.append("ARENA %#x slots=%d reserved=%s max_workers=%s limit=%s pool_state=%s mandatory=%s refs=%s priority=%s top_priority=%s" % (
            addr, ns, ar['my_num_reserved_slots'], ar['my_max_num_workers'], atom(ar['my_limit']), atom(ar['my_pool_state']['my_state']),
            atom(ar['my_mandatory_concurrency']['my_state']), atom(ar['my_references']), ar['my_priority_level'], atom(ar['my_is_top_priority'])))
        for nm in ('my_fifo_task_stream', 'my_resume_task_stream', 'my_critical_task_stream'):
            try:
                out.append("  %s population=%s" % (nm, atom(ar[nm]['population'])))
            except Exception:
                pass
        for i in range(min(ns, 32)):
            s = ar['my_slots'][i]
            tp = int(atom(s['task_pool'])); h = int(atom(s['head'])); t = int(atom(s['tail']))
            line = "  slot %d occupied=%s task_pool=%s head=%d tail=%d" % (i, atom(s['my_is_occupied']), "EMPTY" if tp == 0 else "LOCKED" if tp == 2**64 - 1 else hex(tp), h, t)
            if tp not in (0, 2**64 - 1) and 0 <= h < t and t - h < 64:
                ents = []
                ptr = s['task_pool_ptr']
                for k in range(h, t):
                    try:
                        p = ptr[k]
                        if int(p) == 0:
                            ents.append("hole")
                            continue
                        task = p.dereference()
                        iso = int(task['m_reserved'][2])
                        ver = int(task['m_version_and_traits'])
                        ents.append("%#x(iso=%#x,traits=%#x)" % (int(p), iso, ver))
                    except Exception as e:
                        ents.append("?")
                line += " entries[head..tail)=[" + ", ".join(ents) + "]"
            out.append(line)
        # mailboxes precede the arena object: mailbox(i) = ((mail_outbox*)this)[-(i+1)]
        try:
            mo = gdb.lookup_type('tbb::detail::r1::mail_outbox')
            base = a.cast(mo.pointer())
            for i in range(min(ns, 32)):
                m = (base - (i + 1)).dereference()
                first = int(atom(m['my_first']))
                if first or int(atom(m['my_is_idle'])):
                    out.append("  mailbox %d first=%#x is_idle=%s" % (i, first, atom(m['my_is_idle'])))
        except Exception as e:
            out.append("  (mailboxes not readable: %s)" % e)
    except Exception as e:
        out.append("ARENA %#x not readable: %s" % (addr, e))


def main():
    try:
        threads = gdb.selected_inferior().threads()
    except Exception:
        return
    for th in threads:
        try:
            th.switch()
            f = gdb.newest_frame()
        except Exception:
            continue
        depth = 0
        while f is not None and depth < 48:
            n = f.name() or ""
            try:
                if n.endswith("arena::process") or n.endswith("arena::out_of_work") or "arena::advertise_new_work" in n:
                    f.select(); v = ev("this")
                    if v is not None and not v.is_optimized_out: dump_arena(v)
                elif "task_arena_impl::execute" in n or "task_arena_impl::enqueue" in n:
                    f.select(); v = ev("a")
                    if v is not None and not v.is_optimized_out: dump_arena(v)
                elif "receive_or_steal_task" in n or "local_wait_for_all" in n:
                    f.select()
                    for e in ("tls.my_arena", "&a", "m_thread_data->my_arena", "this->m_thread_data->my_arena"):
                        v = ev(e)
                        if v is not None and not v.is_optimized_out:
                            try:
                                dump_arena(v); break
                            except Exception:
                                pass
            except Exception:
                pass
            f = f.older(); depth += 1
    print("ARENA-DUMP-BEGIN")
    for l in out:
        print(l)
    print("ARENA-DUMP-END")


main()
