// vrt: runtime shared by all verification harnesses (header-only; define VRT_IMPL in exactly one TU).
//
//  * PRNG, argument parsing, minimal JSON writer, result file
//  * implementation of the oneTBB verification hooks (onetbb_verif_point / onetbb_verif_report):
//    per-thread counters + outcome histograms, schedule perturbation (uniform / focus / pct), sleep registry,
//    per-thread event rings
//  * watchdog: quiescence (no thread can ever act again) and spin-stall (CPU burnt without progress)
//    detection from /proc/self/task/*/{stat,schedstat}; never a bare wall-clock verdict
//  * keeper thread helper for hot arenas is in vrt_tbb.h (needs TBB headers)
#pragma once
#include <atomic>
#include <cstdint>
#include <cstdio>
#include <cstdlib>
#include <cstring>
#include <string>
#include <vector>
#include <map>
#include <set>
#include <functional>
#include <mutex>
#include <thread>
#include <condition_variable>
#include <chrono>
#include <algorithm>
#include <sstream>
#include <unistd.h>
#include <csignal>
#include <sched.h>
#include <dirent.h>
#include <time.h>
#include <sys/syscall.h>
#include <x86intrin.h>

#if defined(__SANITIZE_THREAD__)
#define VRT_TSAN 1
#else
#define VRT_TSAN 0
#endif
#if defined(__SANITIZE_ADDRESS__)
#define VRT_ASAN 1
#else
#define VRT_ASAN 0
#endif

#if VRT_TSAN
#include <sys/mman.h>
#include <cerrno>
extern "C" void AnnotateIgnoreReadsBegin(const char* file, int line);
extern "C" void AnnotateIgnoreReadsEnd(const char* file, int line);
namespace vrt {
// ThreadSanitizer (gcc 12 runtime) intercepts mmap/munmap (and forgets the access history of the range) but not mremap.
// A mapping moved by the kernel leaves stale history on the old range and inherits stale history on the new one, so
// header writes of the region that lands there are reported as races with the previous tenant (seen in Backend::remap).
// In the tsan variant the harness therefore defines mremap itself and emulates a moving remap of an anonymous private
// mapping with calls ThreadSanitizer does understand: map new, copy, unmap old. Semantically a legal mremap result.
inline void* tsan_mremap(void* a, size_t ol, size_t nl, int fl) {
    if (nl == ol) return a;
    if (!(fl & MREMAP_MAYMOVE)) {
        if (nl < ol) { munmap((char*)a + nl, ol - nl); return a; }
        errno = ENOMEM; return MAP_FAILED;
    }
    void* n = mmap(nullptr, nl, PROT_READ | PROT_WRITE, MAP_PRIVATE | MAP_ANONYMOUS, -1, 0);
    if (n == MAP_FAILED) return MAP_FAILED;
    memcpy(n, a, ol < nl ? ol : nl);
    munmap(a, ol);
    return n;
}
}
#endif

namespace vrt {

// ------------------------------------------------------------------------------------------------ PRNG
struct Rng {
    uint64_t s;
    explicit Rng(uint64_t seed = 1) : s(seed * 0x9E3779B97F4A7C15ull + 0xD1B54A32D192ED03ull) { next(); next(); }
    uint64_t next() { // splitmix64
        uint64_t z = (s += 0x9E3779B97F4A7C15ull);
        z = (z ^ (z >> 30)) * 0xBF58476D1CE4E5B9ull;
        z = (z ^ (z >> 27)) * 0x94D049BB133111EBull;
        return z ^ (z >> 31);
    }
    uint32_t u32() { return (uint32_t)(next() >> 32); }
    // uniform in [0,n)
    uint64_t below(uint64_t n) { return n ? next() % n : 0; }
    // uniform in [lo,hi]
    long range(long lo, long hi) { return lo + (long)below((uint64_t)(hi - lo + 1)); }
    bool chance(unsigned num, unsigned den) { return below(den) < num; }
    template <class T> const T& pick(const std::vector<T>& v) { return v[below(v.size())]; }
};
inline uint64_t mix(uint64_t a, uint64_t b) {
    uint64_t z = a * 0x9E3779B97F4A7C15ull ^ (b + 0x7F4A7C15D1B54A32ull + (a << 6) + (a >> 2));
    z = (z ^ (z >> 30)) * 0xBF58476D1CE4E5B9ull;
    z = (z ^ (z >> 27)) * 0x94D049BB133111EBull;
    return z ^ (z >> 31);
}
Rng& trng();                       // per-thread generator (seeded from the global seed and a thread ordinal)
void set_global_seed(uint64_t s);
uint64_t global_seed();

// ------------------------------------------------------------------------------------------------ time
inline double now_s() {
    timespec ts; clock_gettime(CLOCK_MONOTONIC, &ts); return ts.tv_sec + ts.tv_nsec * 1e-9;
}
inline uint64_t now_ns() {
    timespec ts; clock_gettime(CLOCK_MONOTONIC, &ts); return (uint64_t)ts.tv_sec * 1000000000ull + ts.tv_nsec;
}
inline void spin_ns(uint64_t ns) { uint64_t e = now_ns() + ns; while (now_ns() < e) { _mm_pause(); } }
inline void spin_iters(unsigned n) { for (volatile unsigned i = 0; i < n; i++) {} }
inline void sleep_us(unsigned us) { timespec ts{ (time_t)(us / 1000000), (long)(us % 1000000) * 1000 }; nanosleep(&ts, nullptr); }

// ------------------------------------------------------------------------------------------------ JSON
struct Json {
    std::string s;
    std::vector<char> stk; // '{' or '['
    std::vector<bool> first;
    void sep() { if (!first.empty()) { if (!first.back()) s += ','; first.back() = false; } }
    static std::string esc(const std::string& in) {
        std::string o; o.reserve(in.size() + 2);
        for (unsigned char c : in) {
            if (c == '"') o += "\\\""; else if (c == '\\') o += "\\\\"; else if (c == '\n') o += "\\n";
            else if (c == '\t') o += "\\t"; else if (c < 0x20) { char b[8]; snprintf(b, 8, "\\u%04x", c); o += b; }
            else o += (char)c;
        }
        return o;
    }
    Json& key(const std::string& k) { sep(); s += '"'; s += esc(k); s += "\":"; pendingkey = true; return *this; }
    bool pendingkey = false;
    void pre() { if (pendingkey) pendingkey = false; else sep(); }
    Json& obj() { pre(); s += '{'; first.push_back(true); return *this; }
    Json& arr() { pre(); s += '['; first.push_back(true); return *this; }
    Json& end_obj() { s += '}'; first.pop_back(); return *this; }
    Json& end_arr() { s += ']'; first.pop_back(); return *this; }
    Json& val(const std::string& v) { pre(); s += '"'; s += esc(v); s += '"'; return *this; }
    Json& val(const char* v) { return val(std::string(v)); }
    Json& val(long long v) { pre(); s += std::to_string(v); return *this; }
    Json& val(unsigned long long v) { pre(); s += std::to_string(v); return *this; }
    Json& val(long v) { return val((long long)v); }
    Json& val(unsigned long v) { return val((unsigned long long)v); }
    Json& val(int v) { return val((long long)v); }
    Json& val(unsigned v) { return val((long long)v); }
    Json& val(bool v) { pre(); s += v ? "true" : "false"; return *this; }
    Json& val(double v) { pre(); char b[40]; snprintf(b, 40, "%.6g", v); s += b; return *this; }
    Json& raw(const std::string& r) { pre(); s += r; return *this; }
    template <class T> Json& kv(const std::string& k, const T& v) { key(k); return val(v); }
};

// ------------------------------------------------------------------------------------------------ args
struct Args {
    std::map<std::string, std::string> kv;
    void parse(int argc, char** argv) {
        for (int i = 1; i < argc; i++) {
            std::string a = argv[i];
            if (a.rfind("--", 0) == 0) {
                a = a.substr(2);
                auto eq = a.find('=');
                if (eq != std::string::npos) kv[a.substr(0, eq)] = a.substr(eq + 1);
                else if (i + 1 < argc && std::string(argv[i + 1]).rfind("--", 0) != 0) kv[a] = argv[++i];
                else kv[a] = "1";
            }
        }
    }
    bool has(const std::string& k) const { return kv.count(k) != 0; }
    std::string str(const std::string& k, const std::string& d = "") const { auto it = kv.find(k); return it == kv.end() ? d : it->second; }
    long num(const std::string& k, long d) const { auto it = kv.find(k); return it == kv.end() ? d : strtol(it->second.c_str(), nullptr, 0); }
    double dbl(const std::string& k, double d) const { auto it = kv.find(k); return it == kv.end() ? d : strtod(it->second.c_str(), nullptr); }
};

// ------------------------------------------------------------------------------------------------ result
// One per process. Thread-safe for violation()/sample()/signature()/stat().
struct Result {
    std::mutex m;
    std::string harness, variant, mode;
    uint64_t seed = 0;
    std::atomic<long> scenarios{0}, nontrivial{0}, inconclusive{0};
    std::map<std::string, long long> stats;
    std::set<uint64_t> signatures;          // distinct non-trivial case/interleaving signatures
    size_t signature_cap = 300000;
    std::vector<std::string> samples;       // raw JSON values
    size_t sample_cap = 6;
    std::vector<std::string> violations;    // raw JSON objects
    size_t violation_cap = 40;
    long violations_total = 0;
    std::string out_path;
    double t0 = now_s();

    void stat(const std::string& k, long long d = 1) { std::lock_guard<std::mutex> l(m); stats[k] += d; }
    void stat_max(const std::string& k, long long v) { std::lock_guard<std::mutex> l(m); auto& r = stats[k]; if (v > r) r = v; }
    void signature(uint64_t h) { std::lock_guard<std::mutex> l(m); if (signatures.size() < signature_cap) signatures.insert(h); }
    bool want_sample() { std::lock_guard<std::mutex> l(m); return samples.size() < sample_cap; }
    void sample(const std::string& raw_json) { std::lock_guard<std::mutex> l(m); if (samples.size() < sample_cap) samples.push_back(raw_json); }
    // key: stable identifier of the violation kind (matched against known_findings.json by the driver);
    // detail: human readable; scenario_json: raw JSON object with everything needed to replay
    bool stacks_for_hangs = true;   // a violation whose key contains ".hang." gets gdb back-traces of all threads appended
    void violation(const std::string& key, const std::string& detail, const std::string& scenario_json = "{}");
    void write();            // writes the JSON result file (idempotent, last call wins)
    [[noreturn]] void finish_and_exit(int code = 0);  // write + _exit (safe when threads are wedged)
};
Result& result();

// ------------------------------------------------------------------------------------------------ hooks
constexpr int kMaxHookId = 256;
struct HookThread {                 // per-thread hook state, registered globally, never freed
    std::atomic<uint64_t> cnt[kMaxHookId];
    std::atomic<uint32_t> hist[kMaxHookId][8];
    std::atomic<const void*> sleeping_on{nullptr};  // monitor/semaphore the thread is blocked in (sleep registry)
    std::atomic<uint64_t> sleeps{0};
    int tid = 0;
    int ordinal = 0;
    struct Ev { uint64_t tsc; int id; const void* obj; long arg; };
    static constexpr int kRing = 128;
    Ev ring[kRing];
    std::atomic<unsigned> ring_pos{0};
    Rng rng{1};
};
HookThread& hook_thread();
std::vector<HookThread*> hook_threads_snapshot();
uint64_t hook_count(int id);                     // summed over threads
void hook_hist(int id, uint64_t out[8]);
void hooks_json(Json& j);                        // {"<id>":{"n":..,"h":[..]}} for ids with n>0
std::string rings_dump(size_t max_per_thread = 24);

enum PerturbMode { P_OFF = 0, P_UNIFORM = 1, P_FOCUS = 2, P_PCT = 3 };
struct Perturb {
    std::atomic<int> mode{P_OFF};
    std::atomic<bool> suspended{false};          // watchdog turns delays off while deciding
    std::atomic<uint32_t> prob[kMaxHookId];      // probability of a delay at this point, in 1/65536
    std::atomic<uint32_t> max_sleep_us{300};
    // pct: up to 8 (id, occurrence) pairs that get one long delay
    std::atomic<int> pct_id[8]; std::atomic<uint64_t> pct_occ[8]; std::atomic<uint64_t> pct_seen[kMaxHookId];
    std::atomic<uint64_t> delays{0};
    std::atomic<long> budget{1L << 40};             // delays left in the current scenario (perturb_random refills it)
    void clear() { for (auto& p : prob) p.store(0, std::memory_order_relaxed); for (auto& p : pct_id) p.store(-1, std::memory_order_relaxed); mode.store(P_OFF); }
    void uniform(uint32_t p) { clear(); for (auto& q : prob) q.store(p, std::memory_order_relaxed); mode.store(P_UNIFORM); }
    void focus(const std::vector<int>& ids, uint32_t p_focus, uint32_t p_other = 0) {
        clear(); for (auto& q : prob) q.store(p_other, std::memory_order_relaxed);
        for (int id : ids) if (id >= 0 && id < kMaxHookId) prob[id].store(p_focus, std::memory_order_relaxed);
        mode.store(P_FOCUS);
    }
    void pct(Rng& r, const std::vector<int>& ids, int d, uint64_t max_occ) {
        clear(); for (auto& s : pct_seen) s.store(0, std::memory_order_relaxed);
        for (int i = 0; i < d && i < 8 && !ids.empty(); i++) { pct_id[i].store(ids[r.below(ids.size())]); pct_occ[i].store(1 + r.below(max_occ)); }
        mode.store(P_PCT);
    }
};
Perturb& perturb();
// Pick a perturbation configuration for one scenario: mostly cheap, sometimes focussed on a few ids.
void perturb_random(Rng& r, const std::vector<int>& interesting_ids);

// report hooks: harness installs a checker
using ReportFn = void (*)(int id, const void* obj, const long* v, int n);
void set_report_handler(ReportFn f);
using PointFn = void (*)(int id, const void* obj, long arg);
void set_point_observer(PointFn f);              // optional, called before the delay decision

// ------------------------------------------------------------------------------------------------ watchdog
struct HangInfo {
    bool quiescent = false;      // every thread asleep without receiving a time slice: nobody can ever notify
    bool spin_stall = false;     // no progress although every runnable thread burnt >= cpu budget
    double stalled_for = 0;
    std::string threads;         // per-thread state/sleep-registry description
};
using HangFn = std::function<void(const HangInfo&)>;
struct WatchdogCfg {
    double no_progress_s = 3.0;        // suspicion threshold (not a verdict)
    double quiescent_window_s = 1.5;   // all threads asleep & unscheduled for this long => quiescent
    double spin_cpu_s = 10.0;          // per-thread CPU burnt without progress => spin stall
    double hard_limit_s = 150.0;       // neither => inconclusive; callback with both flags false
};
void progress();                       // harness: something completed
uint64_t progress_count();
void watchdog_start(const WatchdogCfg& cfg, HangFn on_hang);
void watchdog_pause(bool paused);      // e.g. during long single operations that are known to be slow
void watchdog_stop();
// true iff every listed OS thread of this process is in state S/D and was not scheduled between two samples taken gap_us apart (state,
// run time and time-slice count from /proc/self/task/<tid>/{stat,schedstat}): such a thread is blocked in the kernel and nobody has woken
// it. A logical fact that a loaded or slow machine cannot distort - use it instead of "nothing moved for a while" heuristics.
bool threads_asleep_stable(const std::vector<int>& tids, unsigned gap_us = 300);
void suspend_gate(const std::atomic<bool>* stop = nullptr);   // background helpers (keeper) block here, without timeouts, while the watchdog is deciding (or until *stop)
void gate_wake();                      // call after setting the stop flag of a helper that may be parked in suspend_gate()

// ------------------------------------------------------------------------------------------------ misc
std::string stacks_dump(int frames = 30, size_t max_bytes = 16000);   // gdb -batch back-traces of all threads of this process (witness for hang verdicts)
void set_crash_context(const std::string& what);   // printed on a fatal signal so that the driver can key the crash by scenario kind
void pin_process_to_cpus(int ncpus);   // restrict the whole process (call before threads are created)
int gettid_();
std::string hex64(uint64_t v);

// Standard command line handling: --seed --cases --mode --variant --out --cpus ; returns Args
Args standard_init(int argc, char** argv, const char* harness_name);

struct Barrier {                       // reusable spinning barrier that yields (works on 1 CPU)
    std::atomic<int> count{0}, gen{0}; int n;
    explicit Barrier(int n_) : n(n_) {}
    void wait() {
        int g = gen.load();
        if (count.fetch_add(1) + 1 == n) { count.store(0); gen.fetch_add(1); }
        else { int spins = 0; while (gen.load() == g) { if (++spins > 200) { sched_yield(); } else _mm_pause(); } }
    }
};

} // namespace vrt

// =================================================================================================
#ifdef VRT_IMPL
namespace vrt {

static std::atomic<uint64_t> g_seed{1};
static std::atomic<int> g_thread_ordinal{0};
void set_global_seed(uint64_t s) { g_seed.store(s); }
uint64_t global_seed() { return g_seed.load(); }
int gettid_() { return (int)syscall(SYS_gettid); }
std::string hex64(uint64_t v) { char b[20]; snprintf(b, 20, "%016llx", (unsigned long long)v); return b; }

static std::mutex g_ht_mutex;
static std::vector<HookThread*>& g_hts = *new std::vector<HookThread*>();   // never destroyed: threads outlive main(); stays reachable for LeakSanitizer
HookThread& hook_thread() {
    static thread_local HookThread* t = nullptr;
    if (!t) {
        HookThread* n = new HookThread();
        for (auto& c : n->cnt) c.store(0, std::memory_order_relaxed);
        for (auto& h : n->hist) for (auto& b : h) b.store(0, std::memory_order_relaxed);
        n->tid = gettid_();
        n->ordinal = g_thread_ordinal.fetch_add(1);
        n->rng = Rng(mix(g_seed.load(), 0x1000 + n->ordinal));
        {
            std::lock_guard<std::mutex> l(g_ht_mutex);
            g_hts.push_back(n);
        }
        t = n;
    }
    return *t;
}
Rng& trng() { return hook_thread().rng; }
std::vector<HookThread*> hook_threads_snapshot() { std::lock_guard<std::mutex> l(g_ht_mutex); return g_hts; }
uint64_t hook_count(int id) { uint64_t s = 0; for (auto* t : hook_threads_snapshot()) s += t->cnt[id].load(std::memory_order_relaxed); return s; }
void hook_hist(int id, uint64_t out[8]) { for (int i = 0; i < 8; i++) out[i] = 0; for (auto* t : hook_threads_snapshot()) for (int i = 0; i < 8; i++) out[i] += t->hist[id][i].load(std::memory_order_relaxed); }
void hooks_json(Json& j) {
    j.obj();
    for (int id = 0; id < kMaxHookId; id++) {
        uint64_t n = hook_count(id); if (!n) continue;
        uint64_t h[8]; hook_hist(id, h);
        j.key(std::to_string(id)).obj(); j.kv("n", (unsigned long long)n); j.key("h").arr(); for (int i = 0; i < 8; i++) j.val((unsigned long long)h[i]); j.end_arr(); j.end_obj();
    }
    j.end_obj();
}
std::string rings_dump(size_t max_per_thread) {
    std::ostringstream o;
    if (VRT_TSAN) return "(hook rings are not dumped in the tsan variant: reading other threads' rings would itself be reported)";
    size_t shown = 0;
    for (auto* t : hook_threads_snapshot()) {
        unsigned pos = t->ring_pos.load(std::memory_order_relaxed);
        if (!pos) continue;
        if (++shown > 8) { o << "...\n"; break; }
        o << "thread " << t->tid << " (sleeping_on=" << t->sleeping_on.load() << "):";
        size_t n = std::min<size_t>(std::min<size_t>(pos, HookThread::kRing), max_per_thread);
        for (size_t k = 0; k < n; k++) {
            const auto& e = t->ring[(pos - n + k) % HookThread::kRing];
            o << " [" << e.id << " " << e.obj << " " << e.arg << "]";
        }
        o << "\n";
    }
    return o.str();
}

static Perturb g_perturb;
Perturb& perturb() { return g_perturb; }
static std::atomic<ReportFn> g_report{nullptr};
static std::atomic<PointFn> g_observer{nullptr};
void set_report_handler(ReportFn f) { g_report.store(f); }
void set_point_observer(PointFn f) { g_observer.store(f); }

static void do_delay(HookThread& t, bool longer) {
    if (g_perturb.budget.fetch_sub(1, std::memory_order_relaxed) <= 0) return;
    g_perturb.delays.fetch_add(1, std::memory_order_relaxed);
    uint32_t r = t.rng.u32();
    if (longer) { sleep_us(500 + r % 3000); return; }
    unsigned k = r % 100;
    if (k < 55) spin_iters(20 + (r >> 8) % 4000);
    else if (k < 80) sched_yield();
    else { uint32_t mx = g_perturb.max_sleep_us.load(std::memory_order_relaxed); sleep_us(5 + (r >> 8) % (mx ? mx : 1)); }
}
void perturb_random(Rng& r, const std::vector<int>& ids) {
    g_perturb.budget.store(2500, std::memory_order_relaxed);   // a scenario that passes a hook millions of times must not crawl
    unsigned k = (unsigned)r.below(100);
    if (k < 15) { g_perturb.clear(); }
    else if (k < 45) { g_perturb.uniform(200 + (uint32_t)r.below(3000)); }             // 0.3% .. 5%
    else if (k < 85 && !ids.empty()) {
        std::vector<int> f; int n = 1 + (int)r.below(3); for (int i = 0; i < n; i++) f.push_back(ids[r.below(ids.size())]);
        g_perturb.focus(f, 8000 + (uint32_t)r.below(40000), (uint32_t)r.below(600));
    } else if (!ids.empty()) { g_perturb.pct(r, ids, 1 + (int)r.below(3), 1 + r.below(40)); }
    else g_perturb.uniform(1000);
}

} // namespace vrt

extern "C" __attribute__((visibility("default"))) void onetbb_verif_point(int id, const void* obj, long arg) {
    using namespace vrt;
    if ((unsigned)id >= (unsigned)kMaxHookId) return;
    HookThread& t = hook_thread();
    t.cnt[id].store(t.cnt[id].load(std::memory_order_relaxed) + 1, std::memory_order_relaxed);
    unsigned b = arg < 0 ? 7u : (arg > 6 ? 6u : (unsigned)arg);
    t.hist[id][b].store(t.hist[id][b].load(std::memory_order_relaxed) + 1, std::memory_order_relaxed);
    unsigned p = t.ring_pos.load(std::memory_order_relaxed);
    t.ring[p % HookThread::kRing] = HookThread::Ev{ __rdtsc(), id, obj, arg };
    t.ring_pos.store(p + 1, std::memory_order_relaxed);
    if (id == 56 /*vp_sleep_enter*/) { t.sleeping_on.store(obj, std::memory_order_relaxed); t.sleeps.store(t.sleeps.load(std::memory_order_relaxed) + 1, std::memory_order_relaxed); return; }
    if (id == 57 /*vp_sleep_leave*/) { t.sleeping_on.store(nullptr, std::memory_order_relaxed); return; }
    if (PointFn f = g_observer.load(std::memory_order_relaxed)) f(id, obj, arg);
    int mode = g_perturb.mode.load(std::memory_order_relaxed);
    if (mode == P_OFF || g_perturb.suspended.load(std::memory_order_relaxed)) return;
    if (mode == P_PCT) {
        uint64_t seen = g_perturb.pct_seen[id].fetch_add(1, std::memory_order_relaxed) + 1;
        for (int i = 0; i < 8; i++) if (g_perturb.pct_id[i].load(std::memory_order_relaxed) == id && g_perturb.pct_occ[i].load(std::memory_order_relaxed) == seen) { do_delay(t, true); return; }
        return;
    }
    uint32_t pr = g_perturb.prob[id].load(std::memory_order_relaxed);
    if (pr && (t.rng.u32() & 0xffff) < pr) do_delay(t, false);
}
extern "C" __attribute__((visibility("default"))) void onetbb_verif_report(int id, const void* obj, const long* v, int n) {
    using namespace vrt;
    if ((unsigned)id < (unsigned)kMaxHookId) { HookThread& t = hook_thread(); t.cnt[id].store(t.cnt[id].load(std::memory_order_relaxed) + 1, std::memory_order_relaxed); }
    if (ReportFn f = g_report.load(std::memory_order_relaxed)) f(id, obj, v, n);
}

namespace vrt {

// ---------------------------------------------------------------------------------------------- result
static Result g_result;
Result& result() { return g_result; }
void Result::violation(const std::string& key, const std::string& detail, const std::string& scenario_json) {
    std::lock_guard<std::mutex> l(m);
    violations_total++;
    if (violations.size() >= violation_cap) return;
    std::string det = detail;
    if (key.find(".hang.") != std::string::npos && stacks_for_hangs) det += "\nstacks:\n" + stacks_dump();
    Json j; j.obj(); j.kv("key", key); j.kv("detail", det); j.key("scenario").raw(scenario_json.empty() ? "{}" : scenario_json); j.end_obj();
    violations.push_back(j.s);
    fprintf(stderr, "[vrt] violation key=%s %s\n", key.c_str(), detail.c_str());
}
void Result::write() {
    std::lock_guard<std::mutex> l(m);
    Json j; j.obj();
    j.kv("harness", harness); j.kv("variant", variant); j.kv("mode", mode); j.kv("seed", (unsigned long long)seed);
    j.kv("scenarios", (long long)scenarios.load()); j.kv("nontrivial", (long long)nontrivial.load()); j.kv("inconclusive", (long long)inconclusive.load());
    j.kv("wall_s", now_s() - t0); j.kv("perturb_delays", (unsigned long long)perturb().delays.load());
    j.key("stats").obj(); for (auto& kv : stats) j.kv(kv.first, (long long)kv.second); j.end_obj();
    j.key("hooks"); hooks_json(j);
    j.key("signatures").arr(); for (auto h : signatures) j.val(hex64(h)); j.end_arr();
    j.key("samples").arr(); for (auto& s2 : samples) j.raw(s2); j.end_arr();
    j.kv("violations_total", (long long)violations_total);
    j.key("violations").arr(); for (auto& v : violations) j.raw(v); j.end_arr();
    j.end_obj();
    if (out_path.empty()) { fwrite(j.s.data(), 1, j.s.size(), stdout); fputc('\n', stdout); fflush(stdout); return; }
    std::string tmp = out_path + ".tmp";
    FILE* f = fopen(tmp.c_str(), "w");
    if (!f) { perror("vrt: open result"); return; }
    fwrite(j.s.data(), 1, j.s.size(), f); fputc('\n', f); fclose(f);
    rename(tmp.c_str(), out_path.c_str());
}
#if VRT_ASAN
extern "C" int __lsan_do_recoverable_leak_check();
#endif
void Result::finish_and_exit(int code) {
    write(); fflush(stderr);
#if VRT_ASAN
    if (code == 0) __lsan_do_recoverable_leak_check();   // _exit skips the at-exit leak check
#endif
    _exit(code);
}

// ---------------------------------------------------------------------------------------------- watchdog
static std::atomic<uint64_t> g_progress{0};
void progress() { g_progress.fetch_add(1, std::memory_order_relaxed); }
uint64_t progress_count() { return g_progress.load(std::memory_order_relaxed); }
static std::atomic<bool> g_wd_stop{false}, g_wd_paused{false};
static std::mutex g_gate_m; static std::condition_variable g_gate_cv;
void suspend_gate(const std::atomic<bool>* stop) { if (!g_perturb.suspended.load(std::memory_order_relaxed)) return; std::unique_lock<std::mutex> l(g_gate_m); g_gate_cv.wait(l, [stop] { return !g_perturb.suspended.load() || (stop && stop->load()); }); }
void gate_wake() { { std::lock_guard<std::mutex> l(g_gate_m); } g_gate_cv.notify_all(); }
static std::thread* g_wd_thread = nullptr;

struct TaskSample { int tid; char state; uint64_t run_ns; uint64_t slices; };
static std::vector<TaskSample> sample_tasks() {
    std::vector<TaskSample> v;
    DIR* d = opendir("/proc/self/task"); if (!d) return v;
    while (dirent* e = readdir(d)) {
        if (e->d_name[0] == '.') continue;
        TaskSample s{ atoi(e->d_name), '?', 0, 0 };
        char path[96], buf[512];
        snprintf(path, sizeof path, "/proc/self/task/%d/stat", s.tid);
        if (FILE* f = fopen(path, "r")) {
            size_t n = fread(buf, 1, sizeof buf - 1, f); fclose(f); buf[n] = 0;
            if (char* rp = strrchr(buf, ')')) if (rp[1] == ' ') s.state = rp[2];
        }
        snprintf(path, sizeof path, "/proc/self/task/%d/schedstat", s.tid);
        if (FILE* f = fopen(path, "r")) {
            unsigned long long a = 0, b = 0, c = 0; if (fscanf(f, "%llu %llu %llu", &a, &b, &c) >= 3) { s.run_ns = a; s.slices = c; } fclose(f);
        }
        v.push_back(s);
    }
    closedir(d);
    return v;
}
static bool sample_one(int tid, TaskSample& s) {
    s = TaskSample{ tid, '?', 0, 0 };
    char path[96], buf[512];
    snprintf(path, sizeof path, "/proc/self/task/%d/stat", tid);
    FILE* f = fopen(path, "r"); if (!f) return false;
    size_t n = fread(buf, 1, sizeof buf - 1, f); fclose(f); buf[n] = 0;
    if (char* rp = strrchr(buf, ')')) if (rp[1] == ' ') s.state = rp[2];
    snprintf(path, sizeof path, "/proc/self/task/%d/schedstat", tid);
    if (FILE* g = fopen(path, "r")) { unsigned long long a = 0, b = 0, c = 0; if (fscanf(g, "%llu %llu %llu", &a, &b, &c) >= 3) { s.run_ns = a; s.slices = c; } fclose(g); }
    return s.state != '?';
}
bool threads_asleep_stable(const std::vector<int>& tids, unsigned gap_us) {
    std::vector<TaskSample> a(tids.size()), b(tids.size());
    for (size_t i = 0; i < tids.size(); i++) if (!sample_one(tids[i], a[i]) || !(a[i].state == 'S' || a[i].state == 'D')) return false;
    sleep_us(gap_us);
    for (size_t i = 0; i < tids.size(); i++) if (!sample_one(tids[i], b[i]) || !(b[i].state == 'S' || b[i].state == 'D') || b[i].run_ns != a[i].run_ns || b[i].slices != a[i].slices) return false;
    return true;
}
static std::string describe_threads(const std::vector<TaskSample>& ts) {
    std::ostringstream o;
    auto hts = hook_threads_snapshot();
    for (auto& s : ts) {
        o << s.tid << ":" << s.state;
        for (auto* h : hts) if (h->tid == s.tid) { if (const void* so = h->sleeping_on.load()) o << "(tbb-sleep@" << so << ")"; }
        o << " ";
    }
    return o.str();
}
void watchdog_pause(bool p) { g_wd_paused.store(p); }
void watchdog_stop() { g_wd_stop.store(true); { std::lock_guard<std::mutex> l(g_gate_m); g_perturb.suspended.store(false); } g_gate_cv.notify_all(); if (g_wd_thread) { g_wd_thread->join(); delete g_wd_thread; g_wd_thread = nullptr; } }
static double mem_available_fraction() {
    FILE* f = fopen("/proc/meminfo", "r"); if (!f) return 1.0;
    char line[256]; double total = 0, avail = -1;
    while (fgets(line, sizeof line, f)) { unsigned long long v; if (sscanf(line, "MemTotal: %llu", &v) == 1) total = (double)v; else if (sscanf(line, "MemAvailable: %llu", &v) == 1) avail = (double)v; }
    fclose(f);
    return total > 0 && avail >= 0 ? avail / total : 1.0;
}
void watchdog_start(const WatchdogCfg& cfg, HangFn on_hang_user) {
    g_wd_stop.store(false);
    // debugging aid: VRT_HOLD_ON_HANG=1 keeps a process that reached a hang verdict alive (for gdb -p) instead of reporting and exiting
    HangFn on_hang = [on_hang_user](const HangInfo& hi) {
        if (getenv("VRT_HOLD_ON_HANG") && (hi.quiescent || hi.spin_stall)) { fprintf(stderr, "[vrt] HOLD pid %d: %s\n", (int)getpid(), hi.quiescent ? "quiescent" : "spin-stall"); fflush(stderr); for (;;) sleep(1000); }
#if VRT_TSAN
        // the callback describes the state the wedged threads left behind (their records, plans): reading it is deliberate and never ends in a
        // happens-before edge with them - tell the race detector not to report the witness collection itself
        AnnotateIgnoreReadsBegin(__FILE__, __LINE__);
#endif
        on_hang_user(hi);
#if VRT_TSAN
        AnnotateIgnoreReadsEnd(__FILE__, __LINE__);
#endif
    };
    g_wd_thread = new std::thread([cfg, on_hang] {
        int self = gettid_();
        uint64_t last = g_progress.load(); double last_t = now_s();
        std::map<int, TaskSample> base;     // samples at the time progress was last seen
        bool have_base = false;
        std::map<int, TaskSample> prev; double quiet_since = -1; bool mem_low_seen = false;
        while (!g_wd_stop.load()) {
            sleep_us(100000);
            uint64_t p = g_progress.load(); double t = now_s();
            if (p != last || g_wd_paused.load()) {
                last = p; last_t = t; have_base = false; quiet_since = -1; prev.clear(); mem_low_seen = false;
                if (g_perturb.suspended.load()) { { std::lock_guard<std::mutex> l(g_gate_m); g_perturb.suspended.store(false); } g_gate_cv.notify_all(); }
                continue;
            }
            if (t - last_t < cfg.no_progress_s) continue;
            if (mem_available_fraction() < 0.06) mem_low_seen = true;
            // suspicion: stop perturbing and look at the threads
            g_perturb.suspended.store(true);
            auto ts = sample_tasks();
            if (!have_base) { base.clear(); for (auto& s : ts) base[s.tid] = s; have_base = true; }
            bool all_asleep = true;
            for (auto& s : ts) {
                if (s.tid == self || s.state == '?') continue;     // '?': the thread exited while we were sampling
                auto it = prev.find(s.tid);
                bool unscheduled = it != prev.end() && it->second.slices == s.slices && it->second.run_ns == s.run_ns;
                if (!((s.state == 'S' || s.state == 'D') && unscheduled)) all_asleep = false;
            }
            prev.clear(); for (auto& s : ts) prev[s.tid] = s;
            if (all_asleep) { if (quiet_since < 0) quiet_since = t; } else quiet_since = -1;
            HangInfo hi; hi.stalled_for = t - last_t;
            if (quiet_since >= 0 && t - quiet_since >= cfg.quiescent_window_s) {
                if (g_progress.load() != last) continue;
                hi.quiescent = true; hi.threads = describe_threads(ts); on_hang(hi); return;
            }
            // spin stall: every thread that is not asleep burnt >= spin_cpu_s of CPU since progress stopped,
            // and at least one such thread exists
            bool any_running = false, all_burnt = true;
            for (auto& s : ts) {
                if (s.tid == self || s.state == '?') continue;
                auto b = base.find(s.tid); uint64_t b_ns = b == base.end() ? s.run_ns : b->second.run_ns;   // a thread born after the stall began has burnt nothing yet
                double burnt = s.run_ns > b_ns ? (s.run_ns - b_ns) * 1e-9 : 0.0;
                bool asleep = (s.state == 'S' || s.state == 'D') && burnt < 0.05;
                if (!asleep) { any_running = true; if (burnt < cfg.spin_cpu_s) all_burnt = false; }
            }
            if (any_running && all_burnt && t - last_t >= cfg.spin_cpu_s) {
                if (g_progress.load() != last) continue;
                // CPU burnt while the machine was out of memory (kernel reclaim, OOM killer at work) proves nothing about this process:
                // no verdict, the driver re-runs the job once (seen once: a "spin-stall" beside six 8 GB sanitizer processes, one of which the
                // OOM killer ended; the same process replayed twice completed)
                if (mem_low_seen) { hi.threads = describe_threads(ts) + " [memory exhausted during the stall: inconclusive]"; on_hang(hi); return; }
                hi.spin_stall = true; hi.threads = describe_threads(ts); on_hang(hi); return;
            }
            if (t - last_t > cfg.hard_limit_s) { hi.threads = describe_threads(ts); on_hang(hi); return; }
        }
    });
}

std::string stacks_dump(int frames, size_t max_bytes) {
    if (VRT_TSAN) return "(no gdb stacks in the tsan variant)";
    char cmd[600];
    std::string script = __FILE__; { size_t sl = script.rfind('/'); script = (sl == std::string::npos ? std::string(".") : script.substr(0, sl)) + "/gdb_arena.py"; }
    // gdb stops every thread of this process, also this one: its output must go to a file, not to a pipe this thread would have to drain
    // (with more than a pipe buffer of back-traces gdb blocked in write() for ever, the process stayed stopped and the job ran into the
    // driver's time limit)
    char tmpn[96]; snprintf(tmpn, sizeof tmpn, "/tmp/vrt-gdb-%d-%d.txt", (int)getpid(), gettid_());
    snprintf(cmd, sizeof cmd, "timeout -k 5 90 gdb -p %d -batch -nx -ex 'set print frame-arguments none' -ex 'thread apply all bt %d' -ex 'source %s' > %s 2>/dev/null < /dev/null", (int)getpid(), frames, script.c_str(), tmpn);
    int src = system(cmd); (void)src;
    FILE* f = fopen(tmpn, "r"); if (!f) return "(gdb not available)";
    unlink(tmpn);
    // one block of frames per thread; threads with identical back-traces are grouped, rare traces first
    std::vector<std::pair<std::string, std::string>> blocks;   // (thread header, frames)
    std::string line, arenas; char buf[1024]; bool in_arenas = false;
    while (fgets(buf, sizeof buf, f)) {
        line = buf;
        if (line.compare(0, 16, "ARENA-DUMP-BEGIN") == 0) { in_arenas = true; continue; }
        if (line.compare(0, 14, "ARENA-DUMP-END") == 0) { in_arenas = false; continue; }
        if (in_arenas) { if (arenas.size() < 6000) arenas += (line.size() > 400 ? line.substr(0, 400) + "\n" : line); continue; }
        if (line.compare(0, 7, "Thread ") == 0) { size_t l = line.find("(LWP "); std::string h = l == std::string::npos ? line : line.substr(l + 1, line.find(')', l) - l - 1); blocks.push_back({ h, "" }); }
        else if (line[0] == '#' && !blocks.empty()) {
            size_t in = line.find(" in "); if (in != std::string::npos && in < 24) line = line.substr(0, line.find(' ')) + " " + line.substr(in + 4);
            if (line.size() > 200) line = line.substr(0, 200) + "\n";
            blocks.back().second += "  " + line;
        }
    }
    fclose(f);
    std::map<std::string, std::vector<std::string>> groups;
    for (auto& b2 : blocks) groups[b2.second].push_back(b2.first);
    std::vector<std::pair<size_t, std::string>> order;
    for (auto& g : groups) order.push_back({ g.second.size(), g.first });
    std::sort(order.begin(), order.end());
    std::string out;
    for (auto& o : order) {
        auto& ths = groups[o.second];
        out += std::to_string(ths.size()) + " thread(s) [";
        for (size_t i = 0; i < ths.size() && i < 6; i++) out += (i ? ", " : "") + ths[i];
        if (ths.size() > 6) out += ", ...";
        out += "]:\n" + o.second;
        if (out.size() > max_bytes) { out = out.substr(0, max_bytes) + "..."; break; }
    }
    if (!arenas.empty()) out += "scheduler state of the arenas reachable from these frames (vrt/gdb_arena.py):\n" + arenas;
    return out.empty() ? "(gdb produced no back-trace)" : out;
}

void pin_process_to_cpus(int ncpus) {
    if (ncpus <= 0) return;
    cpu_set_t cur; CPU_ZERO(&cur);
    if (sched_getaffinity(0, sizeof cur, &cur) != 0) return;
    cpu_set_t set; CPU_ZERO(&set); int n = 0;
    // pick CPUs starting at an offset derived from the pid so concurrent processes spread out
    std::vector<int> avail; for (int c = 0; c < CPU_SETSIZE; c++) if (CPU_ISSET(c, &cur)) avail.push_back(c);
    if (avail.empty()) return;
    size_t off = (size_t)getpid() % avail.size();
    for (size_t i = 0; i < avail.size() && n < ncpus; i++) { CPU_SET(avail[(off + i) % avail.size()], &set); n++; }
    sched_setaffinity(0, sizeof set, &set);
}

static char g_crash_ctx[2][200]; static std::atomic<int> g_crash_idx{0};
void set_crash_context(const std::string& what) {
    int i = 1 - g_crash_idx.load(std::memory_order_relaxed);
    size_t n = std::min(what.size(), sizeof(g_crash_ctx[0]) - 1); memcpy(g_crash_ctx[i], what.data(), n); g_crash_ctx[i][n] = 0;
    g_crash_idx.store(i, std::memory_order_release);
}
static void crash_handler(int sig) {
    const char* c = g_crash_ctx[g_crash_idx.load(std::memory_order_acquire)];
    if (c[0]) { const char* p = "\n[vrt-crash-context] "; if (write(2, p, strlen(p)) < 0) {} if (write(2, c, strlen(c)) < 0) {} if (write(2, "\n", 1) < 0) {} }
    signal(sig, SIG_DFL); raise(sig);
}
// The driver passes the directories of the libtbb / libtbbmalloc this executable was linked against (VRT_EXPECT_LIBDIRS). If such a
// directory has been removed meanwhile the dynamic loader silently falls back to the system's library in /usr/lib - a different oneTBB.
// A harness that finds itself running with a libtbb*.so from anywhere else refuses to produce a verdict (exit 2 = harness failure).
static void check_loaded_libraries() {
    const char* exp = getenv("VRT_EXPECT_LIBDIRS"); if (!exp || !*exp) return;
    std::vector<std::string> dirs; { std::string e = exp; size_t p0 = 0; while (p0 <= e.size()) { size_t c = e.find(':', p0); if (c == std::string::npos) c = e.size(); if (c > p0) dirs.push_back(e.substr(p0, c - p0)); p0 = c + 1; } }
    FILE* f = fopen("/proc/self/maps", "r"); if (!f) return;
    char line[1024]; std::string bad;
    while (fgets(line, sizeof line, f)) {
        const char* sl = strchr(line, '/'); if (!sl) continue;
        std::string path = sl; while (!path.empty() && (path.back() == '\n' || path.back() == ' ')) path.pop_back();
        size_t b = path.rfind('/'); std::string base = path.substr(b + 1);
        if (base.compare(0, 9, "libtbb.so") != 0 && base.compare(0, 15, "libtbbmalloc.so") != 0) continue;
        bool ok = false; for (auto& d : dirs) if (path.compare(0, d.size() + 1, d + "/") == 0) ok = true;
        if (!ok && bad.find(path) == std::string::npos) bad += (bad.empty() ? "" : ", ") + path;
    }
    fclose(f);
    if (!bad.empty()) { fprintf(stderr, "[vrt] wrong library loaded: %s (expected one from %s): no verdict from this process\n", bad.c_str(), exp); _exit(2); }
}

Args standard_init(int argc, char** argv, const char* harness_name) {
    Args a; a.parse(argc, argv);
    check_loaded_libraries();
    signal(SIGABRT, crash_handler);
#if !VRT_ASAN && !VRT_TSAN
    signal(SIGSEGV, crash_handler); signal(SIGBUS, crash_handler);
#endif
    Result& r = result();
    r.harness = harness_name;
    r.seed = (uint64_t)a.num("seed", 1);
    r.mode = a.str("mode", "default");
    r.variant = a.str("variant",
#if VRT_TSAN
        "tsan"
#elif VRT_ASAN
        "asan"
#elif defined(TBB_USE_ASSERT) && TBB_USE_ASSERT
        "dbg"
#else
        "rel"
#endif
    );
    r.out_path = a.str("out", "");
    set_global_seed(r.seed);
    int cpus = (int)a.num("cpus", 0);
    if (cpus > 0) pin_process_to_cpus(cpus);
    setvbuf(stdout, nullptr, _IOLBF, 0);
    return a;
}

} // namespace vrt
#endif // VRT_IMPL
