// History recording at the client boundary + Wing-Gong/Lowe linearizability search with memoisation.
// Model concept:
//   struct M { using State = ...; State init() const;
//              bool apply(State& s, const vrt::Op& op) const;   // is op (with its recorded result) legal in s? if so apply it
//              uint64_t hash(const State& s) const; };
// For an *open* op (op.open: the call never returned) apply() must accept any result and apply the op's effect.
#pragma once
#include "vrt.h"
#include <unordered_set>

namespace vrt {

struct Op {
    int thread = 0;
    int kind = 0;
    long arg = 0;
    long res = 0;         // harness-defined encoding of the result
    uint64_t call = 0;    // stamp taken before invoking
    uint64_t ret = 0;     // stamp taken after the reply; ~0 for open operations
    bool open = false;
};

// One global clock per process. seq_cst increments; call() before invoking, ret() after the reply.
struct HistoryClock {
    std::atomic<uint64_t> c{1};
    uint64_t tick() { return c.fetch_add(1); }
};

struct ThreadLog {            // one per thread, merged after join
    std::vector<Op> ops;
    int thread;
    explicit ThreadLog(int t = 0) : thread(t) { ops.reserve(64); }
    size_t begin(HistoryClock& clk, int kind, long arg) { Op o; o.thread = thread; o.kind = kind; o.arg = arg; o.call = clk.tick(); o.ret = ~0ull; o.open = true; ops.push_back(o); return ops.size() - 1; }
    void end(HistoryClock& clk, size_t i, long res) { ops[i].res = res; ops[i].ret = clk.tick(); ops[i].open = false; }
};

enum class Lin { OK, VIOLATION, BUDGET };

template <class Model>
Lin check_linearizable(const Model& m, std::vector<Op> ops, uint64_t budget, std::vector<int>* order_out = nullptr, uint64_t* steps_out = nullptr) {
    const int n = (int)ops.size();
    if (n == 0) return Lin::OK;
    if (n > 62) return Lin::BUDGET;
    std::sort(ops.begin(), ops.end(), [](const Op& a, const Op& b) { return a.call < b.call; });
    uint64_t completed_mask = 0;
    for (int i = 0; i < n; i++) if (!ops[i].open) completed_mask |= 1ull << i;
    struct Frame { typename Model::State st; uint64_t done; int next; };
    std::unordered_set<uint64_t> memo;
    std::vector<Frame> stack;
    std::vector<int> order;
    stack.push_back(Frame{ m.init(), 0, 0 });
    uint64_t steps = 0;
    while (!stack.empty()) {
        Frame& f = stack.back();
        if ((f.done & completed_mask) == completed_mask) { if (order_out) *order_out = order; if (steps_out) *steps_out = steps; return Lin::OK; }
        // the earliest return among operations not yet linearised bounds which ops may go next
        uint64_t min_ret = ~0ull;
        for (int i = 0; i < n; i++) if (!(f.done >> i & 1) && ops[i].ret < min_ret) min_ret = ops[i].ret;
        bool pushed = false;
        for (int i = f.next; i < n; i++) {
            if (f.done >> i & 1) continue;
            if (ops[i].call > min_ret) break;          // sorted by call: nothing later can be minimal either
            if (++steps > budget) { if (steps_out) *steps_out = steps; return Lin::BUDGET; }
            typename Model::State s2 = f.st;
            if (!m.apply(s2, ops[i])) continue;
            uint64_t d2 = f.done | (1ull << i);
            uint64_t key = mix(d2, m.hash(s2));
            if (!memo.insert(key).second) continue;
            f.next = i + 1;
            order.push_back(i);
            stack.push_back(Frame{ std::move(s2), d2, 0 });
            pushed = true;
            break;
        }
        if (!pushed) { stack.pop_back(); if (!order.empty()) order.pop_back(); }
    }
    if (steps_out) *steps_out = steps;
    return Lin::VIOLATION;
}

// signature of a history's shape: the order of call/return events across threads (values ignored)
inline uint64_t history_signature(const std::vector<Op>& ops) {
    std::vector<std::pair<uint64_t, int>> ev;
    for (auto& o : ops) { ev.push_back({ o.call, o.thread * 4 + 1 }); if (!o.open) ev.push_back({ o.ret, o.thread * 4 + 2 }); }
    std::sort(ev.begin(), ev.end());
    uint64_t h = 0x1234; for (auto& e : ev) h = mix(h, (uint64_t)e.second);
    return h;
}
// number of pairs of operations of different threads that overlap in time
inline int overlapping_pairs(const std::vector<Op>& ops) {
    int c = 0;
    for (size_t i = 0; i < ops.size(); i++) for (size_t j = i + 1; j < ops.size(); j++)
        if (ops[i].thread != ops[j].thread && ops[i].call < ops[j].ret && ops[j].call < ops[i].ret) c++;
    return c;
}
inline std::string history_json(const std::vector<Op>& ops, const char* const* kind_names) {
    Json j; j.arr();
    for (auto& o : ops) { j.arr(); j.val(o.thread); j.val(kind_names ? kind_names[o.kind] : std::to_string(o.kind).c_str()); j.val(o.arg); j.val(o.open ? "open" : std::to_string(o.res).c_str()); j.val((unsigned long long)o.call); j.val(o.open ? 0ull : (unsigned long long)o.ret); j.end_arr(); }
    j.end_arr(); return j.s;
}

} // namespace vrt
