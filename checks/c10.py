from vlib import core
from vlib.plan import Phase, run_phases

RULE = ("scenario = fresh concurrent_hash_map<int,Val,HashCompare> (1-2 initial buckets, so the first insert enables the 256-bucket block "
        "with every new bucket flagged for lazy rehash, or pre-filled sequentially to 1-4 elements below the 255/511/1023/2047 growth threshold) "
        "+ 2-4 threads x 3-12 operations on 1-6 test keys whose hashes collide in the low bits (identity / constant / k<<8 / multiplicative / "
        "bit-reversed / adversarial parent-child tables): every insert and emplace form, find(accessor|const_accessor), count, erase(key), "
        "erase(accessor|const_accessor), accessors held for random times, plus lookups of static keys and inserts of per-thread unique keys; "
        "hook-driven delays in rehash_bucket, mask-race re-check, bucket upgrade, element-lock back-off, enable_segment, erase between unlink "
        "and element lock. Oracle: per-key Wing-Gong linearizability against an incarnation model (uid seen through accessors / destructor), "
        "closed by the quiescent traversal and count(); holder bookkeeping in the mapped value; static keys never missed; size()==traversal; "
        "constructions==destructions. non-trivial = at least two operations of different threads on the same test key overlapped in time; "
        "distinct = distinct (call/return interleaving, operation kinds, results) signatures of the per-key histories of such scenarios")

BUILDS = [dict(name="c10", variant=v) for v in ("rel", "dbg", "tsan", "asan")]


def run(tier, seed, scale):
    chk = core.Check("C10", tier, seed)
    chk.rule = RULE
    chk.assumptions = ["interleavings are sampled (perturbation and CPU pinning widen windows, nothing is enumerated)", "x86-TSO hardware only",
                       "growth thresholds exercised: 2->256, 256->512, 512->1024, 1024->2048, 2048->4096 buckets",
                       "a quarter of the rel/dbg scenarios and all tsan scenarios order operations by CLOCK_MONOTONIC with a 2 us margin instead of a global counter "
                       "(weaker real-time order, no fence between operations)",
                       "threads perform no other map operation while holding an accessor (the documented way to avoid deadlock)",
                       "equal_range, iteration, rehash(), clear(), swap() are not concurrency-safe and only used at quiescence",
                       "insert(const_accessor, key) with a default-constructed value is not driven (the incarnation id could not be written under a read lock)"]
    q = tier == "quick"
    phases = [
        Phase("rel-hot", "c10", "rel", 90000 if q else 900000, procs=6 if q else 10, min_nontrivial=20000 if q else 200000),
        Phase("rel-2cpu", "c10", "rel", 30000 if q else 300000, procs=2 if q else 4, cpus=2, min_nontrivial=2000),
        Phase("rel-1cpu", "c10", "rel", 30000 if q else 300000, procs=2 if q else 4, cpus=1, min_nontrivial=2000),
        Phase("dbg-hot", "c10", "dbg", 30000 if q else 300000, procs=3 if q else 6),
        Phase("tsan", "c10", "tsan", 4500 if q else 60000, procs=3 if q else 8, timeout=1500),
    ]
    if not q:
        phases.append(Phase("asan", "c10", "asan", 120000, procs=6, timeout=1500))
        phases.append(Phase("asan-1cpu", "c10", "asan", 40000, procs=2, cpus=1, timeout=1500))
        phases.append(Phase("dbg-1cpu", "c10", "dbg", 100000, procs=2, cpus=1))
        phases.append(Phase("rel-4threads-255", "c10", "rel", 150000, procs=3, args=["--threads", "4", "--threshold", "255"]))
        phases.append(Phase("rel-4threads-fresh", "c10", "rel", 300000, procs=3, args=["--threads", "4", "--threshold", "0"]))
    run_phases(chk, phases, seed, scale)
    h = chk.hooks
    n = lambda i: h.get(str(i), {}).get("n", 0)
    st = chk.stats
    # the windows this property is about must actually have been entered
    chk.require(n(140) > 20000, "rehash_bucket entered only %d times" % n(140))
    chk.require(n(141) > 300, "mask race (table grew between the mask load and the failed search) observed only %d times" % n(141))
    chk.require(n(143) > 5000, "element-lock contention (accessor conflict waited for) observed only %d times" % n(143))
    chk.require(n(144) > 5000, "segment enabled only %d times" % n(144))
    chk.require(n(145) > 5000, "erase(accessor) unlink window entered only %d times" % n(145))
    chk.require(st.get("ops_overlapping_growth", 0) > 5000, "only %d operations overlapped a growth of the table" % st.get("ops_overlapping_growth", 0))
    chk.require(st.get("overlapping_pairs_same_key", 0) > 100000, "only %d overlapping same-key operation pairs" % st.get("overlapping_pairs_same_key", 0))
    if not q:
        chk.require(n(142) > 20, "contended bucket upgrade inside rehash_bucket observed only %d times" % n(142))
    h143 = h.get("143", {}).get("h", [0] * 8)
    chk.extra["windows"] = {
        "rehash_bucket_calls": n(140),
        "mask_race_rechecks": n(141),
        "rehash_parent_upgrade_retries": n(142),
        "element_lock_contended": h143[1],
        "element_lock_backoff_restarts": h143[0],
        "segments_enabled": n(144),
        "erase_by_accessor_unlinked": n(145),
        "spin_rw_mutex_upgrade_or_writer_pending_steps": n(124),
        "operations_overlapping_a_growth": st.get("ops_overlapping_growth", 0),
        "scenarios_grown_during_history": st.get("scenarios_grown_during_history", 0),
        "overlapping_same_key_pairs": st.get("overlapping_pairs_same_key", 0),
        "key_histories_checked": st.get("key_histories_checked", 0),
        "operations": st.get("ops", 0),
        "scenarios_by_growth_threshold": {k[len("threshold_"):]: v for k, v in st.items() if k.startswith("threshold_")},
        "scenarios_by_hash": {k[len("hash_"):]: v for k, v in st.items() if k.startswith("hash_")},
        "scenarios_with_ns_clock": st.get("scenarios_ns_clock", 0),
    }
    return chk.finish()
