from vlib import core
from vlib.plan import Phase, run_phases

BUILDS = [dict(name="c20", variant=v) for v in ("rel", "dbg", "tsan")]
RULE = ("scenario = 1-6 tasks of a task_group (or parallel_for) in an arena of 1-16 slots, each suspending 1-3 times at outermost or nested "
        "dispatch levels; resume is issued synchronously in the suspend callback, by a foreign thread released at that moment with a 0-600 "
        "iteration skew (lands inside the stack switch), by a foreign thread after 50-1500 us, by a task enqueued into the arena, or by a foreign "
        "thread only after a sibling task spawned just before suspending has run (proves the suspending thread kept working; decisive in "
        "1-slot arenas). Per suspend point: continued exactly once, only after resume was called, never on two threads at once, callback ran "
        "once; the enclosing wait returned only after all tasks finished; hangs decided by quiescence/spin-stall with the predicates "
        "resumed-not-continued / other-work-not-run. non-trivial = >=2 suspend points or a continuation on another thread; distinct = "
        "(arena size, per-point mode, migrated?) signatures")


def run(tier, seed, scale):
    chk = core.Check("C20", tier, seed)
    chk.rule = RULE
    chk.assumptions = ["rel/dbg exercise the ucontext coroutine implementation; the tsan/asan variants make oneTBB use its thread-based co_context, so they check that variant",
                       "interleavings of the stack switch with a concurrent resume are sampled (hooks 80-82 report how often the early-resume path was taken)"]
    q = tier == "quick"
    phases = [
        Phase("rel", "c20", "rel", 40000 if q else 600000, procs=8 if q else 12, min_nontrivial=10000),
        Phase("rel-1cpu", "c20", "rel", 4000 if q else 60000, procs=2 if q else 4, cpus=1),
        Phase("rel-2cpu", "c20", "rel", 6000 if q else 90000, procs=2 if q else 4, cpus=2),
        Phase("dbg", "c20", "dbg", 12000 if q else 200000, procs=3 if q else 6),
        Phase("tsan", "c20", "tsan", 1500 if q else 30000, procs=3 if q else 8, timeout=1500),
    ]
    # suspension at the outermost level of an application thread (directly in its execute() functor): the owner is recalled to its stack
    phases.append(Phase("rel-outer", "c20", "rel", 6000 if q else 80000, procs=3 if q else 6, args=["--mode", "outer"]))
    phases.append(Phase("dbg-outer", "c20", "dbg", 1500 if q else 20000, procs=1 if q else 2, args=["--mode", "outer"]))
    phases.append(Phase("tsan-outer", "c20", "tsan", 600 if q else 8000, procs=2 if q else 4, args=["--mode", "outer"], timeout=1500))
    # (at most ~1000 cases per process: with the thread-based coroutines of sanitizer builds the process grows by ~2 MB per case under ASan -
    # 5000 cases per process made six of them 8 GB each and the kernel's OOM killer ended one)
    phases.append(Phase("asan", "c20", "asan", 1500 if q else 9000, procs=2 if q else 9, timeout=1500))      # address+undefined: thread-based coroutines, creation/destruction of used coroutines
    run_phases(chk, phases, seed, scale)
    s = chk.stats
    early, normal = s.get("resume_arrived_before_suspension_finished(early)", 0), s.get("resume_found_suspended(normal)", 0)
    chk.require(early > 2000 and normal > 2000, "both resume paths must be exercised (early=%d normal=%d)" % (early, normal))
    chk.require(s.get("outer_suspensions", 0) > (5000 if q else 60000) * min(1.0, scale) and s.get("outer_owner_busy_with_an_enqueued_task_when_resumed", 0) > (2000 if q else 25000) * min(1.0, scale),
                "outermost-level suspensions: %d (owner busy when resumed: %d)" % (s.get("outer_suspensions", 0), s.get("outer_owner_busy_with_an_enqueued_task_when_resumed", 0)))
    chk.require(s.get("points.foreign-after-second-task-ran", 0) > 500, "too few 'other work while suspended' points")
    chk.require(s.get("scenarios_waiting_inside_isolate_in_a_one_slot_arena", 0) > 1000, "only %d scenarios waited inside isolate in a one-slot arena" % s.get("scenarios_waiting_inside_isolate_in_a_one_slot_arena", 0))
    chk.extra["scenarios_waiting_inside_isolate[all,one-slot arena]"] = [s.get("scenarios_waiting_inside_isolate", 0), s.get("scenarios_waiting_inside_isolate_in_a_one_slot_arena", 0)]
    chk.extra["paths"] = {"early_resume(finalize found 'notified')": early, "normal_resume(found 'suspended')": normal,
                          "continued_on_another_thread": s.get("continued_on_another_thread", 0), "suspend_points": s.get("suspend_points", 0),
                          "by_mode": {k[7:]: v for k, v in s.items() if k.startswith("points.")}}
    return chk.finish()
