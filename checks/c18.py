from vlib import core
from vlib.plan import Phase, run_phases

RULE = ("every case is a process of its own, forked from a parent that never called the allocator (pristine libtbbmalloc, identical address-space layout), with mmap/munmap/mremap of "
        "libtbbmalloc interposed by the harness executable (refusal = MAP_FAILED/ENOMEM exactly as the kernel reports it). "
        "Class E: deterministic single-threaded traces over scalable_malloc/calloc/realloc/aligned_malloc/aligned_realloc/posix_memalign/free/msize/allocation_command, "
        "scalable_allocator<T>::allocate and scalable_memory_resource (shapes tiny, mix, slab, backref, huge, aligned; with and without huge pages requested); the trace is run once without "
        "faults to count its M mapping calls, then one process per fault plan: every single k <= M, one window k..k+j per k (j in 1,2,3,7,inf), and every non-empty subset of 1..M when M <= 8 (10 in the thorough tier). "
        "Class P: the same enumeration over the raw-memory callbacks of memory pools (rml::pool_* with default/granularity/keepAllMemory/fixed policies, tbb::memory_pool<Alloc>, tbb::fixed_pool, "
        "memory_pool_allocator; 1-4 pools alive, pool_reset/pool_destroy inside the trace) with a log of the regions every pool holds, and over the mapping calls made for pool bookkeeping, plus combinations of both. "
        "Class X: extreme-argument table, one row per process: 16 entry points x 33 sizes (0 .. 2^62, SIZE_MAX/2+-1, SIZE_MAX-{2^30..0}) x 15 alignments (0,1,2,3,8..2^63,SIZE_MAX) x 7 kinds of block being reallocated. "
        "Class M: 2-6 threads on the default allocator and three pools at once (cross-thread frees through a mailbox), refusals armed by probability or by a window of the global call sequence in phase A of "
        "each round, nothing refused in phase B, pool_reset/pool_destroy at the quiescent point. Class I: N requests while the library's first mapping is refused, then memory comes back. "
        "Oracle: a request that comes back empty says so properly (null+ENOMEM / error code / std::bad_alloc; EINVAL for invalid alignment) and only if a refusal fired during the call (E, P) or refusals are armed (M); "
        "a returned block is aligned, msize >= size, disjoint from every live block, inside memory the allocator (or that pool's raw allocator) currently holds, named by pool_identify; live blocks keep their fill "
        "patterns; a failed realloc leaves the block intact; munmap / raw free never covers a live block, a range not owned, or a region twice; fixed pools ask their raw allocator once; pool_destroy returns every "
        "region; once refusals stop every kind of request succeeds again. non-trivial = at least one injected refusal fired in the case (E, P, I), the row took a refusal path (X), a refusal fired while another "
        "thread was inside an allocator call (M round); distinct = distinct (trace, fault plan, set of requests that reported failure) / (row, outcome) / (order of refusals over threads, threads inside) signatures")

BUILDS = [dict(name="c18", variant="rel", with_tbb=False, with_malloc=True), dict(name="c18", variant="rel", with_tbb=False, with_malloc=True, malloc_debug=True),
          dict(name="c18", variant="asan", with_tbb=False, with_malloc=True)]

NSHARD = 8


def run(tier, seed, scale):
    chk = core.Check("C18", tier, seed, level="fault_enumeration")
    chk.rule = RULE
    chk.assumptions = [
        "refusals are injected at the mmap/mremap calls libtbbmalloc makes through its PLT and at the pools' raw-memory callbacks; munmap is never made to fail",
        "for every generated trace all k <= M are enumerated (singles + one window per k) unless M exceeds the cap (then exhaustive=false for that trace); operation traces themselves are sampled",
        "requests of at least 2^47 bytes can never be mapped on x86-64 Linux: a non-null answer is a violation; below that either answer is accepted as long as a returned block is real memory of the full size",
        "a well-formed request of at most 64 MB + alignment <= 1 MB must succeed when nothing is refused (the machine has memory; the check would report an OS-made refusal as fails-without-refusal)",
        "errno left non-zero by a successful call is counted, not judged (POSIX leaves it unspecified)",
        "class M observes sampled interleavings only; its verdict for a failing request is the weaker 'refusals were armed in this phase'",
        "tbb::memory_pool / fixed_pool constructors throw std::runtime_error where the reference documents std::bad_alloc: counted (P_pool_ctor_threw_runtime_error...), accepted",
        "cache_aligned_allocator and tbb_allocator live in libtbb, not in libtbbmalloc, and are not covered here (the check links libtbbmalloc only)",
        "hang verdicts come from the vrt watchdog inside the case's process (quiescence / CPU-time spin-stall) plus the predicate 'a thread sits inside an allocator entry point'",
    ]
    q = tier == "quick"
    M = dict(with_tbb=False, with_malloc=True)
    D = dict(with_tbb=False, with_malloc=True, malloc_debug=True)
    th = [] if q else ["--thorough", "1"]
    phases = [
        Phase("rel-E", "c18", "rel", 4800 if q else 40000, procs=6 if q else 10, args=["--mode", "E"] + th, **M),
        Phase("dbgmalloc-E", "c18", "rel", 2400 if q else 24000, procs=4 if q else 8, args=["--mode", "E"] + th, **D),
        Phase("rel-P", "c18", "rel", 2400 if q else 20000, procs=4 if q else 8, args=["--mode", "P"] + th, **M),
        Phase("dbgmalloc-P", "c18", "rel", 1200 if q else 12000, procs=3 if q else 6, args=["--mode", "P"] + th, **D),
        Phase("rel-M", "c18", "rel", 40 if q else 400, procs=4 if q else 8, args=["--mode", "M"], min_nontrivial=40, **M),
        Phase("rel-M-2cpu", "c18", "rel", 12 if q else 100, procs=2 if q else 4, args=["--mode", "M"], cpus=2, **M),
        Phase("dbgmalloc-M", "c18", "rel", 16 if q else 160, procs=2 if q else 4, args=["--mode", "M"], **D),
        Phase("rel-I", "c18", "rel", 6 if q else 40, procs=1, args=["--mode", "I"], **M),
        Phase("dbgmalloc-I", "c18", "rel", 4 if q else 20, procs=1, args=["--mode", "I"], **D),
    ]
    for i in range(NSHARD):
        phases.append(Phase("rel-X-%d" % i, "c18", "rel", 1, procs=1, args=["--mode", "X", "--shard", str(i), "--nshards", str(NSHARD)], **M))
        phases.append(Phase("dbgmalloc-X-%d" % i, "c18", "rel", 1, procs=1, args=["--mode", "X", "--shard", str(i), "--nshards", str(NSHARD)], **D))
    xvariants = 2
    if not q:
        xvariants = 3
        for i in range(NSHARD):
            phases.append(Phase("asan-X-%d" % i, "c18", "asan", 1, procs=1, args=["--mode", "X", "--shard", str(i), "--nshards", str(NSHARD)], timeout=2400, **M))
        phases += [
            Phase("asan-E", "c18", "asan", 8000, procs=8, args=["--mode", "E"] + th, timeout=2400, **M),
            Phase("asan-P", "c18", "asan", 5000, procs=6, args=["--mode", "P"] + th, timeout=2400, **M),
            Phase("asan-M", "c18", "asan", 60, procs=4, args=["--mode", "M"], timeout=2400, **M),
            Phase("asan-I", "c18", "asan", 6, procs=1, args=["--mode", "I"], timeout=2400, **M),
            Phase("rel-M-1cpu", "c18", "rel", 40, procs=2, args=["--mode", "M"], cpus=1, **M),
        ]
    run_phases(chk, phases, seed, scale)

    st = chk.stats
    g = lambda k: st.get(k, 0)
    # per-trace records travel as stat keys; turn them into a list
    traces = []
    for k in sorted(k for k in st if k.startswith("T|")):
        f = k.split("|")
        rec = {"class": f[1], "shape": f[2], "trace_seed": f[3]}
        for kv in f[4:]:
            a, b = kv.split("=", 1)
            rec[a] = (b == "1") if a in ("exhaustive", "subsets") else b
        traces.append(rec)
    for k in [k for k in st if k.startswith("T|")]:
        del st[k]
    xmatrix = {}
    for k in sorted(k for k in st if k.startswith("X|")):
        _, entry, label = k.split("|", 2)
        xmatrix.setdefault(entry, {})[label] = st[k]
    for k in [k for k in st if k.startswith("X|")]:
        del st[k]

    import json as _json
    by_cls = {}
    for k in sorted(k for k in st if k.startswith("Y|")):
        _, cls, js = k.split("|", 2)
        try:
            by_cls.setdefault(cls, []).append(_json.loads(js))
        except ValueError:
            pass
    for k in [k for k in st if k.startswith("Y|")]:
        del st[k]
    picked = []
    for rnd in range(3):
        for cls in ("E", "P", "X", "M", "I"):
            if len(by_cls.get(cls, [])) > rnd and len(picked) < 6:
                picked.append(by_cls[cls][rnd])
    if picked:
        chk.samples = picked

    sc = min(1.0, scale)
    chk.require(g("E_traces") >= (25 if q else 150) * sc, "class E enumerated only %d traces" % g("E_traces"))
    chk.require(g("E_traces_exhaustive") * 10 >= g("E_traces") * 9, "fewer than 90%% of the E traces were enumerated exhaustively (%d of %d)" % (g("E_traces_exhaustive"), g("E_traces")))
    chk.require(g("E_fault_cases_fired") * 100 >= g("E_fault_cases") * 97, "E: injected refusals fired in only %d of %d fault cases" % (g("E_fault_cases_fired"), g("E_fault_cases")))
    chk.require(g("E_traces_with_every_subset") >= 3 * sc, "E: fewer than 3 short traces had every subset enumerated")
    chk.require(g("E_fault_cases_with_api_failure") >= 500 * sc, "E: fewer than 500 fault cases made a request report failure")
    chk.require(g("E_os_remaps") >= 20, "E: the mremap path was taken fewer than 20 times")
    chk.require(g("P_traces") >= (12 if q else 80) * sc, "class P enumerated only %d traces" % g("P_traces"))
    chk.require(g("P_traces_exhaustive") * 10 >= g("P_traces") * 9, "fewer than 90%% of the P traces were enumerated exhaustively")
    chk.require(g("P_fault_cases_fired") * 100 >= g("P_fault_cases") * 90, "P: injected refusals fired in only %d of %d fault cases" % (g("P_fault_cases_fired"), g("P_fault_cases")))
    chk.require(g("P_pool_creations_refused") >= 20 * sc and g("P_pool_resets") >= 100 * sc, "P: pool creation under refusal / pool_reset exercised too rarely")
    chk.require(g("X_rows_completed") == xvariants * g("max_X_rows_in_table") and g("max_X_rows_in_table") >= 8000,
                "X: %d rows completed, expected %d x %d" % (g("X_rows_completed"), xvariants, g("max_X_rows_in_table")))
    chk.require(g("M_refusals_fired_while_other_thread_inside_allocator") >= 400 * sc, "M: only %d refusals fired while another thread was inside the allocator" % g("M_refusals_fired_while_other_thread_inside_allocator"))
    chk.require(g("M_cross_thread_frees") >= 5000 * sc, "M: fewer than 5000 cross-thread frees")
    chk.require(g("M_rounds_with_refusal_while_other_thread_inside") >= 60 * sc, "M: fewer than 60 rounds had a refusal racing another thread's call")
    chk.require(g("I_recovered") >= 10, "I: fewer than 10 recoveries after failed initialisations")

    chk.extra["exhaustive"] = bool(traces) and all(t["exhaustive"] for t in traces)
    chk.extra["enumeration"] = {
        "E": {"traces": g("E_traces"), "traces_exhaustive(every k<=M covered and fired)": g("E_traces_exhaustive"), "traces_with_every_subset": g("E_traces_with_every_subset"),
              "k_values_enumerated": g("E_k_values_enumerated"), "k_values_total(sum of M)": g("E_k_values_total"), "fault_cases": g("E_fault_cases"), "fault_cases_in_which_the_refusal_fired": g("E_fault_cases_fired"),
              "fault_cases_not_fired": g("E_fault_cases_not_fired"), "subset_cases": g("E_subset_cases"), "refusals_fired": g("E_refusals_fired"), "fault_cases_with_a_request_reporting_failure": g("E_fault_cases_with_api_failure"),
              "requests_that_reported_failure": g("E_api_failures"), "requests_that_succeeded": g("E_api_successes"), "max_mapping_calls_per_trace": g("max_E_mapping_calls_per_trace"),
              "os_calls_seen[mmap,munmap,mremap]": [g("E_os_maps"), g("E_os_unmaps"), g("E_os_remaps")]},
        "P": {"traces": g("P_traces"), "traces_exhaustive": g("P_traces_exhaustive"), "traces_with_every_subset(raw callbacks)": g("P_traces_with_every_subset"),
              "k_values_enumerated[raw,mapping]": [g("P_k_values_enumerated_raw"), g("P_k_values_enumerated_mapping")], "k_values_total[raw,mapping]": [g("P_k_values_total_raw"), g("P_k_values_total_mapping")],
              "fault_cases": g("P_fault_cases"), "fault_cases_in_which_a_refusal_fired": g("P_fault_cases_fired"), "refusals_fired[raw,mapping]": [g("P_raw_refusals_fired"), g("P_mapping_refusals_fired")],
              "pools_created": g("P_pools_created"), "pool_creations_refused": g("P_pool_creations_refused"), "pools_destroyed": g("P_pools_destroyed"), "pool_resets": g("P_pool_resets"),
              "raw_callback_calls": g("P_raw_callback_calls"), "requests_that_reported_failure": g("P_api_failures"), "requests_that_succeeded": g("P_api_successes")},
        "I": {"failed_initialisations": g("I_failed_initialisations"), "recoveries": g("I_recovered")},
    }
    chk.extra["traces"] = traces
    chk.extra["extreme_argument_table"] = {"rows_per_variant": g("max_X_rows_in_table"), "variants": xvariants, "rows_completed": g("X_rows_completed"), "entry_point_x_outcome": xmatrix}
    chk.extra["windows"] = {
        "M_rounds": g("M_rounds"), "M_thread_rounds": g("M_thread_rounds"), "refusals_fired": g("M_refusals_fired"),
        "refusals_fired_while_another_thread_was_inside_the_allocator": g("M_refusals_fired_while_other_thread_inside_allocator"),
        "rounds_with_such_a_refusal": g("M_rounds_with_refusal_while_other_thread_inside"), "cross_thread_frees": g("M_cross_thread_frees"),
        "requests_that_reported_failure": g("M_requests_that_reported_failure"), "requests_that_succeeded": g("M_requests_that_succeeded"),
        "pool_resets/destroys_at_quiescent_points": [g("M_pool_resets"), g("M_pool_destroys")],
        "failures_without_a_refusal_during_the_same_call(observation)": g("M_failures_without_a_refusal_during_the_same_call(observation)"),
    }
    chk.extra["child_processes"] = g("child_processes")
    return chk.finish()
