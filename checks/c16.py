from vlib import core
from vlib.plan import Phase, run_phases

BUILDS = [dict(name="c16", variant=v) for v in ("rel", "dbg", "tsan")]
RULE = ("scenario A = 1-4 arenas of random (max_concurrency 1-16, reserved 0-2, priority) with observers; 1-8 application threads enter/leave "
        "through execute (incl. nested arenas and isolated nested loops), enqueue and affinity loops, sometimes under a max_allowed_parallelism "
        "limit; every body checks current_thread_index range/uniqueness (in-flight bitmap), in-flight count <= max_concurrency (+1 for a 1-slot "
        "arena), workers never below the reserved count, observer entry/exit balance per thread, isolation scope of the executing thread vs the "
        "task. scenario B = steady regime (limit L set, every worker asleep per the sleep registry, then 600-chunk loop): at most L-1 workers in "
        "bodies at once. Report hooks under the market's and the request serializer's own mutexes check after every update: grants sum to "
        "min(demand, limit), no grant above its request, no lower priority level served while a higher one is unsatisfied, sum of requests == "
        "total demand, cumulative job-count estimate == min(soft limit, total request); a client destroyed with outstanding demand is reported. "
        "evaluations = scenarios A and B plus the allotment reports judged by the market oracle; non-trivial = >=2 threads in flight in one arena / >=1 worker in a budget regime; distinct = arena-shape x max in-flight x max index "
        "signatures plus distinct (limit, demand-vector) tuples seen by the allotment oracle")


def run(tier, seed, scale):
    chk = core.Check("C16", tier, seed)
    chk.rule = RULE
    chk.assumptions = ["the allotment arithmetic is checked on the demand vectors that real traffic produces, not on its whole input space",
                       "schedules are sampled", "known finding market.mandatory-request-accounting is reported, everything else is strict"]
    q = tier == "quick"
    phases = [
        Phase("rel", "c16", "rel", 8000 if q else 120000, procs=8 if q else 12, min_nontrivial=3000),
        Phase("rel-2cpu", "c16", "rel", 800 if q else 12000, procs=2 if q else 4, cpus=2),
        Phase("dbg", "c16", "dbg", 2400 if q else 40000, procs=3 if q else 6),
        Phase("tsan", "c16", "tsan", 450 if q else 9000, procs=3 if q else 8, timeout=1500),
    ]
    run_phases(chk, phases, seed, scale)
    # every allotment report judged under the market's mutex is an evaluated case of its own (the distinct (limit, demand-vector) tuples are counted among them)
    chk.evaluations += chk.stats.get("allotment_reports_checked", 0)
    s = chk.stats
    chk.require(s.get("allotment_reports_checked", 0) > 20000 * min(1.0, scale), "too few allotment reports checked: %d" % s.get("allotment_reports_checked", 0))
    chk.require(s.get("serializer_reports_checked", 0) > 10000 * min(1.0, scale), "too few serializer reports checked")
    chk.require(s.get("budget_regimes", 0) > 500 * min(1.0, scale), "too few steady worker-budget regimes")
    chk.require(s.get("budget_regimes_set_up_by_concurrent_global_control_constructors", 0) > 200 * min(1.0, scale), "too few budget regimes whose limit was set by concurrently constructed global_control objects")
    chk.require(s.get("reserved_slot_entries_by_external_threads", 0) > 1000 * min(1.0, scale), "reserved slots hardly used")
    chk.require(s.get("quiet_scenarios_in_which_no_enqueue_task_happened", 0) > 800 * min(1.0, scale) and s.get("wakeup_advertisements_in_quiet_scenarios", 0) > 1000 * min(1.0, scale)
                and s.get("bodies_judged_by_the_no_worker_oracles", 0) > 15000 * min(1.0, scale),
                "no-worker oracles (limit 1 / one-thread arenas, nothing enqueued): %d quiet scenarios, %d wakeup advertisements in them, %d bodies judged" % (
                    s.get("quiet_scenarios_in_which_no_enqueue_task_happened", 0), s.get("wakeup_advertisements_in_quiet_scenarios", 0), s.get("bodies_judged_by_the_no_worker_oracles", 0)))
    chk.extra["oracles"] = {k: s.get(k, 0) for k in ("bodies", "allotment_reports_checked", "distinct_limit_demand_vectors", "serializer_reports_checked", "budget_regimes", "budget_regimes_set_up_by_concurrent_global_control_constructors",
                                                     "budget_regimes_skipped_not_drained", "observer_entries", "observer_exits", "reserved_slot_entries_by_external_threads",
                                                     "max_inflight_vs_bound_pct", "max_workers_minus_budget")}
    return chk.finish()
