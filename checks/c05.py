from vlib import core
from vlib.plan import Phase, run_phases

RULE = ("scenario = one parallel loop drawn from: parallel_for over blocked_range<V> (7 value types incl. pointers; sizes 0,1,2,3, primes, 2^k, 2^k+-1, "
        "up to 2^16 with per-element counters; 'huge' ranges 2^24..2^64-1 ending at the type's maximum, chunk list only), a user-defined Range that records "
        "every split request, blocked_range2d/3d/nd (cell counters or box oracle, incl. axis sizes > 2^53 whose size*grain products tie in double), the "
        "(first,last[,step],f) overloads over 7 integer types incl. type edges, parallel_for_each (random-access/forward/input iterators, containers, feeder, "
        "move-only items), parallel_invoke (2-10 functors); partitioner in {simple, auto, static, affinity (objects re-used), default}, grains 1,2,3,7,n-1,n,n+1,huge,random; "
        "with/without user context; run inside a hot arena of concurrency 1..16 shared by 1-3 driving threads, 1/12 nested inside an outer loop, with random per-chunk "
        "body delays and hook-driven delays at offer_work / check_being_stolen / demand split / steal. After the call returns the per-thread chunk logs are swept: "
        "non-empty, inside, pairwise disjoint, covering, no split of a non-divisible range/axis, documented chunk-size bounds, every element/item/functor counted once. "
        "non-trivial = bodies of the loop ran on >= 2 threads; distinct = distinct (case, sorted chunk list, chunk->thread assignment) signatures, "
        "i.e. distinct steal patterns actually observed")

BUILDS = [dict(name="c05", variant=v) for v in ("rel", "dbg", "tsan", "asan")]


def run(tier, seed, scale):
    chk = core.Check("C05", tier, seed)
    chk.rule = RULE
    chk.assumptions = ["interleavings / steal patterns are sampled (perturbation and body delays vary them), not enumerated",
                       "x86-TSO hardware only",
                       "ranges larger than 2^16 elements are checked through the chunks handed to the body, not element by element",
                       "proportional splits of blocked_range use 32-bit float arithmetic: for ranges > 2^22 the static_partitioner bound g/3 is checked with a 2^-20 relative tolerance",
                       "asan/ubsan variant: strided loops keep last+step representable (DESIGN 4.8); type-edge cases run in rel/dbg/tsan"]
    q = tier == "quick"
    phases = [
        Phase("rel-hot", "c05", "rel", 400000 if q else 2000000, procs=6 if q else 12, min_nontrivial=20000),
        Phase("rel-2cpu", "c05", "rel", 54000 if q else 300000, procs=2 if q else 4, cpus=2),
        Phase("rel-1cpu", "c05", "rel", 27000 if q else 150000, procs=2 if q else 4, cpus=1),
        Phase("dbg-hot", "c05", "dbg", 135000 if q else 800000, procs=3 if q else 8, min_nontrivial=5000),
        Phase("tsan", "c05", "tsan", 9000 if q else 60000, procs=3 if q else 8, timeout=1500),
    ]
    if not q:
        phases.append(Phase("asan", "c05", "asan", 120000, procs=6, timeout=1800))
        # one partitioner at a time at full width: every loop of the process competes for the same 16 slots
        for part, name in enumerate(("simple", "auto", "static", "affinity")):
            phases.append(Phase("rel-16-" + name, "c05", "rel", 150000, procs=2, args=["--part", str(part), "--conc", "16"]))
        phases.append(Phase("rel-loops-only", "c05", "rel", 300000, procs=4, args=["--class", "0"]))
        phases.append(Phase("dbg-ranges", "c05", "dbg", 200000, procs=4, args=["--class", "2"]))
    run_phases(chk, phases, seed, scale)

    h, st = chk.hooks, chk.stats
    n = lambda i: h.get(str(i), {}).get("n", 0)
    # the windows this property is about must have been entered, and every class / partitioner must have run in parallel
    chk.require(n(200) > 100000, "offer_work (split + spawn) reached fewer than 100000 times")
    chk.require(n(10) > 5000, "fewer than 5000 steals observed")
    chk.require(n(201) > 500, "check_being_stolen fired (stolen task raised its depth) fewer than 500 times")
    chk.require(n(202) > 50, "demand-driven splits (peer stolen) observed fewer than 50 times")
    chk.require(n(197) > 200, "the circular range pool of the auto/affinity partitioner wrapped around fewer than 200 times (one task has to answer ~7 steal demands in a row)")
    for p in ("simple", "auto", "static", "affinity", "default"):
        chk.require(st.get("part_%s_multithread" % p, 0) > 1000, "partitioner %s: fewer than 1000 loops ran on >= 2 threads" % p)
    for c in ("R", "T", "N", "S", "E", "I", "nest"):
        chk.require(st.get("class_" + c, 0) > 500, "scenario class %s ran fewer than 500 times" % c)
    chk.require(st.get("huge_ranges", 0) > 1000, "fewer than 1000 huge (> 2^24) ranges")
    chk.require(st.get("type_edge_strided", 0) > 500, "fewer than 500 strided loops at the type edges")
    chk.require(st.get("axis_collision_cases", 0) > 100, "fewer than 100 multi-dimensional ranges with tying axis products (> 2^53)")
    chk.require(st.get("feeder_items", 0) > 10000, "fewer than 10000 feeder-added items")
    chk.require(chk.inconclusive == 0, "%d process(es) stalled without a classifiable state (keeper threads keep the process from ever being quiescent); re-run" % chk.inconclusive)
    chk.extra["windows"] = {
        "offer_work_splits": n(200),
        "stolen_task_raised_depth(check_being_stolen)": n(201),
        "demand_splits(peer_stolen)": n(202),
        "range_pool_wrap_arounds(one task answered >= 7 steal demands in a row)": n(197),
        "steals": n(10),
        "fold_tree_decrements": n(43),
        "loops_on_2plus_threads_by_partitioner": {p: st.get("part_%s_multithread" % p, 0) for p in ("simple", "auto", "static", "affinity", "default")},
        "loops_by_class": {c: st.get("class_" + c, 0) for c in ("R", "T", "N", "S", "E", "I", "nest")},
        "chunks_checked": st.get("chunks", 0),
        "elements_counted": st.get("elements_counted", 0),
        "max_split_depth_log2(size/min_chunk)": st.get("max_split_depth_log2", 0),
        "max_threads_in_one_loop": st.get("max_threads_per_loop", 0),
        "affinity_loops_with_chunk_below_half_grain(known finding)": st.get("affinity_loops_with_chunk_below_half_grain", 0),
    }
    return chk.finish()
