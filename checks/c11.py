from vlib import core
from vlib.plan import Phase, run_phases

RULE = ("scenario classes on a fresh tbb::concurrent_vector<Elem, instrumented allocator> each (the allocator logs every block with the allocating thread, "
        "fills fresh element storage with a pattern, keeps a shadow construction counter per slot, can fail the k-th allocation and is a delay point; "
        "Elem counts constructions/destructions by address and can throw at the k-th in-vector construction; hook-driven delays at range-claimed / "
        "first-block election / wait-for-segment / table-switch): "
        "G = 2-4 (sometimes 1 or 5-8) threads x 1-10 growth calls (push_back const&/&&, emplace_back, grow_by d / d,v / first,last / init-list, "
        "grow_to_at_least n / n,v) with d and n drawn from 0, 1, 2-4, 2^k and 2^k+-1, after a random sequential prefix (empty, 1-4 pushes, sizes 1,2,3,6..9,15..17, "
        "2^k+-1 up to 2^15, reserve) so that first-block election and the 3->64 pointer table switch are raced; checked in the calling thread on return "
        "(own elements constructed once with the requested value, iterator arithmetic and ++ across segment boundaries give the same addresses as operator[], "
        "grow_to_at_least(n): size()>=n, capacity()>=n, at(i<n) works) and at quiescence (returned ranges pairwise disjoint and tiling [0,size()) exactly, every "
        "element constructed exactly once with the requested value, nothing constructed outside the ranges, every address sampled during growth unchanged, the whole "
        "index->address map equal to the segment layout over the blocks the allocator handed out, destructor destroys each element once and returns every block); "
        "E = the same with the constructor of one push_back/emplace_back throwing (cannot leave an unallocated segment: strict, holes = failed calls, zero-filled); "
        "S = single thread, a constructor or an allocation throws inside call k for every k of a 3-8 call sequence at the first/last/random position inside the call, "
        "nothing grows afterwards: exception delivered, earlier elements and addresses untouched, at(i) works or throws for all i<size(), no raw slot after a "
        "constructor throw, destructible, all storage returned; Salloc = S followed by further growth of the same thread; M = 2-4 threads with a constructor "
        "(any call) or allocation throwing, then further sequential growth (other calls must return or throw; successful calls judged as in G, disjointness only); "
        "H = grow_to_at_least to 2^31, 2^31+5, 2^32+10, 2^33 (thorough: 2^36 by 8 threads, non-empty start sizes) with lazily committed storage and a no-op element "
        "constructor, index->address map checked at every 2^k, 2^k+-1, n-1 and 3500 random indices. "
        "non-trivial = calls of >= 2 threads overlapped in time (G/E/M), the armed fault fired in the chosen call (S/Salloc), the size was reached (H); "
        "distinct = (owner thread and call kind of the ranges in index order, allocating thread and size of every block incl. discarded race losers) per class")

BUILDS = [dict(name="c11", variant=v) for v in ("rel", "dbg", "tsan", "asan")]

P31, P32, P33, P36 = 1 << 31, 1 << 32, 1 << 33, 1 << 36


def run(tier, seed, scale):
    chk = core.Check("C11", tier, seed)
    chk.rule = RULE
    chk.assumptions = [
        "interleavings are sampled (delays at the hook points and at the allocator entry widen windows, nothing is enumerated); x86-TSO hardware only; weakened release/acquire pairs are visible only to the tsan variant",
        "grow_to_at_least(n) is read as documented: on return storage for [0,n) exists and the elements the call appended are constructed; elements of other threads may still be under construction (not demanded)",
        "after a failed growth call only what the property states is demanded (destructible, at(i) works or throws, nothing outside allocated storage, exception reaches the caller); zero-filling of unconstructed slots is demanded after a constructor throw only",
        "classes Salloc and M contain the known defect cv.abandoned-range-starves-segment-waiters and run in processes of their own with few cases: the first wedge ends the process (watchdog verdict: CPU-time spin-stall or quiescence plus 'a growth call is in flight and an earlier call ended with an exception'); the same stall without an earlier failed call has a strict key",
        "raw slots inside size() after an allocation failure are the known finding cv.alloc-failure-leaves-raw-slots-in-size (keys c11.(S|Salloc|M).unconstructed-slot-*, emitted once per process); the same after a constructor throw is strict",
        "2^36 elements cost ~200 CPU-seconds and are reached in the thorough tier only (8 threads); the quick tier goes to 2^33; huge sizes run in the rel variant only",
        "class T (strict): the allocation of the long segment table fails slowly while other single-element growth calls wait for it; every call must throw or return, nothing grows afterwards",
        "shrink_to_fit/clear/resize-down (which may move or destroy elements) are outside the property and not exercised",
    ]
    q = tier == "quick"
    t_wedge = 1500
    hx = lambda *ns: ",".join(hex(n) for n in ns)
    phases = [
        Phase("rel-mix", "c11", "rel", 400000 if q else 4000000, procs=5 if q else 10, min_nontrivial=50000),
        Phase("rel-2cpu", "c11", "rel", 60000 if q else 500000, procs=2 if q else 4, cpus=2),
        Phase("rel-1cpu", "c11", "rel", 30000 if q else 250000, procs=1 if q else 2, cpus=1),
        Phase("dbg-mix", "c11", "dbg", 150000 if q else 1500000, procs=3 if q else 6),
        Phase("tsan-mix", "c11", "tsan", 16000 if q else 200000, procs=2 if q else 6, timeout=1500),
        # wedge-able classes: the first wedge ends the process (watchdog verdict)
        Phase("rel-Salloc", "c11", "rel", 120 if q else 400, procs=3 if q else 5, args=["--mode", "Salloc"], timeout=t_wedge),
        Phase("rel-M", "c11", "rel", 150 if q else 500, procs=3 if q else 5, args=["--mode", "M"], timeout=t_wedge),
        # strict: the allocation of the long segment table fails while other growth calls already wait for it; everybody must throw or return
        Phase("rel-T", "c11", "rel", 6000 if q else 60000, procs=2 if q else 4, args=["--mode", "T"]),
        Phase("dbg-T", "c11", "dbg", 2000 if q else 20000, procs=1 if q else 2, args=["--mode", "T"]),
        # class F: empty vector, two single-element calls at once, one of the two first-block allocations fails slowly; a call that returned keeps its element
        Phase("rel-F", "c11", "rel", 40000 if q else 400000, procs=2 if q else 4, args=["--mode", "F"]),
        Phase("dbg-F", "c11", "dbg", 10000 if q else 100000, procs=1 if q else 2, args=["--mode", "F"]),
        # huge sizes (one process each: seconds of CPU per size)
        Phase("rel-H31", "c11", "rel", 2, procs=1, args=["--mode", "H", "--hn", hx(P31, P31 + 5)], timeout=t_wedge),
        Phase("rel-H32", "c11", "rel", 1, procs=1, args=["--mode", "H", "--hn", hx(P32 + 10)], timeout=t_wedge),
        Phase("rel-H33", "c11", "rel", 1, procs=1, args=["--mode", "H", "--hn", hx(P33)], timeout=t_wedge),
    ]
    if not q:
        phases += [
            Phase("asan-mix", "c11", "asan", 600000, procs=6, timeout=1500),
            Phase("asan-S", "c11", "asan", 150000, procs=3, args=["--mode", "S"], timeout=1500),
            Phase("rel-G", "c11", "rel", 1500000, procs=4, args=["--mode", "G"]),
            Phase("rel-E", "c11", "rel", 600000, procs=2, args=["--mode", "E"]),
            Phase("rel-S", "c11", "rel", 600000, procs=2, args=["--mode", "S"]),
            Phase("tsan-G", "c11", "tsan", 100000, procs=4, args=["--mode", "G"], timeout=1500),
            Phase("dbg-Salloc", "c11", "dbg", 150, procs=2, args=["--mode", "Salloc"], timeout=t_wedge),
            Phase("dbg-M", "c11", "dbg", 150, procs=2, args=["--mode", "M"], timeout=t_wedge),
            Phase("asan-Salloc", "c11", "asan", 150, procs=2, args=["--mode", "Salloc"], timeout=t_wedge),
            Phase("asan-M", "c11", "asan", 150, procs=2, args=["--mode", "M"], timeout=t_wedge),
            Phase("rel-H36x8", "c11", "rel", 1, procs=1, args=["--mode", "H", "--hn", hx(P36), "--hthreads", "8"], timeout=3000),
            Phase("rel-H33x4", "c11", "rel", 2, procs=1, args=["--mode", "H", "--hn", hx(P33 + 1, P32 - 1), "--hthreads", "4"], timeout=t_wedge),
            Phase("rel-H-old5", "c11", "rel", 3, procs=1, args=["--mode", "H", "--hn", hx(P32 + 3, P31 + 4, P31 + 5), "--hold", "5"], timeout=t_wedge),
            Phase("rel-H-old1000", "c11", "rel", 2, procs=1, args=["--mode", "H", "--hn", hx(P32 + 999, P31 + 1000), "--hold", "1000"], timeout=t_wedge),
        ]
    run_phases(chk, phases, seed, scale)

    st, h = chk.stats, chk.hooks

    def hn(i):
        return h.get(str(i), {}).get("n", 0)

    sc = min(1.0, scale)
    need = (lambda a, b: a * sc if q else b)
    chk.require(st.get("G_scenarios_with_overlapping_calls", 0) >= need(40000, 400000), "only %d fault-free scenarios had calls of two threads overlapping in time" % st.get("G_scenarios_with_overlapping_calls", 0))
    chk.require(st.get("G_tiles_checked", 0) >= need(1000000, 10000000), "only %d returned ranges were checked for tiling" % st.get("G_tiles_checked", 0))
    chk.require(hn(150) >= need(1000000, 10000000), "range-claimed hook (150) reached only %d times" % hn(150))
    chk.require(hn(152) >= need(20000, 200000), "fewer than expected waits for another thread's segment (hook 152: %d)" % hn(152))
    chk.require(hn(153) >= need(50000, 500000) and hn(151) >= need(50000, 500000), "table switch / first-block election hooks reached too rarely (153: %d, 151: %d)" % (hn(153), hn(151)))
    chk.require(st.get("G_segments_allocated_by_non_claimant", 0) >= need(3000, 30000), "only %d segments were allocated by a thread other than the claimant of their first index" % st.get("G_segments_allocated_by_non_claimant", 0))
    chk.require(st.get("G_table_switch_raced", 0) >= need(100, 1000), "only %d scenarios had two threads allocating the long table at once" % st.get("G_table_switch_raced", 0))
    chk.require(st.get("G_blocks_allocated_and_discarded(first-block/segment race losers)", 0) >= need(500, 5000), "first-block allocation was raced too rarely")
    chk.require(st.get("gtal_returns_checked", 0) >= need(100000, 1000000), "only %d grow_to_at_least returns were checked" % st.get("gtal_returns_checked", 0))
    chk.require(st.get("E_ctor_faults_fired", 0) >= need(10000, 100000), "class E: only %d injected constructor exceptions fired" % st.get("E_ctor_faults_fired", 0))
    chk.require(st.get("S_calls_failed_by_constructor", 0) >= need(10000, 100000) and st.get("S_calls_failed_by_allocation", 0) >= need(5000, 50000),
                "class S: too few failed calls (constructor %d, allocation %d)" % (st.get("S_calls_failed_by_constructor", 0), st.get("S_calls_failed_by_allocation", 0)))
    chk.require(st.get("Salloc_scenarios", 0) + st.get("Salloc_wedged", 0) >= 3, "class Salloc was not exercised")
    chk.require(st.get("M_scenarios", 0) + st.get("M_wedged", 0) >= 3, "class M was not exercised")
    chk.require(st.get("F_other_call_succeeded_and_kept_its_element", 0) >= need(5000, 50000) and st.get("F_both_calls_threw", 0) >= need(300, 3000),
                "class F: first-block allocation failed while the other call succeeded in only %d scenarios (both threw: %d)" % (st.get("F_other_call_succeeded_and_kept_its_element", 0), st.get("F_both_calls_threw", 0)))
    chk.require(st.get("T_table_allocation_failed", 0) >= need(3000, 30000), "class T: the allocation of the long segment table failed in only %d scenarios" % st.get("T_table_allocation_failed", 0))
    chk.require(st.get("T_scenarios_where_other_calls_threw_too", 0) >= need(1500, 15000), "class T: only %d scenarios in which other growth calls ended with an exception as well" % st.get("T_scenarios_where_other_calls_threw_too", 0))
    chk.require(h.get("152", {}).get("h", [0] * 8)[4] >= need(500, 5000), "class T: only %d growth calls entered the wait for the long segment table" % h.get("152", {}).get("h", [0] * 8)[4])
    chk.require(st.get("H_sizes_reached_ge_2^31", 0) >= ((4 if scale >= 1 else 3) if q else 12) and st.get("H_sizes_reached_ge_2^32", 0) >= (2 if q else 6), "huge sizes were not reached (>=2^31: %d, >=2^32: %d)" % (st.get("H_sizes_reached_ge_2^31", 0), st.get("H_sizes_reached_ge_2^32", 0)))
    if not q:
        chk.require(st.get("max_H_size_log2", 0) >= 36, "2^36 elements were not reached")
    chk.require(st.get("shadow_lookup_raced", 0) == 0 or chk.stats.get("shadow_lookup_raced", 0) < 100, "the construction-counter lookup raced with block publication too often (tsan variant)")
    chk.extra["windows"] = {
        "T_long_table_allocation_failures": st.get("T_table_allocation_failed", 0),
        "F_first_block_allocation_failures": st.get("F_first_block_allocation_failed", 0),
        "F_scenarios_where_the_other_call_succeeded_and_kept_its_element": st.get("F_other_call_succeeded_and_kept_its_element", 0),
        "F_scenarios_where_both_calls_threw": st.get("F_both_calls_threw", 0),
        "T_scenarios_where_other_calls_threw_too": st.get("T_scenarios_where_other_calls_threw_too", 0),
        "T_calls_that_entered_the_wait_for_the_long_table(hook152 arg4)": h.get("152", {}).get("h", [0] * 8)[4],
        "growth_calls": {c: st.get(c + "_calls", 0) for c in ("G", "E", "M")},
        "returned_ranges_checked_for_tiling": {c: st.get(c + "_tiles_checked", 0) for c in ("G", "E", "M")},
        "elements_checked_at_quiescence": {c: st.get(c + "_elements_checked", 0) for c in ("G", "E", "M")},
        "own_elements_checked_on_return": {c: st.get(c + "_own_elements_checked_on_return", 0) for c in ("G", "E", "M")},
        "index_address_pairs_checked_against_layout": st.get("G_layout_indices_checked", 0) + st.get("E_layout_indices_checked", 0),
        "scenarios_with_overlapping_calls": {c: st.get(c + "_scenarios_with_overlapping_calls", 0) for c in ("G", "E", "M")},
        "segments_allocated_by_a_thread_other_than_the_claimant": st.get("G_segments_allocated_by_non_claimant", 0) + st.get("E_segments_allocated_by_non_claimant", 0),
        "waits_for_another_threads_segment(hook152)[long-table copy,first block present,first block lost race,segment of other claimant]": h.get("152", {}).get("h", [0] * 8)[:4],
        "table_switches": st.get("G_table_switches", 0) + st.get("E_table_switches", 0),
        "table_switches_raced(two long tables allocated)": st.get("G_table_switch_raced", 0) + st.get("E_table_switch_raced", 0),
        "blocks_allocated_and_discarded(first-block race losers)": st.get("G_blocks_allocated_and_discarded(first-block/segment race losers)", 0),
        "first_block_elections(hook151)": hn(151),
        "allocator_entry_delays": st.get("G_alloc_entry_delays", 0) + st.get("E_alloc_entry_delays", 0) + st.get("M_alloc_entry_delays", 0),
        "grow_to_at_least_returns_checked": st.get("gtal_returns_checked", 0),
        "grow_to_at_least_returns_with_unallocated_lower_segment": st.get("gtal_returns_with_unallocated_lower_segment", 0),
        "faults_fired": {"E_ctor": st.get("E_ctor_faults_fired", 0), "S_ctor": st.get("S_calls_failed_by_constructor", 0), "S_alloc": st.get("S_calls_failed_by_allocation", 0),
                         "Salloc_ctor": st.get("Salloc_calls_failed_by_constructor", 0), "Salloc_alloc": st.get("Salloc_calls_failed_by_allocation", 0),
                         "M_ctor": st.get("M_ctor_faults_fired", 0), "M_alloc": st.get("M_alloc_faults_fired", 0)},
        "S_failed_call_kinds": {k[len("S_failed_call_kind_"):]: v for k, v in st.items() if k.startswith("S_failed_call_kind_")},
        "at()_after_a_fault[ok,threw]": [sum(st.get(c + "_at_ok", 0) for c in ("S", "Salloc", "M")), sum(st.get(c + "_at_threw", 0) for c in ("S", "Salloc", "M"))],
        "scenarios_completed_before_the_known_wedge": {"Salloc": st.get("Salloc_scenarios", 0), "M": st.get("M_scenarios", 0)},
        "processes_wedged_on_the_known_defect": {"Salloc": st.get("Salloc_wedged", 0), "M": st.get("M_wedged", 0)},
        "huge_sizes_reached[>=2^31,>=2^32,max log2]": [st.get("H_sizes_reached_ge_2^31", 0), st.get("H_sizes_reached_ge_2^32", 0), st.get("max_H_size_log2", 0)],
        "huge_addresses_checked": st.get("H_addresses_checked", 0),
    }
    return chk.finish()
