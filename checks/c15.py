import os, re
from vlib import core
from vlib.plan import Phase, run_phases

RULE = ("scenario = one mini-topology around one node under test, drawn from 15 classes: queue_node (7 consumer kinds: accepting / rejecting / two rejecting "
        "serial sinks, one or two try_get threads, a reserving thread that releases or consumes, reserving + try_get threads), sequencer_node (numbers dealt "
        "to 1-4 producers in random orders / random repeating numbers plus a filling pass / every producer puts every number; accepting, rejecting or "
        "late-attached sink), priority_queue_node (first sink invocation blocks until all puts are done / rejecting sink with delays / edge made after all "
        "puts / accepting sink / try_get thread), buffer-, queue- or priority_queue_node feeding 2-3-port reserving joins with a competitor on one feeder "
        "(second reserving join, try_get thread, rejecting function_node), reserving join over queue_nodes, queueing join (2-4 ports, 1-3 producers per "
        "port), key_matching join (2-3 ports, keys missing at some ports, keys repeated at a port), limiter_node (threshold 1/2/3/8; queue->limiter, two "
        "queues->limiter, direct puts, queue + direct puts; decrement from the sink body, from a lightweight sink inside the limiter's own try_put, through "
        "an edge, from external threads; accepting / rejecting sink), limiter_node<T,int> acknowledged in batches of 1..threshold (integral decrementer: from inside a lightweight sink, i.e. inside the limiter's own put, from a queueing sink, from an external thread), overwrite_node and write_once_node with 1-2 present and 0-2 late successors, "
        "broadcast_node with 1-4 successors of three kinds, split_node, indexer_node, and the item_buffer ring driven through "
        "try_put/try_get/try_reserve/try_release/try_consume (one thread against an exact model incl. wrap and grow with a reservation outstanding, and "
        "2-5 threads). 1-4 external producer threads per port (a quarter of them put through graph tasks), 1-120 uniquely numbered messages each, serial "
        "logging sinks, warm arenas of 2/3/4/8/16 slots, hook-driven delays at the aggregator (170/171), flow-graph points 180-187 and task streams. "
        "Oracles after wait_for_all: exactly-once, per-producer order, A.ret < B.call => A first, sequencer output 0,1,2.., highest buffered priority first, "
        "complete tuples / equal keys / tuple i = i-th of every port, in = ports x tuples + still buffered, nothing stuck, sink entries - decrements started "
        "<= threshold at every sink entry, latest / first value at every successor, element k only at port k. non-trivial = >= 2 threads took part and the "
        "consuming side observably ran while a producer was still putting (or the output interleaves producers); distinct = distinct (class, parameters, "
        "order in which the producers' messages left the node) signatures")

BUILDS = [dict(name="c15", variant=v) for v in ("rel", "dbg", "tsan", "asan")]

CLASSES = ["queue", "seq", "prio", "resv", "join-reserving", "join-queueing", "join-key", "limiter", "overwrite", "write-once", "broadcast", "split", "indexer", "ring"]


def wired_flow_hooks():
    ids = set()
    names = {}
    hdr = os.path.join(core.REPO, "include/oneapi/tbb/detail/_verif_hooks.h")
    for m in re.finditer(r"(vp_fg_\w+)\s*=\s*(\d+)", open(hdr).read()):
        names[m.group(1)] = int(m.group(2))
    inc = os.path.join(core.REPO, "include/oneapi/tbb")
    for dp, dn, fn in os.walk(inc):
        for f in fn:
            if f.endswith(".h") and "flow_graph" in f:
                for m in re.finditer(r"__TBB_VERIF_POINT\((vp_fg_\w+)", open(os.path.join(dp, f)).read()):
                    if m.group(1) in names:
                        ids.add(names[m.group(1)])
    return ids


def run(tier, seed, scale):
    chk = core.Check("C15", tier, seed)
    chk.rule = RULE
    chk.assumptions = ["interleavings are sampled (delays at hooks, in sink bodies and between puts widen windows; nothing is enumerated)", "x86-TSO hardware only",
                       "messages are ints/longs/tuples of ints; user-defined message types with throwing copies are out of scope (C03/C14)",
                       "key_matching: for a key that is put twice to the same port before it matched only the counts are checked (the second put returns false "
                       "and replaces the waiting message; nothing in the documentation shipped with the tree defines this case)",
                       "limiter bound: sink entries minus decrements STARTED is a lower bound of forwarded minus decremented, so an excess is real; a limiter "
                       "that is too strict is caught only as a message that is never forwarded (limiter.stuck)",
                       "real-time order rules need global stamps and are skipped in the tsan variant, which instead checks the happens-before edge between the "
                       "producer's plain payload write and the sink's read and the exclusion of the serial sinks"]
    q = tier == "quick"
    tmo = 900 if q else 3000
    phases = [
        Phase("rel-hot", "c15", "rel", 72000 if q else 720000, procs=6 if q else 12, min_nontrivial=20000, timeout=tmo),
        Phase("rel-2cpu", "c15", "rel", 6000 if q else 60000, procs=2 if q else 4, cpus=2, timeout=tmo),
        Phase("rel-1cpu", "c15", "rel", 3000 if q else 30000, procs=2 if q else 4, cpus=1, timeout=tmo),
        Phase("dbg-hot", "c15", "dbg", 15000 if q else 200000, procs=3 if q else 8, timeout=tmo),
        Phase("tsan", "c15", "tsan", 6000 if q else 80000, procs=3 if q else 8, timeout=max(tmo, 1500)),
    ]
    if not q:
        phases.append(Phase("asan", "c15", "asan", 100000, procs=6, timeout=tmo))
        for c in CLASSES:
            phases.append(Phase("rel-" + c, "c15", "rel", 30000, procs=1, args=["--mode", c], timeout=tmo))
        phases.append(Phase("rel-16", "c15", "rel", 100000, procs=4, args=["--conc", "16"], timeout=tmo))
        phases.append(Phase("dbg-ring", "c15", "dbg", 40000, procs=2, args=["--mode", "ring"], timeout=tmo))
    run_phases(chk, phases, seed, scale)
    h, st = chk.hooks, chk.stats
    sc = max(0.05, float(scale)) * (1.0 if q else 8.0)

    def hn(i):
        return h.get(str(i), {}).get("n", 0)

    def hh(i):
        return h.get(str(i), {}).get("h", [0] * 8)
    # every contract must have been exercised, and concurrently
    for c in CLASSES:
        n, nt = st.get("scenarios_" + c, 0), st.get("nontrivial_" + c, 0)
        chk.require(n >= 1000 * sc, "class %s ran only %d scenarios" % (c, n))
        need = 0.15 if c == "ring" else 0.4
        chk.require(nt >= need * n, "class %s: only %d of %d scenarios were observably concurrent" % (c, nt, n))
    # the windows the contracts are about must have been entered
    req = [("q_released", 3000, "queue_node reservations released"), ("seq_dups_rejected", 20000, "sequencer puts rejected as duplicates"),
           ("prio_gated", 300, "priority scenarios with a blocked successor"), ("prio_pairs_checked", 100000, "priority order pairs checked"),
           ("resv_competitor_items", 10000, "items taken by a competitor of a reserving join"), ("resv_tuples", 50000, "reserving-join tuples"),
           ("jq_tuples", 50000, "queueing-join tuples"), ("jk_tuples", 20000, "key-matching tuples"), ("jk_unmatched", 2000, "unmatched key-matching messages"),
           ("lim_inline_decs", 20000, "limiter decrements issued from inside the sink body (early-decrement path)"), ("lim_ext_decs", 10000, "limiter decrements from external threads"),
           ("limb_multi_batches", 5000, "limiter_node<T,int>: decrements with delta >= 2"), ("limb_inline_batches", 3000, "limiter_node<T,int>: batch decrements sent from inside the limiter's own put"),
           ("limb_at_threshold", 5000, "limiter_node<T,int>: sink entries at a full threshold"),
           ("lim_at_threshold", 20000, "sink entries at a full threshold"), ("lim_rejected_puts", 2000, "direct limiter puts rejected at the threshold"),
           ("ow_late", 2000, "late successors of overwrite/write_once nodes"), ("wo_rejected", 10000, "write_once puts after the first"),
           ("buffer_grows_with_reservation_outstanding", 300, "item_buffer grows while a reservation was outstanding"), ("ring_wraps", 5000, "ring wrap-arounds"),
           ("ring_get_while_reserved_refused", 1000, "try_get refused while a reservation was outstanding"), ("task_puts", 10000, "puts issued from graph tasks")]
    for k, need, what in req:
        chk.require(st.get(k, 0) >= need * sc, "%s: only %d (needs %d)" % (what, st.get(k, 0), int(need * sc)))
    wired = wired_flow_hooks()
    hook_req = {180: 20000, 181: 50000, 182: 200000, 183: 50000, 184: 50000, 185: 5000, 186: 20000, 171: 500000}
    for hid, need in hook_req.items():
        if hid >= 180 and hid not in wired:
            continue
        chk.require(hn(hid) >= need * sc, "hook %d reached only %d times (needs %d)" % (hid, hn(hid), int(need * sc)))
    chk.extra["flow_graph_hooks_wired"] = sorted(wired)
    chk.extra["per_contract"] = {c: {"scenarios": st.get("scenarios_" + c, 0), "observably_concurrent": st.get("nontrivial_" + c, 0)} for c in CLASSES}
    chk.extra["windows"] = {
        "aggregator_batches_grabbed": hn(171),
        "successor_rejected_edge_flips[broadcast,round_robin,other]": hh(180)[:3],
        "predecessor_pulls[get,get_failed,reserve,reserve_failed]": hh(181)[:4],
        "forwarder[task,after_body,after_buffer_put]": hh(182)[:3],
        "limiter_forward[tries,accepted_before_count,failed,put_before,put_after]": hh(183)[:5],
        "limiter_decrement[entry,before_forward]": hh(184)[:2],
        "limiter_decrements_from_inside_the_sink_body(early path)": st.get("lim_inline_decs", 0),
        "limiter_external_decrements": st.get("lim_ext_decs", 0),
        "limiter_sink_entries_at_full_threshold": st.get("lim_at_threshold", 0),
        "limiter_int_decrementer[delivered, batches, batches with delta>=2, batches from inside the limiter's put, sink entries at full threshold]": [st.get("limb_delivered", 0), st.get("limb_batches", 0), st.get("limb_multi_batches", 0), st.get("limb_inline_batches", 0), st.get("limb_at_threshold", 0)],
        "limiter_direct_puts_rejected": st.get("lim_rejected_puts", 0),
        "join_reserve_all_failures_and_rejected_tuples(hook 185)": hn(185),
        "join_reserve[tuple_rejected_by_successor, port_reserved_then_lower_port_failed...]": hh(185)[:5],
        "buffer_grows_beyond_initial": st.get("buffer_grows_beyond_initial", 0),
        "buffer_grows_with_reservation_outstanding": st.get("buffer_grows_with_reservation_outstanding", 0),
        "max_buffer_size": st.get("max_buffer_size", 0),
        "ring_ops": st.get("ring_ops", 0), "ring_wraps": st.get("ring_wraps", 0),
        "try_get_refused_while_reserved": st.get("ring_get_while_reserved_refused", 0),
        "queue_reservations[made,released]": [st.get("q_reserved", 0), st.get("q_released", 0)],
        "sequencer[accepted,rejected_duplicates]": [st.get("seq_accepted", 0), st.get("seq_dups_rejected", 0)],
        "priority[blocked_successor_scenarios,order_pairs_checked]": [st.get("prio_gated", 0), st.get("prio_pairs_checked", 0)],
        "tuples[reserving,queueing,key_matching]": [st.get("resv_tuples", 0), st.get("jq_tuples", 0), st.get("jk_tuples", 0)],
        "key_matching[puts_on_waiting_key,unmatched_left]": [st.get("jk_dup_rejected", 0), st.get("jk_unmatched", 0)],
        "items_taken_by_competitors_of_reserving_joins": st.get("resv_competitor_items", 0),
        "late_successors": st.get("ow_late", 0), "write_once_puts_refused": st.get("wo_rejected", 0),
        "messages[broadcast,split,indexer]": [st.get("bc_msgs", 0), st.get("sp_msgs", 0), st.get("ix_msgs", 0)],
        "puts_from_graph_tasks": st.get("task_puts", 0),
        "steals": hn(10),
    }
    return chk.finish()
