from vlib import core
from vlib.plan import Phase, run_phases

BUILDS = [dict(name="c04", variant=v) for v in ("rel", "dbg", "tsan")]
RULE = ("scenario = tree of up to ~70 task_group_contexts (bound / isolated / used in another arena / short-lived) built by nested "
        "parallel_for(...,ctx) bodies on many threads of a hot arena while bodies and a foreign thread call cancel_group_execution on own, "
        "ancestor, child (before first use) and random contexts; at quiescence cancelled(c) must equal [c targeted] or [bound-and-used under a "
        "cancelled parent]; <=1 winner per context and exactly 1 if nothing else cancelled it; a context observed cancelled stays so; a context "
        "created after a winning cancel on its bound chain returned must be cancelled once used. non-trivial = >=4 contexts bound on >=2 threads; "
        "distinct = distinct (tree shape, kinds, targets, used) signatures")


def run(tier, seed, scale):
    chk = core.Check("C04", tier, seed)
    chk.rule = RULE
    chk.assumptions = ["store-buffer (TSO) races are exercised only as far as the x86 hardware shows them: volume, not delays, is the lever",
                       "schedules are sampled; delays at the binder/propagator hook points (ids 90-95) widen the lock-protected windows only",
                       "three repairs of DESIGN.md 4.7 are in the tree (fix: commits d79e7e5, a029aa8, 436ae2a)"]
    q = tier == "quick"
    phases = [
        Phase("rel-hot", "c04", "rel", 280000 if q else 3000000, procs=8 if q else 12, min_nontrivial=20000),
        Phase("rel-2cpu", "c04", "rel", 20000 if q else 300000, procs=2 if q else 4, cpus=2),
        # store-buffer windows need raw volume and tight alignment, not delays
        Phase("rel-noperturb", "c04", "rel", 60000 if q else 1000000, procs=2 if q else 6, args=["--perturb", "0"]),
        Phase("rel-sb-litmus", "c04", "rel", 6000000 if q else 60000000, procs=4 if q else 8, args=["--mode", "sb"]),
        Phase("dbg-sb-litmus", "c04", "dbg", 1000000 if q else 10000000, procs=1 if q else 4, args=["--mode", "sb"]),
        Phase("dbg-hot", "c04", "dbg", 40000 if q else 600000, procs=3 if q else 6),
        Phase("tsan", "c04", "tsan", 3000 if q else 60000, procs=3 if q else 8, timeout=1500),
    ]
    run_phases(chk, phases, seed, scale)
    h = chk.hooks
    chk.require(h.get("91", {}).get("h", [0, 0])[1] > 50, "fewer than 50 binds took the locked slow path (bind overlapping a propagation)")
    chk.require(h.get("92", {}).get("n", 0) > 1000, "fewer than 1000 propagations observed")
    chk.require(chk.stats.get("sb_child_found_parent_cancelled", 0) > 10000 and chk.stats.get("sb_child_body_ran_before_cancel", 0) > 10000,
                "store-buffer litmus did not see both orders of bind vs cancel often enough")
    chk.extra["windows"] = {
        "sb_litmus[child_bound_first,cancel_first]": [chk.stats.get("sb_child_body_ran_before_cancel", 0), chk.stats.get("sb_child_found_parent_cancelled", 0)],
        "binds[fast,slow_locked_path]": h.get("91", {}).get("h", [0] * 8)[:2],
        "propagations": h.get("92", {}).get("n", 0),
        "per_thread_lists_walked": h.get("93", {}).get("n", 0),
        "cancel_calls_that_propagated": h.get("95", {}).get("n", 0),
    }
    return chk.finish()
