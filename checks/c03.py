from vlib import core
from vlib.plan import Phase, run_phases

BUILDS = [dict(name="c03", variant=v) for v in ("rel", "dbg", "tsan", "asan")]
RULE = ("fault injection: each call of parallel_for (4 partitioners, Range with throwing copy/split ctors), parallel_reduce and "
        "parallel_deterministic_reduce (Body and functional forms; body, Body-split, Range-copy/split sites), parallel_scan (body, combine), "
        "parallel_for_each + feeder, parallel_invoke (+nested loop), parallel_sort comparator, parallel_pipeline (27 stage-mode mixes), task_group "
        "(flat and nested, run_and_wait), task_arena::execute (direct and delegated), flow graph (function/multifunction/input bodies) gets a throw "
        "plan: 0-3 exceptions with fresh ids at the first / last / random invocation of one site; run in a hot arena under hook delays. Checked at "
        "the catch site: caught id is one that was thrown, nothing swallowed, no body of the call running (RAII live counter) or starting later, "
        "all library-made copies of user objects destroyed (ctor/dtor balance), group / graph reusable; hang = quiescence/spin-stall verdict keyed by "
        "(construct, site). non-trivial = a call in which an exception was actually thrown; distinct = (construct, site, parameters, #throws, bodies run)")


def run(tier, seed, scale):
    chk = core.Check("C03", tier, seed)
    chk.rule = RULE
    chk.assumptions = ["throw positions are sampled (first, last, random; 1-3 concurrent throwers), schedules are sampled",
                       "task memory leaked inside the scheduler's small-object pool is invisible to LeakSanitizer; user-object ctor/dtor counters are the primary 'destroyed exactly once' oracle",
                       "known finding reduce.join-throws-never-returns (join/reduction callback of parallel_reduce / parallel_deterministic_reduce) runs in its own processes"]
    q = tier == "quick"
    phases = [
        Phase("rel", "c03", "rel", 80000 if q else 1200000, procs=8 if q else 12, min_nontrivial=20000),
        Phase("rel-2cpu", "c03", "rel", 8000 if q else 100000, procs=2 if q else 4, cpus=2),
        Phase("dbg", "c03", "dbg", 20000 if q else 300000, procs=3 if q else 6),
        Phase("tsan", "c03", "tsan", 2500 if q else 40000, procs=3 if q else 8, timeout=1500),
        Phase("asan", "c03", "asan", 6000 if q else 100000, procs=3 if q else 8, timeout=1500),
        # known finding: wedges the process at the first join that throws => many small processes
        Phase("rel-join", "c03", "rel", 120 if q else 480, procs=6 if q else 12, args=["--mode", "join"]),
    ]
    run_phases(chk, phases, seed, scale)
    s = chk.stats
    sites = {k[7:]: v for k, v in s.items() if k.startswith("throws.")}
    for need in ("body", "range_copy", "range_split", "body_split", "feeder_item", "filter", "comparator", "combine", "fg_body", "join"):
        chk.require(sites.get(need, 0) > (0 if need == "join" else 100), "throw site '%s' fired only %d times" % (need, sites.get(need, 0)))
    swaps = {k[len("throws_after_context_swap."):]: v for k, v in s.items() if k.startswith("throws_after_context_swap.")}
    for need in ("execute(same arena) then throw", "attach.execute then throw", "graph.wait_for_all then throw", "isolate then throw", "throw inside execute(same arena)"):
        chk.require(swaps.get(need, 0) > 100, "only %d calls threw from a plain body after '%s'" % (swaps.get(need, 0), need))
    chk.extra["throws_from_bodies_that_first_made_the_library_swap_their_context"] = swaps
    chk.extra["throws_by_site"] = sites
    chk.extra["calls_by_construct"] = {k[6:]: v for k, v in s.items() if k.startswith("calls.")}
    chk.extra["calls_with_concurrent_throws"] = s.get("calls_with_concurrent_throws", 0)
    return chk.finish()
