from vlib import core
from vlib.plan import Phase, run_phases

RULE = ("scenario = one fresh container out of ten kinds (concurrent_unordered_map/set/multimap/multiset, concurrent_map/set/multimap/multiset, plus the skip list with a "
        "harness-steered level generator as set and multiset) + 2-4 threads x 4-48 operations (every insert/emplace form incl. hints and insert(first,last), find, contains, "
        "count, full traversals through const and non-const iterators, traversals from find(key) in ordered containers) on 1-64 hot equivalence classes (granularity 1-4: "
        "equivalent but different keys) plus filler keys; a quarter of the scenarios add a second concurrent round after quiescent unsafe_erase / unsafe_extract / node-handle "
        "re-insertion. Unordered: identity / constant / class<<s / class-in-top-bits (adjacent in split order) / multiplicative / base+class*B hashes, tables of 1-64 buckets "
        "pre-filled to 0-3 elements below a doubling threshold or rehash()ed to 256/1024 untouched buckets. Ordered: less / greater / scrambled / odd-before-even comparators, "
        "node heights natural or forced (uniform 1-8, constant, alternating 1/16, rare 32). Hook-driven delays before the list CAS, after a failed CAS, in init_bucket, before a "
        "table doubling, at the level-0 CAS, at every upper-level link and its retry. Oracle: insert-only set model in real-time order (one winner per class in unique containers, "
        "failed inserts see the winner; lookups after a returned insert must hit; count between completed and started inserts; traversals see every element inserted before they "
        "began exactly once, nothing unknown, comparator order), quiescent comparison (contents, size, count/find/contains, bounds, bucket walk, range() splitting, parallel_for "
        "over range()), constructions == destructions. non-trivial = operations of two threads on one class overlapped in time with at least one insert among them, or a traversal "
        "overlapped an insert of another thread; distinct = distinct (container kind, hash/comparator, call/return interleaving with operation kinds and results) signatures of such scenarios")

BUILDS = [dict(name="c12", variant=v) for v in ("rel", "dbg", "tsan", "asan")]


def run(tier, seed, scale):
    chk = core.Check("C12", tier, seed)
    chk.rule = RULE
    chk.assumptions = ["interleavings are sampled (perturbation at hook points and CPU pinning widen windows, nothing is enumerated)", "x86-TSO hardware only; weakened "
                       "release/acquire pairs are visible to the tsan phase only",
                       "a quarter of the rel/dbg/asan scenarios and all tsan scenarios order operations by CLOCK_MONOTONIC with a 2 us margin instead of a global counter",
                       "table doublings exercised from 1, 2, 8, 16, 64 buckets up to 1024; rehash() is called only before the threads start",
                       "unsafe_erase, unsafe_extract, node handles, unsafe_begin/unsafe_end, lower/upper_bound, equal_range, range() are used at quiescent points only",
                       "forced node heights use concurrent_skip_list<set_traits<..., harness level generator, ...>> directly (the public containers fix the generator type)",
                       "non-empty node handles of ordered containers are always re-inserted, never dropped (dropping one frees the node with the wrong size: reported side finding)",
                       "operator[] / at() of the map containers and merge() are not driven"]
    q = tier == "quick"
    phases = [
        Phase("rel-hot", "c12", "rel", 120000 if q else 1200000, procs=6 if q else 10, min_nontrivial=30000 if q else 300000),
        Phase("rel-unordered", "c12", "rel", 30000 if q else 300000, procs=2 if q else 4, args=["--mode", "uo"], min_nontrivial=5000),
        Phase("rel-ordered", "c12", "rel", 30000 if q else 300000, procs=2 if q else 4, args=["--mode", "sl"], min_nontrivial=5000),
        Phase("rel-2cpu", "c12", "rel", 20000 if q else 200000, procs=2 if q else 4, cpus=2, min_nontrivial=1000),
        Phase("rel-1cpu", "c12", "rel", 20000 if q else 200000, procs=2 if q else 4, cpus=1, min_nontrivial=1000),
        Phase("rel-countrace", "c12", "rel", 10000 if q else 100000, procs=2 if q else 4, args=["--mode", "countrace"], min_nontrivial=1000),
        Phase("dbg-hot", "c12", "dbg", 30000 if q else 300000, procs=3 if q else 6, min_nontrivial=5000),
        Phase("tsan", "c12", "tsan", 4500 if q else 60000, procs=3 if q else 8, timeout=1500, min_nontrivial=500),
        # publication rounds: fresh container, inserters + readers with no harness synchronisation inside the round (see harness, mode "pub")
        Phase("tsan-pub", "c12", "tsan", 60000 if q else 600000, procs=3 if q else 8, args=["--mode", "pub"], timeout=1500, min_nontrivial=10000),
        Phase("rel-pub", "c12", "rel", 200000 if q else 2000000, procs=2 if q else 4, args=["--mode", "pub"], min_nontrivial=10000),
    ]
    if not q:
        phases.append(Phase("asan", "c12", "asan", 150000, procs=6, timeout=1500, min_nontrivial=20000))
        phases.append(Phase("asan-1cpu", "c12", "asan", 40000, procs=2, cpus=1, timeout=1500))
        phases.append(Phase("asan-countrace", "c12", "asan", 20000, procs=2, args=["--mode", "countrace"], timeout=1500))
        phases.append(Phase("dbg-1cpu", "c12", "dbg", 100000, procs=2, cpus=1))
        phases.append(Phase("dbg-forced-levels", "c12", "dbg", 100000, procs=2, args=["--mode", "forced"]))
        phases.append(Phase("rel-4threads", "c12", "rel", 300000, procs=4, args=["--threads", "4"]))
        phases.append(Phase("rel-forced-levels", "c12", "rel", 200000, procs=2, args=["--mode", "forced", "--threads", "4"]))
        phases.append(Phase("tsan-countrace", "c12", "tsan", 8000, procs=2, args=["--mode", "countrace"], timeout=1500))
        phases.append(Phase("asan-pub", "c12", "asan", 400000, procs=4, args=["--mode", "pub"], timeout=1500))
    run_phases(chk, phases, seed, scale)
    h = chk.hooks
    n = lambda i: h.get(str(i), {}).get("n", 0)
    st = chk.stats
    g = lambda k: st.get(k, 0)
    f = 1 if q else 5
    # the windows this property is about must actually have been entered
    chk.require(n(160) > 200000 * f, "split-ordered-list insert CAS reached only %d times" % n(160))
    chk.require(n(161) > 3000 * f, "failed list CAS (two threads on one predecessor) observed only %d times" % n(161))
    chk.require(n(162) > 50000 * f, "init_bucket entered only %d times" % n(162))
    chk.require(n(163) > 5000 * f, "table doubling attempted only %d times" % n(163))
    chk.require(n(164) > 200000 * f, "skip-list level-0 CAS reached only %d times" % n(164))
    chk.require(n(165) > 200000 * f, "skip-list upper-level link reached only %d times" % n(165))
    chk.require(n(166) > 5000 * f, "failed skip-list CAS observed only %d times" % n(166))
    chk.require(g("init_bucket_during_concurrent_phase") > 10000 * f, "only %d buckets were initialised while other threads operated" % g("init_bucket_during_concurrent_phase"))
    chk.require(g("scenarios_table_grew") > 5000 * f, "the bucket table grew during only %d scenarios" % g("scenarios_table_grew"))
    chk.require(g("overlapping_insert_pairs_same_class") > 100000 * f, "only %d overlapping insert pairs on one class" % g("overlapping_insert_pairs_same_class"))
    chk.require(g("failed_unique_inserts") > 100000 * f, "only %d failed inserts into unique containers" % g("failed_unique_inserts"))
    chk.require(g("lookups_after_completed_insert") > 300000 * f, "only %d lookups began after an insert of their class had returned" % g("lookups_after_completed_insert"))
    chk.require(g("traversals_overlapping_an_insert") > 50000 * f, "only %d traversals overlapped an insert of another thread" % g("traversals_overlapping_an_insert"))
    chk.require(g("traversal_must_see_elements") > 2000000 * f, "only %d (traversal, element that had to be seen) pairs were checked" % g("traversal_must_see_elements"))
    chk.require(g("nontrivial_unordered") > 10000 * f and g("nontrivial_ordered") > 10000 * f, "non-trivial scenarios: unordered %d, ordered %d" % (g("nontrivial_unordered"), g("nontrivial_ordered")))
    for kname in ("concurrent_unordered_map", "concurrent_unordered_set", "concurrent_unordered_multimap", "concurrent_unordered_multiset",
                  "concurrent_map", "concurrent_set", "concurrent_multimap", "concurrent_multiset", "skip_list_set[forced levels]", "skip_list_multiset[forced levels]"):
        chk.require(g("kind_" + kname) > 5000 * f, "only %d scenarios on %s" % (g("kind_" + kname), kname))
    chk.require(g("pub_rounds") > 100000 * f and g("pub_concurrent_reads") > 5000000 * f, "publication rounds %d, reads concurrent with inserts %d" % (g("pub_rounds"), g("pub_concurrent_reads")))
    for sz in ("0", "1", "2", "3", "n"):
        chk.require(g("parallel_range_size_" + sz) > 100, "parallel_for over range() of a container with %s elements ran only %d times" % (sz, g("parallel_range_size_" + sz)))
    h165 = h.get("165", {}).get("h", [0] * 8)
    chk.extra["windows"] = {
        "solist_insert_cas_attempts": n(160),
        "solist_cas_failures": n(161),
        "init_bucket_calls": n(162),
        "init_bucket_calls_while_other_threads_operated": g("init_bucket_during_concurrent_phase"),
        "rounds_with_init_bucket_racing_operations": g("rounds_with_init_bucket_racing_operations"),
        "table_doubling_attempts": n(163),
        "scenarios_table_grew_during_history": g("scenarios_table_grew"),
        "max_buckets": g("max_buckets"),
        "skiplist_level0_cas_attempts": n(164),
        "skiplist_upper_level_links": n(165),
        "skiplist_upper_level_links_by_level_1_2_3_4_5_6plus": h165[1:7],
        "skiplist_cas_failures": n(166),
        "cas_failures_during_concurrent_phases": g("cas_failures_during_concurrent_phase"),
        "overlapping_pairs_same_class": g("overlapping_pairs_same_class"),
        "overlapping_insert_pairs_same_class": g("overlapping_insert_pairs_same_class"),
        "classes_with_2plus_inserts": g("classes_with_2plus_inserts"),
        "failed_unique_inserts": g("failed_unique_inserts"),
        "lookups_started_after_a_completed_insert": g("lookups_after_completed_insert"),
        "traversals": g("traversals"),
        "traversals_overlapping_an_insert": g("traversals_overlapping_an_insert"),
        "traversal_must_see_pairs_checked": g("traversal_must_see_elements"),
        "publication_rounds(fresh container, unsynchronised inserters+readers)": g("pub_rounds"),
        "publication_round_insert_attempts/successes/concurrent_reads": [g("pub_insert_attempts"), g("pub_successful_inserts"), g("pub_concurrent_reads")],
        "operations": g("ops"),
        "rounds": g("rounds"),
        "quiescent_mutation_rounds": g("quiescent_mutation_rounds"),
        "quiescent_erase_key/erase_iterator/extract": [g("quiescent_erase_key"), g("quiescent_erase_iterator"), g("quiescent_extract")],
        "deep_quiescent_probes": g("deep_quiescent_probes"),
        "bucket_walks": g("bucket_walks"),
        "range_split_pieces": g("range_pieces"),
        "parallel_for_range_traversals_by_size": {sz: g("parallel_range_size_" + sz) for sz in ("0", "1", "2", "3", "n")},
        "scenarios_by_container": {k[len("kind_"):]: v for k, v in st.items() if k.startswith("kind_")},
        "scenarios_by_hash": {k[len("hash_"):]: v for k, v in st.items() if k.startswith("hash_")},
        "scenarios_by_comparator": {k[len("cmp_"):]: v for k, v in st.items() if k.startswith("cmp_")},
        "scenarios_with_ns_clock": g("scenarios_ns_clock"),
    }
    return chk.finish()
