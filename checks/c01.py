from vlib import core
from vlib.plan import Phase, run_phases

RULE = ("scenario = random task tree (task_group run/defer/run_and_wait, tasks submitting tasks, parallel_for x4 partitioners, "
        "parallel_invoke, nested task_arena::execute, isolate, isolate-split (an outer group fed from inside a nested isolated region and waited for outside it, "
        "while an inner group is waited for with the other isolation's tasks in the pool), enqueued task_handles, fire-and-forget enqueue; 1-200 units with unique ids) "
        "run by 1-4 external threads at once in a hot arena of 1-16 slots under hook-driven delays; checked after every wait: each unit in the "
        "construct's id range ran exactly once (or was skipped exactly once under a cancelled group), its plain payload is visible, its exit "
        "stamp precedes the wait's return. non-trivial = units of one scenario ran on >= 2 threads; distinct = distinct "
        "(tree shape, unit->thread assignment) signatures")


BUILDS = [dict(name="c01", variant=v) for v in ("rel", "dbg", "tsan")]


def run(tier, seed, scale):
    chk = core.Check("C01", tier, seed)
    chk.rule = RULE
    chk.assumptions = ["interleavings are sampled (perturbation widens windows, nothing is enumerated)", "x86-TSO hardware only",
                       "tsan variant checks happens-before of the payload writes; monitors there use no global stamps"]
    q = tier == "quick"
    phases = [
        Phase("rel-hot", "c01", "rel", 120000 if q else 1500000, procs=6 if q else 12, min_nontrivial=2000),
        Phase("rel-2cpu", "c01", "rel", 30000 if q else 300000, procs=2 if q else 4, cpus=2),
        Phase("rel-1cpu", "c01", "rel", 10000 if q else 150000, procs=2 if q else 4, cpus=1),
        Phase("dbg-hot", "c01", "dbg", 40000 if q else 600000, procs=3 if q else 8),
        Phase("tsan", "c01", "tsan", 3000 if q else 60000, procs=3 if q else 8, timeout=1500),
    ]
    if not q:
        phases.append(Phase("asan", "c01", "asan", 80000, procs=6, timeout=1500))
        phases.append(Phase("rel-nocancel-16", "c01", "rel", 400000, procs=4, args=["--cancel", "0", "--conc", "16"]))
    run_phases(chk, phases, seed, scale)
    # the windows this property is about must actually have been entered
    h = chk.hooks
    chk.require(h.get("10", {}).get("n", 0) > 1000, "fewer than 1000 steals observed")
    chk.require(h.get("2", {}).get("n", 0) > 100, "owner/thief arbitration window entered fewer than 100 times")
    chk.require(h.get("20", {}).get("n", 0) > 100, "mailbox/proxy claims observed fewer than 100 times")
    chk.require(chk.stats.get("isolate_split_inner_waits_with_foreign_tasks_in_pool", 0) > 500, "fewer than 500 waits with tasks of another isolation in the waiter's pool")
    chk.extra["windows"] = {
        "isolate_split_constructs": chk.stats.get("isolate_split_constructs", 0),
        "waits_with_tasks_of_another_isolation_in_the_pool": chk.stats.get("isolate_split_inner_waits_with_foreign_tasks_in_pool", 0),
        "steals": h.get("10", {}).get("n", 0),
        "owner_thief_arbitration[thief_won,single_task,more_tasks]": h.get("2", {}).get("h", [0] * 8)[:3],
        "proxy_claims": h.get("20", {}).get("n", 0),
        "deque_relocations": h.get("7", {}).get("n", 0),
        "delegated_execute": h.get("72", {}).get("n", 0),
    }
    return chk.finish()
