from vlib import core
from vlib.plan import Phase, run_phases

RULE = ("scenario classes on real concurrent_priority_queue objects (fresh queue per scenario built by the default / iterator-range / capacity constructor, "
        "0-24 prefilled elements as the model's initial state, values = priority<<20|unique id compared by priority only, 1-64 priority levels so ties are "
        "common, per-thread priority sequences random / ascending run / descending run / constant; delays at the aggregator hooks 'operation pushed' (170) and "
        "'handler about to grab the pending list' (171) make batches large): L = random 2-4 threads x 3-12 operations (push(const&), push(&&), emplace, try_pop); "
        "the recorded history plus the coordinator's quiescent drain (one operation) is decided by the WGL linearizability search against a multiset model "
        "(try_pop may return any maximal element, fails only on the empty multiset; budget => inconclusive) plus aspect checks (conservation, no moved-from / "
        "torn element, size()/empty() at quiescence, sorted drain, element construction/destruction balance); S = 2-8 threads x 200-1500 operations decided by "
        "O(n log n) aspect checks incl. the necessary condition 'no try_pop returns x (or empty) while a higher-priority (any) y was pushed before the call and "
        "popped only after it'; K = element with a copy constructor throwing at copy index k for every k (noexcept moves): exactly the pushes whose copy threw "
        "end with an exception, they are no-ops in the model, everything else as L; G = the same for a copy-only element restricted to the copy from the "
        "caller's object (always inside the guarded push_back); A = throw at the k-th throwing-capable copy/move at any site (throwing move assignment, or "
        "copy-only element: try_pop assignment, heapify, reheap, reallocation), in processes of their own. Two clock modes: global sequence counter, or "
        "CLOCK_MONOTONIC with a 2 us margin (weaker order, no fence between operations; always in tsan). non-trivial = at least two operations of different "
        "threads overlapped in time (S: >= 5 % of the operations had another thread's call inside them); distinct = distinct call/return interleaving "
        "signatures (order of call and return events across threads) per class")

BUILDS = [dict(name="c13", variant=v) for v in ("rel", "dbg", "tsan", "asan")]


def run(tier, seed, scale):
    chk = core.Check("C13", tier, seed)
    chk.rule = RULE
    chk.assumptions = [
        "interleavings are sampled (perturbation at the two aggregator hooks widens the batching windows, nothing is enumerated); x86-TSO hardware only",
        "which caller a throw belongs to is decided by address: a copy/move whose source is the object passed to push/emplace, or whose destination is the object "
        "passed to try_pop, belongs to that call; other copies/moves (heapify, reheap, reallocation) belong to no single caller and any one caller may receive the exception",
        "the exception type seen by the caller is not constrained (the library turns a failed push_back into std::bad_alloc)",
        "class A contains the known genuine defect cpq.throw-outside-guarded-push_back-wedges-handler (known_findings.json); it runs in processes of its own, "
        "every such process ends at its first throw outside the guarded push_back, and only the listed keys are tolerated",
        "hang verdicts come from the watchdog (quiescence or CPU-time spin-stall) plus the harness-side predicate 'a thread is inside push/emplace/try_pop', "
        "operations that never block by contract",
        "batch evidence (sizes, mixed batches, delegated operations) is reconstructed from element copies/moves attributed to operations between two 'about to grab' "
        "hook markers; try_pops that found the queue empty touch no element and are not counted in batch sizes",
    ]
    q = tier == "quick"
    t_wedge = 900
    phases = [
        Phase("rel-mix", "c13", "rel", 60000 if q else 480000, procs=6 if q else 10, min_nontrivial=8000),
        Phase("rel-2cpu", "c13", "rel", 6000 if q else 40000, procs=2 if q else 3, cpus=2),
        Phase("rel-1cpu", "c13", "rel", 2500 if q else 16000, procs=1 if q else 2, cpus=1),
        Phase("dbg-mix", "c13", "dbg", 16000 if q else 160000, procs=2 if q else 5),
        Phase("tsan-mix", "c13", "tsan", 2400 if q else 30000, procs=2 if q else 5, timeout=1500),
        # class A wedges the process at the first throw outside the guarded push_back (known defect): one verdict per process
        Phase("rel-A", "c13", "rel", 40, procs=4 if q else 8, args=["--mode", "A"], timeout=t_wedge),
    ]
    if not q:
        phases += [
            Phase("asan-mix", "c13", "asan", 60000, procs=4, timeout=1500),
            Phase("rel-L", "c13", "rel", 240000, procs=3, args=["--mode", "L"]),
            Phase("rel-S", "c13", "rel", 6000, procs=3, args=["--mode", "S"]),
            Phase("rel-K", "c13", "rel", 120000, procs=2, args=["--mode", "K"]),
            Phase("rel-G", "c13", "rel", 60000, procs=2, args=["--mode", "G"]),
            Phase("dbg-K", "c13", "dbg", 40000, procs=2, args=["--mode", "K"]),
            Phase("tsan-K", "c13", "tsan", 8000, procs=2, args=["--mode", "K"], timeout=1500),
            Phase("tsan-S", "c13", "tsan", 300, procs=2, args=["--mode", "S"], timeout=1500),
            Phase("asan-K", "c13", "asan", 20000, procs=2, args=["--mode", "K"], timeout=1500),
            Phase("dbg-A", "c13", "dbg", 40, procs=3, args=["--mode", "A"], timeout=t_wedge),
            Phase("asan-A", "c13", "asan", 40, procs=2, args=["--mode", "A"], timeout=t_wedge),
        ]
    run_phases(chk, phases, seed, scale)

    st, h = chk.stats, chk.hooks

    def hn(i):
        return h.get(str(i), {}).get("n", 0)

    def hb(i, b):
        return h.get(str(i), {}).get("h", [0] * 8)[b]

    sc = min(1.0, scale)
    need_L = (8000 if q else 100000) * sc
    chk.require(st.get("wgl_ok_L", 0) >= need_L, "only %d class-L histories were decided by the linearizability checker (needs %d)" % (st.get("wgl_ok_L", 0), need_L))
    chk.require(st.get("short_histories_overlapping", 0) * 2 >= st.get("short_histories_checked", 1), "fewer than half of the short histories had overlapping operations")
    chk.require(st.get("S_concurrent_ops", 0) >= 20000 * sc, "stress histories saw fewer than 20000 overlapping operations")
    chk.require(hb(170, 0) >= 5000 * sc, "fewer than 5000 operations were handed to another thread's handler (hook 170, arg 0)")
    chk.require(hn(171) >= 10000 * sc, "the 'handler about to grab' hook (171) was reached fewer than 10000 times")
    chk.require(st.get("batches_multi", 0) >= 5000 * sc, "fewer than 5000 batches of two or more operations were observed")
    chk.require(st.get("batches_mixed_push_pop", 0) >= 2000 * sc, "fewer than 2000 batches contained both pushes and pops")
    chk.require(st.get("ops_executed_by_other_thread", 0) >= 5000 * sc, "fewer than 5000 operations were executed by a thread other than their caller")
    chk.require(st.get("K_operations_ended_with_exception", 0) >= 300 * sc, "class K: fewer than 300 pushes ended with the injected exception")
    chk.require(st.get("G_operations_ended_with_exception", 0) >= 150 * sc, "class G: fewer than 150 pushes ended with the injected exception")
    a_started = st.get("scenarios_started_A", 0)
    a_decided = st.get("A_wedged", 0) + st.get("A_injected_throws", 0)
    chk.require(a_started >= 2 and a_decided >= 1, "class A was not exercised (started %d scenarios, %d reached an injected throw)" % (a_started, a_decided))
    chk.extra["windows"] = {
        "histories_decided_by_wgl": {c: st.get("wgl_ok_" + c, 0) for c in "LKGA"},
        "wgl_budget_exceeded(inconclusive)": st.get("wgl_budget", 0),
        "short_histories_with_overlap": st.get("short_histories_overlapping", 0),
        "overlapping_pairs_per_short_history": round(st.get("overlapping_pairs", 0) / max(1, st.get("short_histories_checked", 1)), 2),
        "stress_histories": st.get("scenarios_S", 0), "stress_ops": st.get("S_ops", 0), "stress_overlapping_ops": st.get("S_concurrent_ops", 0),
        "aggregator_op_pushed[waits_for_handler,becomes_handler]": [hb(170, 0), hb(170, 1)],
        "handler_grabs": hn(171),
        "batch_size_histogram(element-touching ops)": {k: st.get("batch_size_" + k, 0) for k in ("1", "2", "3", "4", "5_8", "9plus")},
        "largest_batch": st.get("max_batch", 0),
        "batches_with_pushes_and_pops": st.get("batches_mixed_push_pop", 0),
        "pops_served_with_a_value_pushed_in_the_same_batch": st.get("pops_served_from_same_batch_push", 0),
        "operations_executed_by_another_thread": st.get("ops_executed_by_other_thread", 0),
        "try_pop_empty": st.get("try_pop_empty", 0),
        "injected_throws": {c: st.get(c + "_injected_throws", 0) for c in "KGA"},
        "operations_ended_with_exception": {c: st.get(c + "_operations_ended_with_exception", 0) for c in "KGA"},
        "class_A": {"scenarios_started": a_started, "processes_wedged(known defect)": st.get("A_wedged", 0), "scenarios_completed_without_throw": st.get("A_scenarios_without_throw", 0),
                    "scenarios_completed_after_throw": st.get("A_injected_throws", 0)},
        "hook_delays": st.get("hook_delays", 0),
    }
    return chk.finish()
