from vlib import core
from vlib.plan import Phase, run_phases

BUILDS = [dict(name="c02", variant=v) for v in ("rel", "dbg", "tsan")]
RULE = ("scenario families that must complete by the library's contract, run in SILENT arenas (no unrelated traffic that could rescue a sleeper): "
        "group (task_group/parallel_for wait whose last unit finishes on a worker after the waiter's spin budget), cbq (capacity 1-3 "
        "concurrent_bounded_queue ping-pong), mutex (tbb::mutex / rw_mutex hand-off chains with holds long enough to sleep), execute "
        "(task_arena::execute into saturated arenas), enqueue (fire-and-forget into arena shapes (1,1),(1,0),(2,1),(n,0),(n,r<n), several "
        "priorities, zero-worker limit, global_control toggled; the submitter blocks on a plain condition variable), resume (suspended task "
        "resumed by a foreign thread while the group's waiter sleeps). Verdict = quiescence (every thread asleep and unscheduled for 1.5 s) or "
        "spin-stall (10 s CPU per runnable thread without progress) before completion; never wall clock. non-trivial = a waiter really slept in "
        "a library monitor (sleep registry) / enqueued work ran on another thread; distinct = (family, parameters, waiter's prepare/commit/"
        "cancel/sleep transition counts) signatures")


def run(tier, seed, scale):
    chk = core.Check("C02", tier, seed)
    chk.rule = RULE
    chk.assumptions = ["'eventually' is restated as: never quiescent / spin-stalled before completion",
                       "store->load reordering around a missing full fence is exercised only as far as x86 hardware reorders; a dropped fence that is "
                       "still adjacent to a locked RMW is observationally invisible here; TSan does not model fences",
                       "spawned (not enqueued) work staying unstolen is legal and not judged"]
    q = tier == "quick"
    n = 1
    phases = [
        Phase("rel", "c02", "rel", 4000 if q else 60000, procs=8 if q else 12, min_nontrivial=1500),
        Phase("rel-1cpu", "c02", "rel", 500 if q else 8000, procs=2 if q else 4, cpus=1),
        Phase("rel-2cpu", "c02", "rel", 800 if q else 12000, procs=2 if q else 4, cpus=2),
        Phase("rel-noperturb", "c02", "rel", 1500 if q else 20000, procs=2 if q else 4, args=["--perturb", "0"]),
        Phase("dbg", "c02", "dbg", 1200 if q else 20000, procs=3 if q else 6),
        Phase("tsan", "c02", "tsan", 250 if q else 5000, procs=3 if q else 8, timeout=1500),
    ]
    run_phases(chk, phases, seed, scale)
    s, h = chk.stats, chk.hooks
    for fam, key, need in (("group", "group.waiter_really_slept", 100), ("cbq", "cbq.sleeps", 1000), ("execute", "execute.callers_slept_waiting_for_a_slot", 1000), ("execute_recall", "execute_recall.callers_slept_waiting_for_a_slot", 300), ("execute_handover", "execute_handover.scenarios_with_two_sleepers_queued", 300),
                           ("enqueue", "enqueue.tasks_run_by_another_thread", 1000), ("enqueue(>32 slots)", "enqueue.scenarios_with_an_arena_of_more_than_32_slots", 100), ("resume", "resume.waiter_really_slept", 100), ("mutex", "mutex.mutex.sleeps", 300)):
        chk.require(s.get(key, 0) >= need * (1 if q else 5) * min(1.0, scale), "family %s: only %d real sleeps/hand-offs observed (%s)" % (fam, s.get(key, 0), key))
    chk.extra["sleeps"] = {k: v for k, v in s.items() if "sleep" in k or "slept" in k or "another_thread" in k}
    chk.extra["windows"] = {
        "monitor_prepare_wait": h.get("50", {}).get("n", 0), "committed_waits": h.get("52", {}).get("n", 0), "cancelled_waits": h.get("53", {}).get("n", 0),
        "notify_calls[waitset_nonempty,waitset_empty]": h.get("54", {}).get("h", [0] * 8)[:2],
        "advertise_new_work[spawned,wakeup,enqueued]": h.get("58", {}).get("h", [0] * 8)[:3],
        "out_of_work_calls": h.get("60", {}).get("n", 0), "worker_sleeps": h.get("61", {}).get("n", 0),
        "serializer_updates[aggregated,became_handler]": h.get("102", {}).get("h", [0] * 8)[:2],
    }
    return chk.finish()
