from vlib import core
from vlib.plan import Phase, run_phases

RULE = ("scenario = one flow graph. Class G (72% of the mixed phases): random DAG of 1-14 composite nodes drawn from 20 kinds (function_node queueing / "
        "lightweight / queueing_lightweight with limits serial,2,3,unlimited; buffer->rejecting function_node (also rejecting_lightweight); queue, buffer, "
        "priority_queue, sequencer, broadcast, overwrite nodes; buffer->limiter->worker->{out, decrement feedback}; multifunction_node (3 policies) routing "
        "by id to 2 ports; function->split_node; indexer_node->adapter; broadcast->{arms}->join_node (queueing / reserving / key_matching)->adapter; "
        "async_node completed by 2 foreign threads after random delays; function->continue_node (1-2 predecessors, also lightweight); buffer->2-3 rejecting "
        "workers->broadcast; input_node, input_node->rejecting function_node; non-buffering sender->{rejecting first successor that may lose what it rejects, accepting second successor that must still get everything}), every composite input accepts, single-receiver senders get one successor, "
        "so the expected invocation count of every body for every message id (and the content of terminal buffers) follows from the wiring and is "
        "propagated through it; 1-300 messages put by 1-6 external threads (inside or outside the arena) and produced by input_nodes, 1-3 put/wait_for_all "
        "rounds on the same graph, in 25% a wait_for_all racing the putters, arenas of 1-16 slots kept hot, hook-driven delays at the flow-graph, aggregator "
        "and wait-tree hooks. Class L (14%): external puts straight into rejecting / limiting / write-once nodes, a body must run exactly as often as "
        "the put was reported accepted. Class C (14%): the k-th body invocation cancels the graph or throws; nothing runs or starts after wait_for_all, "
        "no duplicates, and after graph::reset() a clean round conserves. non-trivial = bodies of the graph ran on >= 2 threads, >= 2 messages; "
        "distinct = distinct (topology, per-body maximum concurrency, processing order at serial bodies, thread count, accepted-put count) signatures")

BUILDS = [dict(name="c14", variant=v) for v in ("rel", "dbg", "tsan", "asan")]


def run(tier, seed, scale):
    chk = core.Check("C14", tier, seed)
    chk.rule = RULE
    chk.assumptions = ["interleavings are sampled (delays in bodies and at hooks widen windows, nothing is enumerated)", "x86-TSO hardware only",
                       "only graphs whose expected outputs are computable from the wiring (rejecting nodes, limiters and reserving joins sit behind a buffering "
                       "node, single-receiver senders have one successor); lossy combinations only for 'rejected is reported' and the concurrency limits",
                       "exceptions: only 'no body starts after wait_for_all ended, no duplicate, reusable after reset' (delivery of the exception is C03's)",
                       "ordering contracts of the buffering nodes are C15's; here only conservation",
                       "tsan variant: no global stamps; it checks the happens-before edges put -> body (payload word), body -> body of a serial node "
                       "(plain state) and body -> wait_for_all return"]
    q = tier == "quick"
    tmo = 900 if q else 3000
    phases = [
        Phase("rel-hot", "c14", "rel", 21000 if q else 220000, procs=6 if q else 12, min_nontrivial=4000, timeout=tmo),
        Phase("rel-2cpu", "c14", "rel", 3000 if q else 40000, procs=2 if q else 4, cpus=2, timeout=tmo),
        Phase("rel-1cpu", "c14", "rel", 1500 if q else 20000, procs=2 if q else 4, cpus=1, timeout=tmo),
        Phase("dbg-hot", "c14", "dbg", 7500 if q else 90000, procs=3 if q else 8, timeout=tmo),
        Phase("rel-lossy", "c14", "rel", 12000 if q else 120000, procs=1 if q else 3, args=["--mode", "L"], timeout=tmo),
        Phase("rel-cancel", "c14", "rel", 2000 if q else 30000, procs=1 if q else 3, args=["--mode", "C"], timeout=tmo),
        # lossy topology 4 (direct puts into a limiter that also pulls from a queue) exposed fix c2a9c55 (limiter_node::try_put true for a dropped message): kept as a focused phase
        Phase("rel-L3", "c14", "rel", 2500 if q else 30000, procs=1 if q else 3, args=["--mode", "L3"], timeout=tmo),
        Phase("tsan", "c14", "tsan", 1200 if q else 15000, procs=3 if q else 8, timeout=max(tmo, 1500)),
    ]
    if not q:
        phases.append(Phase("asan", "c14", "asan", 24000, procs=6, timeout=tmo))
        phases.append(Phase("dbg-lossy", "c14", "dbg", 60000, procs=2, args=["--mode", "L"], timeout=tmo))
        phases.append(Phase("rel-16", "c14", "rel", 40000, procs=4, args=["--conc", "16", "--mode", "G"], timeout=tmo))
    run_phases(chk, phases, seed, scale)
    h, st = chk.hooks, chk.stats

    def hn(i):
        return h.get(str(i), {}).get("n", 0)

    def hh(i):
        return h.get(str(i), {}).get("h", [0] * 8)
    sc = max(0.2, min(1.0, scale))
    # the windows this property is about must actually have been entered
    chk.require(hn(180) > 2000 * sc, "fewer than 2000 successor rejections / edge flips (hook 180: %d)" % hn(180))
    chk.require(hh(180)[0] > 200 * sc and hh(180)[1] > 200 * sc, "rejections seen by broadcasting senders %d / by single-receiver (buffering) senders %d: too few" % (hh(180)[0], hh(180)[1]))
    chk.require(hn(181) > 5000 * sc, "fewer than 5000 predecessor pulls (hook 181: %d)" % hn(181))
    chk.require(hh(181)[1] > 100 * sc and hh(181)[3] > 100 * sc, "too few failed pulls / failed reservations that flipped an edge back (%d / %d)" % (hh(181)[1], hh(181)[3]))
    chk.require(hh(182)[0] > 5000 * sc, "fewer than 5000 forwarder task activations (%d)" % hh(182)[0])
    chk.require(hn(183) > 5000 * sc and hn(184) > 2000 * sc, "limiter forward / decrement windows entered too rarely (%d / %d)" % (hn(183), hn(184)))
    chk.require(hn(185) > 20 * sc, "fewer than 20 join reservation failures / rejected tuples (%d)" % hn(185))
    chk.require(hn(186) > 1000 * sc, "fewer than 1000 item-buffer grows (%d)" % hn(186))
    chk.require(hn(187) > 50000 * sc, "fewer than 50000 wait-vertex releases (%d)" % hn(187))
    chk.require(hh(170)[0] > 1000 * sc, "fewer than 1000 aggregator operations handed to another thread's handler (%d)" % hh(170)[0])
    lossy = st.get("messages_a_rejecting_first_successor_of_a_fanout_did_not_get(cumulative per round)", 0)
    chk.require(lossy > 2000 * sc, "a rejecting first successor of a fan-out rejected (and lost) only %d messages" % lossy)
    chk.require(st.get("external_puts_while_bodies_running", 0) > 5000 * sc, "fewer than 5000 external puts while graph bodies were running")
    chk.require(st.get("limited_bodies_that_reached_their_limit", 0) > 3000 * sc, "fewer than 3000 limited bodies that filled their concurrency limit")
    chk.require(st.get("scenarios_bodies_overlapped", 0) > 3000 * sc, "fewer than 3000 graphs with two bodies running at the same time")
    chk.require(st.get("wait_for_all_racing_putters", 0) > 500 * sc, "fewer than 500 wait_for_all calls racing external puts")
    chk.require(st.get("async_completions_from_foreign_threads", 0) > 5000 * sc, "fewer than 5000 async completions from foreign threads")
    chk.require(st.get("lossy_external_puts_accepted", 0) > 1000 * sc and st.get("lossy_external_puts_rejected", 0) > 1000 * sc, "lossy class: accepted %d / rejected %d external puts: too few" % (
        st.get("lossy_external_puts_accepted", 0), st.get("lossy_external_puts_rejected", 0)))
    chk.require(st.get("cancels_fired", 0) > 100 * sc and st.get("throws_fired", 0) > 100 * sc, "cancel fired %d times, throw %d times: too few" % (st.get("cancels_fired", 0), st.get("throws_fired", 0)))
    chk.require(st.get("resets_followed_by_clean_round", 0) > 200 * sc, "fewer than 200 reset + clean round checks")
    for k, v in st.items():
        if k.startswith("nodes_") or k.startswith("lossy_topology_"):
            chk.require(v > 50 * sc, "%s was built only %d times" % (k, v))
    chk.extra["fanout_first_successor_rejected_while_second_must_get_everything"] = lossy
    chk.extra["windows"] = {
        "successor_rejections[broadcasting sender, single-receiver sender, async gateway]": hh(180)[:3],
        "predecessor_pulls[try_get, get failed -> edge back to push, try_reserve, reserve failed]": hh(181)[:4],
        "forwarder[task activations, body done before the slot is returned, item buffered before the forwarder is spawned]": hh(182)[:3],
        "limiter_forward[pull start, accepted before count, failure, put start, put outcome]": hh(183)[:5],
        "limiter_decrements": hn(184),
        "join_reservation_failures_and_rejected_tuples": hn(185),
        "item_buffer_grows": hn(186),
        "wait_vertex[task finalize, release_wait, reserve_wait]": hh(187)[:3],
        "aggregator_ops[handled by another thread, own handler]": hh(170)[:2],
        "external_puts_while_bodies_running": st.get("external_puts_while_bodies_running", 0),
        "limited_bodies": st.get("limited_bodies", 0),
        "limited_bodies_that_reached_their_limit": st.get("limited_bodies_that_reached_their_limit", 0),
        "max_bodies_running_at_once": st.get("max_bodies_running_at_once", 0),
        "wait_for_all_returns_checked": st.get("wait_for_all_returns_checked", 0),
        "wait_for_all_racing_putters": st.get("wait_for_all_racing_putters", 0),
        "steals": hn(10),
    }
    return chk.finish()
