import os
from vlib import core
from vlib.plan import Phase, run_phases

RULE = ("scenario = one round on fresh mutex object(s) of one kind (spin_mutex, queuing_mutex, mutex, speculative_spin_mutex, spin_rw_mutex, "
        "queuing_rw_mutex, rw_mutex, speculative_spin_rw_mutex): 2-8 persistent threads leave a barrier together and run random sequences of "
        "acquire / try_acquire (read or write) -> section -> [upgrade_to_writer | downgrade_to_reader -> section]* -> release on 1-2 locks through "
        "scoped_lock acquire/release, scoped_lock ctor/dtor and native lock()/try_lock()/lock_shared()/unlock(); hold profiles hot, mixed, "
        "blocking-only (queue-order dense), sleepy (20-1000 us holds: sleeping paths), upgrade-heavy. Class X = random sequences, class T = a certain "
        "holder while the others try_acquire, class U = 2-8 readers that hold together and upgrade at once with writers queuing behind. Checked in "
        "every section: per-thread holder flags (+ atomic holder counters in half of the rounds), two plain protected words (version), upgrade==true "
        "=> version unchanged since the read section, version unchanged across downgrade, sum of write sections == final version; for the queuing "
        "kinds the certain-order FIFO oracle on hook stamps; hangs by quiescence / spin-stall only. non-trivial = at least one blocking acquire was "
        "issued while a conflicting section was in progress, or a try was refused, or two read sections overlapped, or an upgrade returned false; "
        "distinct = distinct (kind, class, threads, per-thread sequence of operation results and protected-counter versions seen) signatures, i.e. "
        "distinct grant interleavings")

BUILDS = [dict(name="c08", variant=v) for v in ("rel", "dbg", "tsan")]

KINDS = ["spin_mutex", "queuing_mutex", "mutex", "speculative_spin_mutex", "spin_rw_mutex", "queuing_rw_mutex", "rw_mutex", "speculative_spin_rw_mutex"]
# Class R (queuing_rw_mutex: upgrade -> downgrade -> upgrade inside one hold while another reader waits in upgrade_to_writer) found a genuine
# defect: the re-upgraded writer found its successor in STATE_UPGRADE_LOSER and released through the branch that does not hand-shake on the
# internal lock; the successor's upgrade_to_writer never returned and every later request blocked (release builds: c08.R.hang.spin-stall /
# c08.R.hang.quiescent; assertion builds: assert.upgrade_to_writer). Repaired by fix 8d13147; the class stays, strict, in processes of its
# own (a hang ends the process), and the other classes produce the pattern too.


def run(tier, seed, scale):
    chk = core.Check("C08", tier, seed)
    chk.rule = RULE
    q = tier == "quick"
    phases = [
        Phase("rel-hot", "c08", "rel", 150000 if q else 1500000, procs=6 if q else 10, min_nontrivial=5000),
        Phase("rel-2cpu", "c08", "rel", 16000 if q else 160000, procs=2 if q else 4, cpus=2),
        Phase("rel-1cpu", "c08", "rel", 10000 if q else 100000, procs=2 if q else 4, cpus=1),
        Phase("rel-fifo-qm", "c08", "rel", 12000 if q else 150000, procs=1 if q else 2, args=["--kind", "queuing_mutex", "--profile", "blocking-only"]),
        Phase("rel-fifo-qrw", "c08", "rel", 12000 if q else 150000, procs=1 if q else 2, args=["--kind", "queuing_rw_mutex", "--profile", "blocking-only"]),
        Phase("rel-sleepy-mutex", "c08", "rel", 1500 if q else 20000, procs=1 if q else 2, args=["--kind", "mutex", "--profile", "sleepy"]),
        Phase("rel-sleepy-rw", "c08", "rel", 1500 if q else 20000, procs=1 if q else 2, args=["--kind", "rw_mutex", "--profile", "sleepy"]),
        Phase("dbg-hot", "c08", "dbg", 45000 if q else 500000, procs=3 if q else 6),
        Phase("tsan", "c08", "tsan", 9000 if q else 120000, procs=3 if q else 6, timeout=1500),
    ]
    if not q:
        phases.append(Phase("asan", "c08", "asan", 120000, procs=6, timeout=1500))
        phases.append(Phase("dbg-2cpu", "c08", "dbg", 60000, procs=3, cpus=2))
        phases.append(Phase("rel-upgrade-storms", "c08", "rel", 200000, procs=3, args=["--cls", "U"]))
        phases.append(Phase("rel-try-under-holder", "c08", "rel", 100000, procs=2, args=["--cls", "T"]))
        for k in KINDS:
            phases.append(Phase("rel-" + k, "c08", "rel", 100000, procs=1, args=["--kind", k]))
            phases.append(Phase("rel-1cpu-" + k, "c08", "rel", 8000, procs=1, args=["--kind", k], cpus=1))
    class_r = "strict (the defect it found is repaired: fix 8d13147)"
    if class_r:
        phases.append(Phase("rel-classR", "c08", "rel", 60000 if q else 400000, procs=2 if q else 4, args=["--cls", "R"]))
        phases.append(Phase("rel-classR-repro", "c08", "rel", 40 if q else 400, procs=1, args=["--repro", "reupgrade"]))
        phases.append(Phase("dbg-classR-repro", "c08", "dbg", 5, procs=1, args=["--repro", "reupgrade"]))
    run_phases(chk, phases, seed, scale)

    st, h = chk.stats, chk.hooks
    def hn(i):
        return h.get(str(i), {}).get("n", 0)
    f = min(1.0, scale) * (1 if q else 5)
    # the windows this property is about must actually have been entered
    for k in KINDS:
        chk.require(st.get("acquisitions." + k, 0) >= 20000 * f, "fewer than %d acquisitions of %s" % (20000 * f, k))
        chk.require(st.get("contended_or_refused." + k, 0) >= 3000 * f, "fewer than %d contended/refused acquisitions of %s" % (3000 * f, k))
    chk.require(st.get("upgrade_true", 0) >= 5000 * f and st.get("upgrade_false", 0) >= 5000 * f, "too few upgrades (true=%d false=%d)" % (st.get("upgrade_true", 0), st.get("upgrade_false", 0)))
    chk.require(st.get("upgrade_storms_with_a_loser", 0) >= 500 * f, "fewer than %d concurrent-upgrade storms in which an upgrader had to give way" % (500 * f))
    chk.require(st.get("downgrades", 0) >= 5000 * f, "too few downgrades")
    chk.require(st.get("requests_on_a_reused_scoped_lock_object", 0) >= 20000 * f, "only %d requests were made through a scoped_lock object that had served an earlier request" % st.get("requests_on_a_reused_scoped_lock_object", 0))
    chk.require(st.get("try_ok", 0) >= 5000 * f and st.get("try_refused", 0) >= 5000 * f, "too few try_acquire outcomes of either kind")
    chk.require(st.get("concurrent_reader_sections", 0) >= 3000 * f, "too few overlapping read sections")
    chk.require(st.get("fifo_pairs.queuing_mutex", 0) >= 200000 * f, "queue-order oracle: too few certain-order pairs on queuing_mutex")
    chk.require(st.get("fifo_pairs.queuing_rw_mutex", 0) >= 100000 * f, "queue-order oracle: too few certain-order pairs on queuing_rw_mutex")
    chk.require(st.get("fifo_blocking_requests_without_witness", 0) == 0, "a blocking acquire of a queuing mutex never reached its queue-entry hook")
    chk.require(st.get("kernel_sleeps_entered", 0) >= 500 * f, "sleeping paths of mutex / rw_mutex entered fewer than %d times" % (500 * f))
    chk.require(st.get("hook_delays", 0) >= 2000 * f, "schedule perturbation delivered fewer than %d delays" % (2000 * f))
    chk.require(st.get("rounds.class_T", 0) >= 1000 * f and st.get("rounds.class_U", 0) >= 1000 * f, "too few class T / class U rounds")
    for i in (120, 121, 122, 123, 124, 125, 63, 64):
        chk.require(hn(i) >= 200 * f, "hook %d reached fewer than %d times" % (i, 200 * f))

    rtm = st.get("cpu_has_rtm", 0) > 0
    txn = st.get("sections_inside_hardware_transaction", 0)
    chk.assumptions = [
        "interleavings are sampled (barrier starts, hook-driven delays at the queue/upgrade/sleep protocol steps, CPU masks 1/2/all); nothing is enumerated",
        "x86-TSO hardware only; store-buffer effects are whatever this CPU does, the light monitor adds no fence inside a critical section",
        "tsan variant: no global stamps and no atomic RMW in sections (the plain protected words are TSan's race target); the FIFO oracle needs stamps and runs in rel/dbg/asan only",
        ("RTM: /proc/cpuinfo lists rtm and _xbegin succeeds on this machine - %d sections of the speculative mutexes ran inside a hardware transaction in this run, "
         "the rest (conflicts, system calls in the section) took the spin_mutex / spin_rw_mutex fall-back. A check that fails inside a transaction aborts the "
         "transaction (a report would be rolled back) and is re-evaluated under the real lock; TSan cannot see transactional synchronisation, so the "
         "speculative kinds are left out of the tsan variant" % txn) if rtm else
        "RTM is not available on this machine: the speculative mutexes exercised their non-speculative fall-back only",
        "queuing_rw_mutex: upgrade -> downgrade -> upgrade inside one hold with another upgrader waiting (scenario class R, keys c08.R.*, plus the deterministic "
        "`c08 --repro reupgrade`) used to strand the waiting upgrader; repaired by fix 8d13147 and checked strictly in every run",
        "try_acquire is allowed to fail spuriously; only `true => really taken` and `returns while the lock is held` are demanded",
        "null_mutex / null_rw_mutex are out of scope",
    ]
    chk.extra["windows"] = {
        "acquisitions_per_kind": {k: st.get("acquisitions." + k, 0) for k in KINDS},
        "contended_or_refused_per_kind": {k: st.get("contended_or_refused." + k, 0) for k in KINDS},
        "upgrades[true,false]": [st.get("upgrade_true", 0), st.get("upgrade_false", 0)],
        "upgrade_storms[total,with_a_loser]": [st.get("upgrade_storms", 0), st.get("upgrade_storms_with_a_loser", 0)],
        "upgrades_after_downgrade_in_one_hold": st.get("upgrades_after_downgrade_in_one_hold", 0),
        "downgrades": st.get("downgrades", 0),
        "requests_through_a_reused_scoped_lock_object": st.get("requests_on_a_reused_scoped_lock_object", 0),
        "try[ok,refused]": [st.get("try_ok", 0), st.get("try_refused", 0)],
        "overlapping_read_sections": st.get("concurrent_reader_sections", 0),
        "queue_order_pairs_checked": {"queuing_mutex": st.get("fifo_pairs.queuing_mutex", 0), "queuing_rw_mutex": st.get("fifo_pairs.queuing_rw_mutex", 0)},
        "queue_order_requests": {"queuing_mutex": st.get("fifo_requests.queuing_mutex", 0), "queuing_rw_mutex": st.get("fifo_requests.queuing_rw_mutex", 0)},
        "kernel_sleeps_entered": st.get("kernel_sleeps_entered", 0),
        "address_waiter[wait,notify]": [hn(63), hn(64)],
        "queuing_rw_protocol_steps(hook 123)[release,downgrade,upgrade-requested,upgrade-locked]": h.get("123", {}).get("h", [0] * 8)[1:5],
        "spin_rw_steps(hook 124)[upgrade window,writer pending]": h.get("124", {}).get("h", [0] * 8)[1:3],
        "unlock_to_notify_window(hook 125)[rw_mutex,mutex]": h.get("125", {}).get("h", [0] * 8)[1:3],
        "sections_inside_hardware_transaction": txn,
        "hook_delays": st.get("hook_delays", 0),
        "class_R(queuing_rw_mutex re-upgrade)": class_r,
        "class_R_rounds": st.get("rounds.class_R", 0),
    }
    return chk.finish()
