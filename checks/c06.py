from vlib import core
from vlib.plan import Phase, run_phases

RULE = ("scenario = one call (D: 2-3 repeated calls) of parallel_reduce / parallel_deterministic_reduce / parallel_scan / parallel_sort with random "
        "(size 0..2^40 boundary-biased, begin offset incl. ranges ending at INT_MAX, grain, partitioner, functional or Body form, per-chunk work), "
        "run by 1-3 external threads at once in a hot arena of 1-16 slots under hook-driven delays (offer_work, being_stolen, demand_split, "
        "lazy body split, join, scan pass, steal protocol). Oracles: reduce in the free monoid of element ids (any reordering/duplication/loss "
        "changes the value) + Body ids (join only into the splitter, both idle, never reused); deterministic_reduce additionally in a free magma "
        "(hash of the split/join expression tree) and float bits, compared between arenas of different concurrency, hot and cold, and with the "
        "range recursion; scan: exactly one final pass per element, incoming prefix of each final chunk = sequential prefix (free monoid + "
        "string hash), out[] = sequential inclusive scan, total; sort: sorted + permutation of (key, index, check) + guards, 13 input classes x 5 "
        "comparators x 4 iterator kinds; phase sortinv enumerates every (size 496..524, inversion position) pair. "
        "non-trivial = chunks/comparisons of one call ran on >= 2 threads; distinct = distinct (size, grain, partitioner, reduction-tree shape) for R, "
        "(tree, leaf->thread placement) for D, (pre/final chunk mix) for S, (input class, size, position, comparator, container, #threads) for Q")

BUILDS = [dict(name="c06", variant=v) for v in ("rel", "dbg", "tsan", "asan")]

INV_SPACE = sum(n - 1 for n in range(496, 525))     # every (size, inversion position) pair, see harness


def run(tier, seed, scale):
    chk = core.Check("C06", tier, seed)
    chk.rule = RULE
    chk.assumptions = ["interleavings / steal patterns are sampled (delays widen windows, nothing is enumerated); inputs are boundary-biased samples "
                       "except the single-inversion sweep around the 500-element cut-off, which is exhaustive",
                       "x86-TSO hardware only; the tsan variant checks the happens-before edges between bodies, joins and the caller",
                       "static_partitioner: determinism is judged only between arenas of equal concurrency >= 2 (the partitioner divides by the "
                       "arena's max_concurrency(), which toggles 1<->2 in a workerless arena while enqueued work is pending)",
                       "no exceptions or cancellation are injected (C03)"]
    q = tier == "quick"
    # run_phases multiplies case counts by `scale`; the exhaustive sweep must be complete at least once for any scale
    def inv_cases(sweeps):
        return int(INV_SPACE * sweeps * max(1.0, scale) / max(scale, 1e-9)) + 1
    phases = [
        Phase("rel-hot", "c06", "rel", 100000 if q else 700000, procs=6 if q else 10, min_nontrivial=3000),
        Phase("rel-2cpu", "c06", "rel", 12000 if q else 120000, procs=2 if q else 4, cpus=2),
        Phase("rel-1cpu", "c06", "rel", 5000 if q else 60000, procs=2 if q else 4, cpus=1),
        Phase("dbg-hot", "c06", "dbg", 24000 if q else 250000, procs=3 if q else 6),
        Phase("tsan", "c06", "tsan", 2100 if q else 36000, procs=3 if q else 6, timeout=1500),
        # exhaustive: every single-inversion position for every size around the cut-off
        Phase("rel-sortinv", "c06", "rel", inv_cases(1 if q else 5), procs=1, args=["--mode", "sortinv", "--conc", "4"]),
    ]
    if not q:
        phases += [
            Phase("asan", "c06", "asan", 90000, procs=6, timeout=1800),
            Phase("dbg-sortinv", "c06", "dbg", inv_cases(3), procs=1, args=["--mode", "sortinv", "--conc", "8"]),
            Phase("rel-reduce", "c06", "rel", 250000, procs=4, args=["--mode", "reduce"]),
            Phase("rel-det", "c06", "rel", 60000, procs=4, args=["--mode", "det"]),
            Phase("rel-scan", "c06", "rel", 300000, procs=3, args=["--mode", "scan"]),
            Phase("rel-sort", "c06", "rel", 100000, procs=4, args=["--mode", "sort"]),
            Phase("rel-big", "c06", "rel", 6000, procs=4, args=["--big", "1", "--conc", "16"], timeout=1800),
            Phase("rel-4cpu", "c06", "rel", 80000, procs=2, cpus=4),
            Phase("tsan-2cpu", "c06", "tsan", 6000, procs=2, cpus=2, timeout=1800),
        ]
    run_phases(chk, phases, seed, scale)

    h, st = chk.hooks, chk.stats

    def hn(i):
        return h.get(str(i), {}).get("n", 0)

    def hh(i):
        return h.get(str(i), {}).get("h", [0] * 8)

    # the events this property is about must actually have happened
    chk.require(hn(203) > 300, "fewer than 300 lazy body splits (right child started while the left one was running)")
    chk.require(hh(204)[1] > 300, "fewer than 300 joins of a split-off body")
    chk.require(hh(204)[2] > 300, "fewer than 300 joins in parallel_deterministic_reduce")
    chk.require(hn(201) > 100, "fewer than 100 'task is being stolen' events in the partitioner")
    chk.require(hn(202) > 20, "fewer than 20 demand-driven splits")
    chk.require(hh(205)[0] > 300 and hh(205)[1] > 300, "fewer than 300 scan pre-passes or final passes")
    chk.require(st.get("S_calls_with_prepass", 0) > 100, "fewer than 100 scans with a pre-pass (stolen right halves)")
    for cls in "RDSQ":
        chk.require(st.get("parallel_" + cls, 0) > (100 if q else 1000), "too few class-%s scenarios ran on >= 2 threads" % cls)
    mt = st.get("multi_task", 0)
    # measured 0.26 (box loaded by ~100 runnable threads of other jobs) .. 0.45 (idle box); the 1- and 2-CPU phases pull it down by design
    chk.require(mt > 0 and chk.nontrivial * 100 >= 15 * mt, "only %d of %d multi-chunk scenarios ran on >= 2 threads" % (chk.nontrivial, mt))
    chk.require(st.get("Q_sortinv_full_sweeps", 0) >= 1, "the (size, inversion position) sweep around the sort cut-off was not completed")
    chk.require(st.get("Q_below_cutoff", 0) > 100 and st.get("Q_at_or_above_cutoff", 0) > 100, "sort sizes on both sides of the 500 cut-off were not both exercised")
    chk.extra["windows"] = {
        "offer_work[for(sort),reduce,deterministic_reduce]": hh(200)[:3],
        "task_being_stolen": hn(201),
        "demand_driven_splits": hn(202),
        "reduce_lazy_body_splits": hn(203),
        "reduce_join[body_reused,split_body_joined,deterministic]": hh(204)[:3],
        "scan_pass[pre,final,skipped]": hh(205)[:3],
        "steals": hn(10),
    }
    chk.extra["fraction_multi_chunk_scenarios_on_2plus_threads"] = round(chk.nontrivial / mt, 3) if mt else 0
    chk.extra["sort_inversion_sweep"] = {"pairs_in_space": INV_SPACE, "pairs_run": st.get("Q_sortinv_pairs", 0), "full_sweeps": st.get("Q_sortinv_full_sweeps", 0)}
    chk.extra["observations"] = {"deterministic_reduce_static_tree_varied_in_workerless_arena": st.get("D_static_tree_varied_in_workerless_arena", 0)}
    return chk.finish()
