from vlib import core
from vlib.plan import Phase, run_phases

RULE = ("scenario = one round of 2-16 persistent threads (plus the short-lived threads they spawn, which exit with live blocks) each running a random "
        "60-3000 operation script over scalable_malloc/calloc/realloc/aligned_malloc/aligned_realloc/posix_memalign/scalable_allocator<char>/free/"
        "aligned_free/msize with sizes from one profile (0-64, 65-1024, 1025-8128, one size class for everybody, the table of every class boundary "
        "-1/0/+1 incl. 8 KB large-object bin steps, 8 MB and 64 MB thresholds, 8 KB-512 KB, large-bin steps to 9 MB, everything incl. >= 64 MB) and "
        "alignments 2^0..2^30 (plus invalid alignments and sizes 2^47..SIZE_MAX, which must fail); blocks are handed to other threads (ring / one producer / "
        "random) that free, realloc or keep them; CLEAN_ALL/CLEAN_THREAD_BUFFERS are issued in between, soft heap limit and huge-size threshold change "
        "at quiescence; blocks survive across rounds; hook-driven delays at public-free push, privatise, orphan put/get, bin mailbox, coalescing, "
        "large-object cache put/get. Oracle: shadow interval map over [p,p+msize) (extent erased before free/realloc is called), alignment, msize >= request and "
        "stable, calloc zero over dirty memory, realloc prefix, id-derived fill pattern over the whole extent verified at free / realloc / receipt / sweeps, "
        "slab objects clear of the slab header. non-trivial = the scripts of at least two threads overlapped in time and at least one block was freed or "
        "moved by a thread other than the one that allocated it; distinct = distinct (round parameters, per-thread sequence of (allocating thread, msize) "
        "of the foreign frees, re-use counts) signatures")

BUILDS = [dict(name="c17", variant="rel", with_tbb=False, with_malloc=True),
          dict(name="c17", variant="rel", with_tbb=False, with_malloc=True, malloc_debug=True),
          dict(name="c17", variant="tsan", with_tbb=False, with_malloc=True),
          dict(name="c17", variant="asan", with_tbb=False, with_malloc=True),
          dict(name="c17", variant="dbg", with_tbb=False, with_malloc=True)]

SMALL_CLASSES = [8, 16, 32, 48, 64, 80, 96, 112, 128, 160, 192, 224, 256, 320, 384, 448, 512, 640, 768, 896, 1024, 1792, 2688, 4032, 5376, 8128]


def P(name, variant, cases, procs, args=(), malloc_debug=False, **kw):
    lib = "/build/malloc-%s%s-" % (variant, "D" if malloc_debug and variant != "dbg" else "")
    return Phase(name, "c17", variant, cases, procs=procs, args=list(args) + ["--expect-lib", lib], with_tbb=False, with_malloc=True,
                 malloc_debug=malloc_debug, **kw)


def run(tier, seed, scale):
    chk = core.Check("C17", tier, seed)
    chk.rule = RULE
    chk.assumptions = [
        "interleavings are sampled (hook delays, CPU pinning and thread churn widen windows; nothing is enumerated); x86-TSO hardware only",
        "sizes and alignments are boundary-biased samples plus a table of every size-class boundary walked completely; the input space is not enumerated",
        "allocator metadata overlap is seen through its effects (pattern damage, MALLOC_ASSERT of the TBB_USE_DEBUG build, crash) and, for slab objects, "
        "through the white-box rule 'offset in the 16 KB slab >= 128'; the harness does not know where other metadata lives",
        "blocks above 64 KB carry the pattern in their first and last 4 KB and in 96 sampled words (and densely where a realloc copy ends); smaller blocks completely",
        "AddressSanitizer does not see inside tbbmalloc's own mappings (no redzones between scalable_* blocks); the asan variant contributes UBSan on the "
        "size arithmetic and ASan on the allocator's own accesses only",
        "the tsan variant and the rel 'no-monitor' phase run without the shadow map (pure stress + patterns), so that no monitor lock orders operations",
        "scalable_allocation_mode is only called at quiescence; memory pools (pool_*) and the malloc proxy are outside this property (pools: C18)",
        "blocks of 256 MB..2^47 bytes are not requested (they may or may not succeed depending on overcommit); >= 2^47 must fail",
        "errno / failure reporting belongs to C18; an unexpected null for an ordinary request fails the run as a harness failure, not as a violation",
    ]
    q = tier == "quick"
    phases = [
        P("rel-hot", "rel", 2100 if q else 30000, 6 if q else 12, min_nontrivial=1000 if q else 15000, timeout=1500),
        P("rel-nomonitor", "rel", 500 if q else 8000, 2 if q else 4, args=["--monitor", "0"], timeout=1500),
        P("rel-2cpu", "rel", 400 if q else 6000, 2 if q else 4, cpus=2, timeout=1500),
        P("rel-1cpu", "rel", 300 if q else 4000, 2 if q else 4, cpus=1, timeout=1500),
        P("relD-hot", "rel", 750 if q else 12000, 3 if q else 6, malloc_debug=True, timeout=1500),
        P("tsan", "tsan", 90 if q else 1800, 3 if q else 6, timeout=1800),
    ]
    if not q:
        phases += [
            P("asan", "asan", 3000, 6, timeout=1800),
            P("asan-1cpu", "asan", 600, 2, cpus=1, timeout=1800),
            P("dbg-hot", "dbg", 6000, 4, timeout=1500),
            P("relD-2cpu", "rel", 3000, 2, cpus=2, malloc_debug=True, timeout=1500),
            P("rel-oneclass-16", "rel", 6000, 4, args=["--profile", "4", "--threads", "16"], timeout=1500),
            P("rel-oneclass-4", "rel", 6000, 4, args=["--profile", "4", "--threads", "4"], timeout=1500),
            P("rel-largebins-8", "rel", 3000, 4, args=["--profile", "7", "--threads", "8"], timeout=1500),
            P("relD-table", "rel", 2000, 2, args=["--profile", "5"], malloc_debug=True, timeout=1500),
        ]
    nprocs = sum(p.procs for p in phases)
    run_phases(chk, phases, seed, scale)
    st, h = chk.stats, chk.hooks
    n = lambda i: h.get(str(i), {}).get("n", 0)
    hb = lambda i, b: h.get(str(i), {}).get("h", [0] * 8)[b]
    g = lambda k: st.get(k, 0)
    k = 1 if q else 8
    chk.require(g("lib_checked") == nprocs, "only %d of %d processes confirmed that the libtbbmalloc built from the tree under test is loaded" % (g("lib_checked"), nprocs))
    chk.require(g("monitor_self_check_failed") == 0, "shadow-map self check failed %d times (monitor bug)" % g("monitor_self_check_failed"))
    chk.require(g("unexpected_null") == 0, "%d ordinary requests (<= 128 MB, alignment <= 2^30) returned null" % g("unexpected_null"))
    chk.require(g("foreign_frees") > 500000 * k, "only %d blocks were freed by a thread other than the allocating one" % g("foreign_frees"))
    chk.require(g("reuse_after_foreign_free_by_owner") > 50000 * k, "only %d addresses were handed out again to their owner after a foreign free (privatisation)" % g("reuse_after_foreign_free_by_owner"))
    chk.require(g("frees_after_owner_thread_exit") > 50000 * k, "only %d frees of blocks whose allocating thread had exited" % g("frees_after_owner_thread_exit"))
    chk.require(g("peer_samples_inside_allocator") > 20000 * k, "only %d samples found another thread inside an allocator entry point" % g("peer_samples_inside_allocator"))
    chk.require(g("realloc_moved") > 20000 * k and g("realloc_inplace") > 20000 * k, "too few reallocs (moved %d, in place %d)" % (g("realloc_moved"), g("realloc_inplace")))
    chk.require(g("calloc_checked") > 50000 * k, "only %d calloc results checked" % g("calloc_checked"))
    chk.require(g("aligned_allocs_1MB_and_up") > 200, "only %d allocations with alignment >= 1 MB" % g("aligned_allocs_1MB_and_up"))
    chk.require(g("huge_blocks_64MB_and_up") > 5, "only %d blocks >= 64 MB" % g("huge_blocks_64MB_and_up"))
    chk.require(g("extreme_calls") > 2000, "only %d calls with absurd / invalid arguments" % g("extreme_calls"))
    chk.require(g("cleanup_commands") > 1000, "only %d scalable_allocation_command calls" % g("cleanup_commands"))
    chk.require(g("max_table_passes_x100") >= 100, "no process walked the class-boundary table completely (best: %d%%)" % g("max_table_passes_x100"))
    missing = [c for c in SMALL_CLASSES if g("cls_%d" % c) == 0]
    chk.require(not missing, "slab size classes never handed out: %s" % missing)
    lg = sorted(kk for kk in st if kk.startswith("lg_"))
    chk.require(len(lg) >= 40, "only %d large-object size buckets (quarter powers of two) hit" % len(lg))
    # windows inside the allocator (hook points of src/tbbmalloc)
    chk.require(hb(210, 1) > 20000 * k, "public free onto an empty list (block goes to the owner's mailbox) seen only %d times" % hb(210, 1))
    chk.require(n(211) > 100000 * k, "privatizePublicFreeList reached only %d times" % n(211))
    chk.require(hb(212, 1) > 5000 * k, "only %d slabs orphaned by exiting threads" % hb(212, 1))
    chk.require(hb(213, 1) > 5000 * k, "only %d orphaned slabs adopted" % hb(213, 1))
    chk.require(hb(214, 1) > 5000 * k, "owner took a block from its bin mailbox only %d times" % hb(214, 1))
    chk.require(n(215) > 50000 * k, "backend coalescing reached only %d times" % n(215))
    chk.require(hb(216, 0) > 5000 * k and hb(217, 0) > 5000 * k, "large-object cache put/get reached only %d/%d times" % (hb(216, 0), hb(217, 0)))
    chk.extra["windows"] = {
        "operations": g("ops"), "allocations": g("allocs"), "frees": g("frees"),
        "frees_by_a_thread_other_than_the_allocating_one": g("foreign_frees"),
        "frees_after_the_allocating_thread_exited": g("frees_after_owner_thread_exit"),
        "blocks_left_behind_by_exiting_threads": g("blocks_left_by_exited_threads"),
        "short_lived_threads": g("short_lived_threads"),
        "addresses_reused_by_owner_after_foreign_free": g("reuse_after_foreign_free_by_owner"),
        "addresses_reused_by_third_thread_after_foreign_free": g("reuse_after_foreign_free_by_third"),
        "reallocs_in_place": g("realloc_inplace"), "reallocs_moved": g("realloc_moved"), "reallocs_moved_by_foreign_thread": g("foreign_reallocs_moved"),
        "peer_samples": g("peer_samples"), "peer_samples_inside_allocator": g("peer_samples_inside_allocator"),
        "blocks_pattern_swept": g("blocks_swept"), "calloc_results_checked": g("calloc_checked"),
        "cleanup_commands": g("cleanup_commands"), "rounds_with_soft_heap_limit": g("rounds_with_soft_heap_limit"), "huge_size_threshold_changes": g("huge_size_threshold_changes"),
        "aligned_allocations": g("aligned_allocs"), "aligned_allocations_1MB_and_up": g("aligned_allocs_1MB_and_up"), "blocks_64MB_and_up": g("huge_blocks_64MB_and_up"),
        "absurd_or_invalid_calls": g("extreme_calls"), "invalid_alignment_calls": g("invalid_alignment_calls"),
        "class_boundary_table_entries": g("max_table_size"), "class_boundary_table_best_passes_x100": g("max_table_passes_x100"), "table_sizes_drawn": g("table_sizes_drawn"),
        "slab_size_classes_hit": {str(c): g("cls_%d" % c) for c in SMALL_CLASSES},
        "large_size_buckets_hit": len(lg),
        "rounds_by_profile": {kk[len("profile_"):]: v for kk, v in st.items() if kk.startswith("profile_")},
        "rounds_by_threads": {kk[len("threads_"):]: v for kk, v in st.items() if kk.startswith("threads_")},
        "rounds_with_shadow_map": g("monitor_on_rounds"),
        "hook_public_free_push[list_nonempty,list_was_empty]": h.get("210", {}).get("h", [0] * 8)[:2],
        "hook_privatize": n(211),
        "hook_orphan_put[share,push]": h.get("212", {}).get("h", [0] * 8)[:2],
        "hook_orphan_get[empty,adopted]": h.get("213", {}).get("h", [0] * 8)[:2],
        "hook_bin_mailbox[add,take]": h.get("214", {}).get("h", [0] * 8)[:2],
        "hook_coalesce[start,left_locked,before_free]": h.get("215", {}).get("h", [0] * 8)[:3],
        "hook_cache_put[large_cache,slab_pool,thread_large_cache]": h.get("216", {}).get("h", [0] * 8)[:3],
        "hook_cache_get[large_cache,slab_pool]": h.get("217", {}).get("h", [0] * 8)[:2],
        "hook_delays": g("hook_delays"),
    }
    # keep the evidence file small: per-class counters are summarised above
    for kk in [kk for kk in st if kk.startswith("cls_") or kk.startswith("lg_")]:
        del st[kk]
    return chk.finish()
