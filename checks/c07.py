from vlib import core
from vlib.plan import Phase, run_phases

RULE = ("scenario = one random parallel_pipeline: 1-7 filters, every mix of parallel / serial_in_order / serial_out_of_order (incl. parallel and "
        "out-of-order input filters and the textbook in_order-parallel-in_order shape), token limit from {1,2,3,4,8,64}, 1..40, 2^20 or SIZE_MAX, "
        "0..2500 items (15% with 0-3), item type per link from {int, pointer, 48-byte class through the allocator, 4-byte struct packed into void*}, "
        "optional nullptr items on a pointer link, one of seven per-(item,stage) delay patterns (none, sparse short/long, stragglers at one stage, "
        "reversed windows, one slow stage, yields), with or without a user context; 1-3 driver threads run pipelines at once in a hot arena of 1-16 "
        "slots under hook-driven delays (pipeline hooks 110-113 plus spawn/steal/wait hooks). Checked per pipeline: every item exactly once at every "
        "filter and in stage order, payload word of stage k visible in stage k+1, no two invocations of a serial filter at once (counter + plain "
        "state watched by TSan), identical processing order at all serial_in_order filters, items in flight (emitted, not yet through the last "
        "filter) <= token limit, stop() called and nothing running or finishing after the return, by-value item objects balanced. "
        "non-trivial = bodies of the pipeline ran on >= 2 threads and it had >= 2 items; distinct = distinct (filter modes, tokens, item count, "
        "processing order at every serial filter, overtakes, max in flight) signatures")

BUILDS = [dict(name="c07", variant=v) for v in ("rel", "dbg", "tsan", "asan")]


def run(tier, seed, scale):
    chk = core.Check("C07", tier, seed)
    chk.rule = RULE
    chk.assumptions = ["interleavings are sampled (delays in bodies and at hooks widen windows, nothing is enumerated)", "x86-TSO hardware only",
                       "exceptions and cancellation are out of scope here (C03/C04)",
                       "an item whose invocation of a *parallel* input filter ends after another invocation already called stop() is not required "
                       "to be processed (it is, in practice: stat scenarios_optional_item_dropped stays 0)",
                       "tsan variant: no global stamps; it checks the happens-before edges between consecutive invocations of a serial filter, "
                       "between consecutive stages of one item and between the last body and the return"]
    q = tier == "quick"
    tmo = 900 if q else 3000      # driver-side limit per process (generous: the box is shared); a hit is inconclusive, never a verdict
    phases = [
        Phase("rel-hot", "c07", "rel", 48000 if q else 500000, procs=6 if q else 12, min_nontrivial=5000, timeout=tmo),
        Phase("rel-2cpu", "c07", "rel", 8000 if q else 100000, procs=2 if q else 4, cpus=2, timeout=tmo),
        Phase("rel-1cpu", "c07", "rel", 4000 if q else 50000, procs=2 if q else 4, cpus=1, timeout=tmo),
        Phase("dbg-hot", "c07", "dbg", 15000 if q else 200000, procs=3 if q else 8, timeout=tmo),
        Phase("tsan", "c07", "tsan", 7500 if q else 90000, procs=3 if q else 8, timeout=max(tmo, 1500)),
    ]
    if not q:
        phases.append(Phase("asan", "c07", "asan", 60000, procs=6, timeout=tmo))
        phases.append(Phase("rel-16", "c07", "rel", 100000, procs=4, args=["--conc", "16", "--drivers", "1"], timeout=tmo))
    run_phases(chk, phases, seed, scale)
    h, st = chk.hooks, chk.stats

    def hn(i):
        return h.get(str(i), {}).get("n", 0)
    park_hist = h.get("110", {}).get("h", [0] * 8)
    # the windows this property is about must actually have been entered
    chk.require(hn(110) > 20000, "fewer than 20000 tokens parked in front of serial filters (hook 110: %d)" % hn(110))
    chk.require(park_hist[6] > 2000, "fewer than 2000 tokens parked at distance > 6 from low_token (%d)" % park_hist[6])
    chk.require(st.get("buffer_grows_beyond_initial", 0) > 500, "input buffers grew beyond their initial size fewer than 500 times")
    chk.require(hn(112) > 50000 and hn(113) > 50000, "serial hand-over / token release hooks reached too rarely (112: %d, 113: %d)" % (hn(112), hn(113)))
    chk.require(st.get("scenarios_with_overtakes", 0) > 1000, "fewer than 1000 pipelines in which a later item reached an ordered filter before an earlier one")
    chk.require(st.get("scenarios_token_limit_reached", 0) > 2000, "fewer than 2000 pipelines that filled their token limit")
    chk.require(st.get("scenarios_bodies_overlapped", 0) > 5000, "fewer than 5000 pipelines with two bodies running at the same time")
    chk.require(st.get("max_park_distance", 0) >= 63, "no token ever parked >= 63 positions from low_token")
    for k in ("scenarios_zero_items", "scenarios_single_filter", "scenarios_parallel_input", "scenarios_out_of_order_input", "scenarios_non_int_item_types",
              "scenarios_with_nullptr_items", "scenarios_huge_token_limit", "scenarios_user_context"):
        chk.require(st.get(k, 0) > 50, "scenario class %s was exercised only %d times" % (k, st.get(k, 0)))
    chk.extra["windows"] = {
        "tokens_parked": hn(110),
        "park_distance_histogram[0,1,2,3,4,5,>=6]": park_hist[:7],
        "max_park_distance": st.get("max_park_distance", 0),
        "buffer_grows_beyond_initial_size": st.get("buffer_grows_beyond_initial", 0),
        "max_buffer_size_requested": st.get("max_buffer_size_requested", 0),
        "serial_hand_overs(try_spawn_next)": hn(112),
        "token_releases": hn(113),
        "overtakes_before_ordered_filters": st.get("overtakes_before_ordered_filters", 0),
        "pipelines_with_overtakes": st.get("scenarios_with_overtakes", 0),
        "pipelines_that_filled_the_token_limit": st.get("scenarios_token_limit_reached", 0),
        "pipelines_with_overlapping_bodies": st.get("scenarios_bodies_overlapped", 0),
        "serial_filters_that_processed_out_of_emission_order": st.get("serial_filters_processing_out_of_emission_order", 0),
        "steals": hn(10),
    }
    return chk.finish()
