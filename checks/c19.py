from vlib import core
from vlib.plan import Phase, run_phases

RULE = ("three scenario classes generated from the seed. once: fresh heap-allocated collaborative_once_flag, 2-12 callers released from a barrier - "
        "external threads calling directly, through task_arena::execute of long-lived arenas of 1-8 slots (delegation when full), as parallel_for "
        "tasks inside such an arena or as enqueued tasks; the function spins or runs a nested parallel_for and throws on a planned subset of the "
        "first four attempts (before/inside/after the nested loop); callers retry 0-5 times after catching; the last caller to finish deletes the "
        "flag. ets: fresh enumerable_thread_specific (ets_no_key / ets_key_per_instance / default) or combinable + 1-4 waves of 2-136 threads "
        "(persistent threads old and new to the container plus fresh std::threads whose ids get recycled) released from a barrier onto local(), each "
        "repeating the lookup 1-24 times while others grow the table; etsw: the same container used from parallel_for in 1-3 hot arenas at once. "
        "Hook-driven delays at winner CAS, helper ref+1 -> lifetime guard, completion wait, ETS root CAS, slot claim, found-in-older-array. "
        "Oracle: invocations mutually exclusive, <=1 completion, no return before the completion stamp, plain payload visible, every thrown attempt "
        "caught by exactly one caller (the one whose call ran it), attempts == planned throws + 1, flag retriable after everybody gave up, no caller "
        "stuck (quiescence / spin-stall); per thread *id* alive at the same time exactly one element, stable address, exists flag, one initialiser "
        "call per new id, size() == initialiser calls == distinct ids, per-element update counts, iteration / range / combine_each / combine visit "
        "every element exactly once. non-trivial = (once) a caller entered while another caller was inside and the function had not completed; "
        "(ets) a thread started its first access while another thread was inside its first access. distinct = distinct orders of hook events "
        "(ids 190-195 with their arguments) and harness events (invocation start / throw / completion / catch / return) across renamed threads, "
        "combined with the per-caller outcome (attempts run, exceptions caught, helper references, return order) resp. per-wave overlap counts")

BUILDS = [dict(name="c19", variant=v) for v in ("rel", "dbg", "tsan", "asan")]


def run(tier, seed, scale):
    chk = core.Check("C19", tier, seed)
    chk.rule = RULE
    chk.assumptions = ["interleavings are sampled (perturbation and CPU pinning widen windows, nothing is enumerated)", "x86-TSO hardware only",
                       "thread identity = std::thread::id: a thread that re-uses the id of an exited thread legitimately inherits its element; the oracle "
                       "only speaks about ids alive at the same time and about distinct ids ever seen",
                       "table sizes exercised: 4 up to 512 slots (every doubling); more than 136 simultaneous threads are not driven",
                       "the exception of a throwing attempt is expected at the caller whose call ran the function (the winner); helpers never see it",
                       "a flag is destroyed only after every call on it has returned (earlier destruction is a user error)",
                       "ets_suspend_aware, copy/move/assignment and clear() of the containers are not driven (not concurrency-safe or outside the statement)",
                       "the tsan variant keeps no shared event log inside the hooks; it checks the happens-before edge from the function's plain write to "
                       "every returning caller and the privacy of every element's plain counter"]
    q = tier == "quick"
    phases = [
        Phase("rel-hot", "c19", "rel", 110000 if q else 1200000, procs=6 if q else 10, min_nontrivial=15000 if q else 150000),
        Phase("rel-2cpu", "c19", "rel", 12000 if q else 100000, procs=2 if q else 4, cpus=2, min_nontrivial=1000),
        Phase("rel-1cpu", "c19", "rel", 8000 if q else 80000, procs=2 if q else 4, cpus=1, min_nontrivial=500),
        Phase("dbg-hot", "c19", "dbg", 30000 if q else 300000, procs=3 if q else 6),
        Phase("tsan", "c19", "tsan", 4500 if q else 48000, procs=3 if q else 8, timeout=1500),
        # class X (known finding once.runner-destructor-spins-in-arena-slot): can wedge, so it lives in its own small processes;
        # the watchdog verdict (c19.onceX.hang.*) ends only that process
        Phase("rel-onceX", "c19", "rel", 1100 if q else 6000, procs=2 if q else 6, args=["--mode", "oncex"], timeout=1500),
    ]
    if not q:
        phases.append(Phase("asan", "c19", "asan", 80000, procs=6, timeout=1500))
        phases.append(Phase("asan-1cpu", "c19", "asan", 10000, procs=2, cpus=1, timeout=1500))
        phases.append(Phase("dbg-1cpu", "c19", "dbg", 30000, procs=2, cpus=1))
        phases.append(Phase("dbg-onceX", "c19", "dbg", 2000, procs=2, args=["--mode", "oncex"], timeout=1500))
        phases.append(Phase("tsan-onceX", "c19", "tsan", 600, procs=2, args=["--mode", "oncex"], timeout=1500))
        phases.append(Phase("rel-once", "c19", "rel", 300000, procs=4, args=["--mode", "once"]))
        phases.append(Phase("rel-ets", "c19", "rel", 150000, procs=4, args=["--mode", "ets"]))
        phases.append(Phase("rel-etsw", "c19", "rel", 150000, procs=3, args=["--mode", "etsw"]))
    run_phases(chk, phases, seed, scale)
    h = chk.hooks
    n = lambda i: h.get(str(i), {}).get("n", 0)
    hist = lambda i: h.get(str(i), {}).get("h", [0] * 8)
    st = chk.stats
    g = lambda k: st.get(k, 0)
    # the windows this property is about must actually have been entered
    chk.require(n(190) > 5000, "winner CAS observed only %d times" % n(190))
    chk.require(hist(191)[1] > 3000, "a helper took a reference on a running runner only %d times" % hist(191)[1])
    chk.require(n(192) > 3000, "helpers joined a runner (assist) only %d times" % n(192))
    chk.require(g("once_retry_rounds_after_throw") > 3000, "only %d retry rounds after a throw" % g("once_retry_rounds_after_throw"))
    chk.require(g("once_exceptions_caught") > 3000, "only %d exceptions caught" % g("once_exceptions_caught"))
    chk.require(g("once_helper_callers_ran_nested_work") > 300, "helper callers ran nested work of the winner only %d times" % g("once_helper_callers_ran_nested_work"))
    chk.require(g("once_flags_all_gave_up_then_called_by_main") > 50, "only %d flags on which every caller gave up" % g("once_flags_all_gave_up_then_called_by_main"))
    chk.require(n(193) > 5000, "ETS root-array CAS reached only %d times" % n(193))
    chk.require(g("ets_root_cas_raced_same_size") > 300, "only %d raced growths of the ETS table" % g("ets_root_cas_raced_same_size"))
    chk.require(n(195) > 1000, "lookup served from an older array only %d times" % n(195))
    chk.require(g("ets_first_accesses_overlapping") > 20000, "only %d overlapping first accesses" % g("ets_first_accesses_overlapping"))
    chk.require(g("ets_recycled_ids_inheriting_element") > 20, "only %d recycled thread ids" % g("ets_recycled_ids_inheriting_element"))
    chk.require(g("max_ets_table_lg_size") >= 9, "ETS table only reached 2^%d slots (every doubling up to 512 is wanted)" % g("max_ets_table_lg_size"))
    for lg in range(3, 10):
        chk.require(g("ets_root_cas_attempts_lg%d" % lg) > 20, "doubling to 2^%d slots attempted only %d times" % (lg, g("ets_root_cas_attempts_lg%d" % lg)))
    chk.extra["windows"] = {
        "once_flags": g("once_scenarios"), "once_flags_class_X(own processes)": g("onceX_scenarios"),
        "once_flags_by_placement": {k[len("once_placement_"):]: v for k, v in st.items() if k.startswith("once_placement_")},
        "once_winner_cas": n(190),
        "once_helper_ref_taken_on_running_runner": hist(191)[1],
        "once_helpers_that_joined_a_runner(assist)": n(192),
        "once_helper_callers_that_ran_nested_work": g("once_helper_callers_ran_nested_work"),
        "once_nested_bodies_on_helper_callers": g("once_nested_bodies_on_helper_callers"),
        "once_attempts": g("once_attempts"), "once_throws": g("once_throws"), "once_exceptions_caught": g("once_exceptions_caught"),
        "once_retry_rounds_after_throw": g("once_retry_rounds_after_throw"),
        "once_callers_gave_up": g("once_callers_gave_up"),
        "once_flags_all_gave_up_then_called_again": g("once_flags_all_gave_up_then_called_by_main"),
        "once_flags_deleted_by_last_caller": g("once_flags_deleted_by_last_caller"),
        "once_callers_by_kind": {k[len("once_callers_"):]: v for k, v in st.items() if k.startswith("once_callers_") and k not in ("once_callers_gave_up", "once_callers_overlapping")},
        "once_callers_overlapping": g("once_callers_overlapping"),
        "ets_containers": g("ets_scenarios") + g("etsw_scenarios"),
        "ets_containers_by_kind": {k[len("ets_kind_"):]: v for k, v in st.items() if k.startswith("ets_kind_")},
        "ets_thread_participations": g("ets_thread_participations"), "ets_distinct_ids": g("ets_distinct_ids"),
        "ets_fresh_threads": g("ets_fresh_threads"), "ets_recycled_ids_inheriting_element": g("ets_recycled_ids_inheriting_element"),
        "ets_first_accesses_overlapping": g("ets_first_accesses_overlapping"),
        "ets_root_cas_attempts_by_lg_size": {k[len("ets_root_cas_attempts_lg"):]: v for k, v in st.items() if k.startswith("ets_root_cas_attempts_lg")},
        "ets_growths_raced(same size attempted by >1 thread)": g("ets_root_cas_raced_same_size"),
        "ets_lookups_served_from_older_array": n(195),
        "ets_slot_claims": n(194),
        "ets_max_table_lg_size": g("max_ets_table_lg_size"), "ets_max_ids_in_one_container": g("max_ets_ids_in_one_container"),
    }
    return chk.finish()
