from vlib import core
from vlib.plan import Phase, run_phases

RULE = ("scenario classes on real concurrent_queue / concurrent_bounded_queue objects (fresh queue per scenario, elements of 8/16/32/64/128/200 bytes = "
        "32..1 items per page, ticket offsets chosen next to page boundaries so pages are switched and recycled inside the history, capacity 1/2/3/inf set "
        "only at quiescent points, hook-driven delays at ticket-taken / page-switch / pop-waits-for-item / bounded wait-notify-abort / monitor steps): "
        "L = random 2-4 threads x 3-12 operations (push, emplace, try_push, blocking pop, try_pop; blocked calls are helped by the coordinator only when the "
        "abstract queue is empty/full, which yields negative-size states), the whole recorded history incl. the quiescent drain is decided by the WGL "
        "linearizability search against the sequential (bounded) FIFO model (budget => inconclusive) plus aspect checks; S = 2-6 threads x 200-1500 "
        "operations decided by O(n log n) aspect checks (conservation, FIFO vs real time incl. per-producer order, empty witness, capacity bound, "
        "try_push-full witness); Q/R/P = abort classes (quiescent / racing retry / blocked pushes with concurrent pops), each followed by an abort-free phase "
        "in which one producer pushes 0..N-1 and every value must arrive exactly once, in order, with no pop left blocked; U/B/G = element constructor "
        "throwing at in-queue construction index k for every k (U unbounded queue, B bounded queue) and page allocation failing at index k (G). "
        "Two clock modes: global sequence counter, or CLOCK_MONOTONIC with a 2 us margin (weaker order, no fence between operations; always in tsan). "
        "non-trivial = at least two operations of different threads overlapped in time; distinct = distinct call/return interleaving signatures "
        "(order of call and return events across threads) per class")

BUILDS = [dict(name="c09", variant=v) for v in ("rel", "dbg", "tsan", "asan")]


def run(tier, seed, scale):
    chk = core.Check("C09", tier, seed)
    chk.rule = RULE
    chk.assumptions = [
        "interleavings are sampled (perturbation widens windows, nothing is enumerated); x86-TSO hardware only",
        "set_capacity is changed only while no operation is in flight (it is a plain store, not a concurrency-safe member)",
        "element move-assignment (used by pop) does not throw; only in-queue constructions and page allocations are made to fail",
        "classes R, B and P contain known genuine defects (known_findings.json); they run in processes of their own and only the listed keys are tolerated",
        "class P is additionally run restricted to fewer blocked pushers than capacity (cannot reach the known wedge) so that it is judged strictly there",
        "hang verdicts come from the watchdog (quiescence or CPU-time spin-stall) plus a harness-side predicate (items available for a blocked pop / room or an empty queue for a blocked push)",
    ]
    q = tier == "quick"
    t_wedge = 900
    phases = [
        Phase("rel-mix", "c09", "rel", 110000 if q else 700000, procs=5 if q else 8, min_nontrivial=10000),
        Phase("rel-2cpu", "c09", "rel", 12000 if q else 60000, procs=2 if q else 3, cpus=2),
        Phase("rel-1cpu", "c09", "rel", 5000 if q else 24000, procs=1 if q else 2, cpus=1),
        Phase("dbg-mix", "c09", "dbg", 30000 if q else 300000, procs=2 if q else 5),
        Phase("tsan-mix", "c09", "tsan", 2400 if q else 40000, procs=2 if q else 5, timeout=1500),
        # wedge-able classes: a wedge ends only that process (watchdog verdict); small case counts
        Phase("rel-R", "c09", "rel", 12 if q else 24, procs=2 if q else 3, args=["--mode", "R"], timeout=t_wedge),
        Phase("rel-B", "c09", "rel", 60 if q else 180, procs=2 if q else 3, args=["--mode", "B"], timeout=t_wedge),
        Phase("rel-P", "c09", "rel", 12 if q else 24, procs=2 if q else 3, args=["--mode", "P"], timeout=t_wedge),
        Phase("rel-Pstrict", "c09", "rel", 3000 if q else 40000, procs=1 if q else 2, args=["--mode", "P", "--wedgeable", "0"]),
        # class C: credit-bounded traffic (a producer holding a credit must never be told "full")
        Phase("rel-C", "c09", "rel", 600 if q else 8000, procs=3 if q else 6, args=["--mode", "C"]),
        Phase("tsan-C", "c09", "tsan", 60 if q else 600, procs=2 if q else 3, args=["--mode", "C"], timeout=1500),
    ]
    if not q:
        phases += [
            Phase("asan-mix", "c09", "asan", 60000, procs=4, timeout=1500),
            Phase("rel-L", "c09", "rel", 360000, procs=3, args=["--mode", "L"]),
            Phase("rel-S", "c09", "rel", 4000, procs=3, args=["--mode", "S"]),
            Phase("rel-Q", "c09", "rel", 40000, procs=2, args=["--mode", "Q"]),
            Phase("rel-U", "c09", "rel", 50000, procs=2, args=["--mode", "U"]),
            Phase("rel-G", "c09", "rel", 50000, procs=2, args=["--mode", "G"]),
            Phase("dbg-R", "c09", "dbg", 4, procs=1, args=["--mode", "R"], timeout=t_wedge),
            Phase("dbg-B", "c09", "dbg", 20, procs=1, args=["--mode", "B"], timeout=t_wedge),
            Phase("dbg-P", "c09", "dbg", 4, procs=1, args=["--mode", "P"], timeout=t_wedge),
            Phase("asan-Pstrict", "c09", "asan", 4000, procs=1, args=["--mode", "P", "--wedgeable", "0"], timeout=1500),
            Phase("tsan-Q", "c09", "tsan", 3000, procs=2, args=["--mode", "Q"], timeout=1500),
            Phase("tsan-G", "c09", "tsan", 12000, procs=2, args=["--mode", "G"], timeout=1500),
        ]
    run_phases(chk, phases, seed, scale)

    st, h = chk.stats, chk.hooks

    def hn(i):
        return h.get(str(i), {}).get("n", 0)

    def hb(i, b):
        return h.get(str(i), {}).get("h", [0] * 8)[b]

    lin_ok = sum(st.get("wgl_ok_" + c, 0) for c in "LUGQP")
    need = 8000 * min(1.0, scale) if q else 60000
    chk.require(st.get("wgl_ok_L", 0) >= need, "only %d class-L histories were decided by the linearizability checker (needs %d)" % (st.get("wgl_ok_L", 0), need))
    chk.require(st.get("lin_histories_overlapping", 0) * 4 >= st.get("lin_histories_checked", 1), "fewer than a quarter of the short histories had overlapping operations")
    chk.require(st.get("S_concurrent_ops", 0) >= 20000, "stress histories saw fewer than 20000 overlapping operations")
    chk.require(st.get("C_try_push_calls_holding_a_credit", 0) >= (2000000 if q else 20000000) * min(1.0, scale) and hn(136) > 1000000 * min(1.0, scale),
                "class C: only %d try_push calls were made holding a credit (window hook 136 reached %d times)" % (st.get("C_try_push_calls_holding_a_credit", 0), hn(136)))
    chk.require(hn(130) > 10000 and hn(133) > 10000, "ticket hooks (130/133) reached fewer than 10000 times")
    chk.require(hb(132, 1) >= 100, "fewer than 100 pops had to wait for an item that was not written yet (hook 132, arg 1)")
    chk.require(hn(131) >= 1000, "fewer than 1000 page switches under page_mutex observed (hook 131)")
    chk.require(hn(65) >= 1000 and hn(56) >= 500, "bounded-queue sleep path reached too rarely (hooks 65/56)")
    chk.require(st.get("Q_aborts_with_sleepers", 0) >= 100, "class Q: fewer than 100 aborts found a sleeping caller")
    chk.require(st.get("P_aborts_with_sleepers", 0) >= 100, "class P: fewer than 100 aborts found a sleeping pusher")
    chk.require(st.get("R_aborts", 0) >= 2, "class R was not exercised")
    chk.require(st.get("B_try_push_probes_on_empty_queue", 0) >= 2, "class B was not exercised")
    chk.require(st.get("U_pushes_that_threw", 0) >= 200, "class U: fewer than 200 pushes ended with the injected exception")
    chk.require(st.get("G_bad_alloc", 0) >= 100, "class G: fewer than 100 injected page-allocation failures reached a caller")
    chk.extra["windows"] = {
        "histories_decided_by_wgl": {c: st.get("wgl_ok_" + c, 0) for c in "LUGQP"},
        "wgl_total": lin_ok,
        "wgl_budget_exceeded(inconclusive)": st.get("wgl_budget", 0),
        "short_histories_with_overlap": st.get("lin_histories_overlapping", 0),
        "overlapping_pairs_per_short_history": round(st.get("overlapping_pairs", 0) / max(1, st.get("lin_histories_checked", 1)), 2),
        "stress_histories": st.get("S_histories", 0), "stress_ops": st.get("S_ops", 0), "stress_overlapping_ops": st.get("S_concurrent_ops", 0),
        "pop_ticket_taken_before_item_written[no,yes]": [hb(132, 0), hb(132, 1)],
        "page_switch[push_links_page,pop_retires_page]": [hb(131, 0), hb(131, 1)],
        "bounded_waits[pop,push]": [hb(65, 0), hb(65, 1)],
        "kernel_sleeps": hn(56),
        "aborts_that_found_a_sleeper": {c: st.get(c + "_aborts_with_sleepers", 0) for c in "QRP"},
        "aborts": {c: st.get(c + "_aborts", 0) for c in "QRP"},
        "calls_ended_by_user_abort": {c: st.get(c + "_calls_ended_by_user_abort", 0) for c in "QRP"},
        "scenarios_completed": {c: st.get(c + "_scenarios_completed", 0) for c in "QRPB"},
        "injected_ctor_exceptions": {"U": st.get("U_pushes_that_threw", 0), "B": st.get("B_pushes_that_threw", 0)},
        "injected_page_alloc_failures[bad_alloc,bad_last_alloc]": [st.get("G_bad_alloc", 0), st.get("G_bad_last_alloc", 0)],
        "coordinator_help_operations": st.get("helper_ops", 0) + st.get("S_helper_ops", 0),
    }
    return chk.finish()
