#include <oneapi/tbb/concurrent_vector.h>
#include <cstdio>
#include <cstdlib>
#include <new>
#include <thread>
#include <atomic>
#include <chrono>
static int armed=-1;
template<class T> struct FA{ using value_type=T; FA()=default; template<class U> FA(const FA<U>&){} T* allocate(size_t n){ if(armed>=0 && armed--==0) throw std::bad_alloc(); return (T*)::operator new(n*sizeof(T)); } void deallocate(T*p,size_t){ ::operator delete(p);} template<class U> bool operator==(const FA<U>&)const{return true;} template<class U> bool operator!=(const FA<U>&)const{return false;} };
int main(int argc,char**argv){ int k=atoi(argv[1]); std::atomic<int> stage{0}; std::thread wd([&]{ int last=-1,same=0; for(;;){ std::this_thread::sleep_for(std::chrono::milliseconds(200)); int s=stage; if(s==99) return; if(s==last){ if(++same>=15){ printf("k=%d: HANG in stage %d\n",k,s); fflush(stdout); _Exit(3);} } else {same=0;last=s;} } });
  { tbb::concurrent_vector<long,FA<long>> v; v.grow_by(10,5L); stage=1; armed=k; bool threw=false; try{ v.grow_by(5000,5L); }catch(std::bad_alloc&){ threw=true; } armed=-1; stage=2; printf("k=%d: grow_by(5000) %s; size()=%zu capacity()=%zu\n",k,threw?"threw bad_alloc":"succeeded",v.size(),v.capacity()); fflush(stdout);
    size_t ok=0,thr=0; for(size_t i=0;i<v.size();i++){ try{ volatile long x=v.at(i);(void)x; ok++; }catch(...){ thr++; } } stage=3; printf("   at(): ok=%zu threw=%zu\n",ok,thr); fflush(stdout);
    try{ v.push_back(7); printf("   push_back after failure: ok, size()=%zu\n",v.size()); }catch(std::exception&e){ printf("   push_back after failure threw %s\n",e.what()); } stage=4; fflush(stdout);
    try{ v.grow_to_at_least(v.size()+1,6L); printf("   grow_to_at_least after failure: ok\n"); }catch(std::exception&e){ printf("   grow_to_at_least after failure threw %s\n",e.what()); } stage=5; fflush(stdout); }
  stage=99; wd.join(); printf("   destroyed fine\n"); }
