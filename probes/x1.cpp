#include <oneapi/tbb.h>
#include <atomic>
#include <cstdio>
#include <cstdlib>
#include <thread>
#include <vector>
#include <chrono>
#include <memory>
static thread_local unsigned rs=1; static unsigned rnd(){ rs=rs*1664525u+1013904223u; return rs>>8; }
static std::atomic<long> progress{0};
int main(int argc,char**argv){ int secs=atoi(argv[1]); rs=atoi(argv[2]); int P=argc>3?atoi(argv[3]):4;
  std::atomic<bool> stop{false}; tbb::task_arena ar(P);
  std::thread keeper([&]{ while(!stop){ for(int i=0;i<P;i++) ar.enqueue([]{ for(volatile int k=0;k<1000;k++); }); std::this_thread::sleep_for(std::chrono::microseconds(40)); } });
  std::thread wd([&]{ long last=-1; int same=0; while(!stop){ std::this_thread::sleep_for(std::chrono::milliseconds(250)); long p=progress; if(p==last){ if(++same>=24){ printf("VIOLATION: no progress for 6 s (lost task / lost wake-up) after %ld scenarios\n",p); fflush(stdout); _Exit(3);} } else {same=0;last=p;} } });
  auto t0=std::chrono::steady_clock::now(); long scen=0, units=0, bad=0; static tbb::affinity_partitioner ap;
  while(std::chrono::duration<double>(std::chrono::steady_clock::now()-t0).count()<secs && !bad){ scen++; int kind=rnd()%3; int n=1+rnd()%40; std::vector<std::atomic<unsigned char>> cnt(n*3+256); for(auto&c:cnt) c=0; std::vector<int> payload(cnt.size(),0);
    ar.execute([&]{ if(kind==0){ tbb::task_group g; for(int i=0;i<n;i++) g.run([&,i]{ cnt[i]++; payload[i]=i+1; if(rnd()%3==0) for(volatile int k=0;k<(int)(rnd()%500);k++); if(i%5==0) g.run([&,i]{ cnt[n+i]++; payload[n+i]=1; }); }); g.wait(); for(int i=0;i<n;i++){ if(cnt[i]!=1||payload[i]!=i+1){ printf("VIOLATION: unit %d ran %d times (payload %d) in task_group of %d\n",i,(int)cnt[i],payload[i],n); bad++; } if(i%5==0 && cnt[n+i]!=1){ printf("VIOLATION: child unit of %d ran %d times\n",i,(int)cnt[n+i]); bad++; } } units+=n; }
      else if(kind==1){ int m=8+rnd()%56; tbb::parallel_for(tbb::blocked_range<int>(0,m,1),[&](const tbb::blocked_range<int>&r){ for(int i=r.begin();i<r.end();++i){ cnt[i]++; payload[i]=7; } if(rnd()%4==0) for(volatile int k=0;k<(int)(rnd()%800);k++); },ap); for(int i=0;i<m;i++) if(cnt[i]!=1||payload[i]!=7){ printf("VIOLATION: affinity parallel_for element %d visited %d times\n",i,(int)cnt[i]); bad++; } units+=m; }
      else { int m=2+rnd()%30; tbb::parallel_for(0,m,[&](int i){ cnt[i]++; tbb::parallel_for(0,2,[&](int j){ cnt[m+2*i+j]++; }); }); for(int i=0;i<3*m;i++) if(cnt[i]!=1){ printf("VIOLATION: nested element %d visited %d times\n",i,(int)cnt[i]); bad++; } units+=3*m; } });
    progress++; }
  stop=true; keeper.join(); wd.join(); printf("scenarios=%ld units=%ld bad=%ld\n",scen,units,bad); return bad?1:0; }
