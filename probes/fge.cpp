#include <oneapi/tbb/flow_graph.h>
#include <atomic>
#include <cstdio>
#include <cstdlib>
#include <thread>
#include <vector>
#include <chrono>
using namespace tbb::flow;
static thread_local unsigned rs=1; static unsigned rnd(){ rs=rs*1664525u+1013904223u; return rs>>8; }
static std::atomic<long> gseq{1}; static std::atomic<long> progress{0}; struct Boom{int id;};
int main(int argc,char**argv){ int secs=atoi(argv[1]); rs=atoi(argv[2]); std::atomic<bool> stop{false}; std::thread wd([&]{ long last=-1; int same=0; while(!stop){ std::this_thread::sleep_for(std::chrono::milliseconds(500)); long p=progress; if(p==last){ if(++same>=16){ printf("STUCK at round %ld\n",p); fflush(stdout); _Exit(3);} } else {same=0;last=p;} } });
  auto t0=std::chrono::steady_clock::now(); long rounds=0,bad=0,caught=0,cancels=0;
  while(std::chrono::duration<double>(std::chrono::steady_clock::now()-t0).count()<secs && !bad){ rounds++; graph g; std::atomic<int> live{0}; std::atomic<long> last_entry{0}; std::atomic<int> calls{0}; int N=50+rnd()%300; int throw_at= rnd()%3? (int)(rnd()%(2*N)) : -1; int cancel_at= throw_at<0 && rnd()%2? (int)(rnd()%(2*N)) : -1; int conc=rnd()%3; 
    auto work=[&](int x){ int c=calls++; ++live; last_entry=gseq++; if(c==throw_at){ --live; throw Boom{c}; } if(c==cancel_at) g.cancel(); for(volatile int k=0;k<(int)(rnd()%2000);k++); --live; return x; };
    function_node<int,int> f1(g, conc==0? serial : conc==1? 3 : unlimited, [&](int x){ return work(x); }); function_node<int,int,rejecting> f2(g,2,[&](int x){ return work(x); }); queue_node<int> q(g); multifunction_node<int,std::tuple<int>> mf(g,unlimited,[&](const int&x, multifunction_node<int,std::tuple<int>>::output_ports_type& p){ work(x); std::get<0>(p).try_put(x); }); function_node<int,continue_msg> sink(g,serial,[&](int x){ work(x); return continue_msg(); });
    make_edge(f1,q); make_edge(q,f2); make_edge(f2,mf); make_edge(output_port<0>(mf),sink);
    std::thread ext([&]{ for(int i=0;i<N/2;i++) f1.try_put(i); }); for(int i=N/2;i<N;i++) f1.try_put(i); ext.join();
    bool threw=false; int got=-1; try{ g.wait_for_all(); }catch(Boom&b){ threw=true; got=b.id; caught++; }catch(...){ printf("foreign exception\n"); bad++; } long ret=gseq++;
    if(live!=0){ printf("round %ld: wait_for_all %s with %d bodies running\n",rounds,threw?"threw":"returned",live.load()); bad++; } int c1=calls; std::this_thread::sleep_for(std::chrono::microseconds(300)); if(calls!=c1||last_entry>ret){ printf("round %ld: a body started after wait_for_all ended (throw_at=%d cancel_at=%d)\n",rounds,throw_at,cancel_at); bad++; }
    if(throw_at>=0 && throw_at<c1 && !threw){ printf("round %ld: body %d threw but wait_for_all returned normally (exception_thrown=%d)\n",rounds,throw_at,(int)g.exception_thrown()); bad++; } if(threw && got!=throw_at){ printf("wrong exception id\n"); bad++; } if(cancel_at>=0 && cancel_at<c1){ cancels++; if(!g.is_cancelled()){ printf("graph cancelled but is_cancelled()==false\n"); bad++; } }
    if(throw_at<0 && cancel_at<0 && c1!=4*N){ printf("round %ld: clean run executed %d bodies, expected %d\n",rounds,c1,4*N); bad++; }
    // reuse after reset
    if(threw || (cancel_at>=0&&cancel_at<c1)){ g.reset(); throw_at=-1; cancel_at=-1; calls=0; for(int i=0;i<20;i++) f1.try_put(i); try{ g.wait_for_all(); }catch(...){ printf("exception on reuse\n"); bad++; } if(calls!=80){ printf("round %ld: after reset, 20 messages ran %d bodies (expected 80)\n",rounds,calls.load()); bad++; } }
    progress++; }
  stop=true; wd.join(); printf("rounds=%ld caught=%ld cancels=%ld bad=%ld\n",rounds,caught,cancels,bad); return bad?1:0; }
