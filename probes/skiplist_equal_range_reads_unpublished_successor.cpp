// ThreadSanitizer reproducer (build with -fsanitize=thread against a tsan libtbb): concurrent_multimap, 2 inserters + 2 threads calling count().
// Before /repo 9ea1c0e: data race between the key read in internal_equal_range (not_greater_compare) and the allocation of a node inserted by a third thread.
#include <oneapi/tbb/concurrent_map.h>
#include <thread>
#include <atomic>
#include <vector>
#include <cstdio>
#include <random>
int main(int argc, char** argv) {
    int rounds = argc > 1 ? atoi(argv[1]) : 20000;
    const int NT = 4;
    std::atomic<int> phase{0}, arrived{0};
    tbb::concurrent_multimap<int,int>* mm = nullptr;
    std::atomic<bool> stop{false};
    auto barrier = [&](int& local) { ++local; if (arrived.fetch_add(1) + 1 == NT) { arrived.store(0); phase.store(local); } else while (phase.load() < local) std::this_thread::yield(); };
    std::vector<std::thread> th;
    long total = 0; std::atomic<long> tot{0};
    for (int t = 0; t < NT; ++t) th.emplace_back([&, t] {
        std::mt19937 g(t * 7919 + 1); int local = 0; long s = 0;
        for (int r = 0; r < rounds; ++r) {
            if (t == 0) mm = new tbb::concurrent_multimap<int,int>;
            barrier(local);
            if (t < 2) { for (int i = 0; i < 24; ++i) mm->emplace(int(g() % 12), t); }
            else { for (int i = 0; i < 40; ++i) s += mm->count(int(g() % 12)); }
            barrier(local);
            if (t == 0) delete mm;
        }
        tot += s;
    });
    for (auto& x : th) x.join();
    printf("done %ld\n", tot.load());
}
