#include <oneapi/tbb/flow_graph.h>
#include <cstdio>
#include <cstdlib>
#include <vector>
using namespace tbb::flow;
static unsigned rs=1; static unsigned rnd(){ rs=rs*1664525u+1013904223u; return rs>>8; }
int main(int argc,char**argv){ rs=atoi(argv[1]); int rounds=atoi(argv[2]); int dup=argc>3?atoi(argv[3]):1;
  for(int r=0;r<rounds;r++){ int N=5+rnd()%100; graph g; std::vector<int> out; sequencer_node<int> sq(g,[](const int&x){return (size_t)(x%100000);}); function_node<int,continue_msg> sink(g,serial,[&](int x){ out.push_back(x); return continue_msg();}); make_edge(sq,sink);
    std::vector<int> trace; std::vector<int> have(N,0); int puts=N*(dup?3:1); for(int i=0;i<puts;i++){ int seq= dup? rnd()%N : -1; if(!dup){ /* random permutation */ } trace.push_back(seq); }
    if(!dup){ trace.clear(); for(int i=0;i<N;i++) trace.push_back(i); for(int i=N-1;i>0;i--){ int j=rnd()%(i+1); std::swap(trace[i],trace[j]); } }
    std::vector<int> res; for(int t:trace){ bool ok=sq.try_put(1000000+t); res.push_back(ok); if(rnd()%4==0) g.wait_for_all(); }
    for(int i=0;i<N;i++) sq.try_put(2000000+i); g.wait_for_all();
    bool good=(int)out.size()==N; for(size_t i=0;good&&i<out.size();i++) if(out[i]%100000!=(int)i) good=false;
    if(!good){ printf("seed-round %d: N=%d emitted %zu; trace:",r,N,out.size()); for(size_t i=0;i<trace.size()&&i<60;i++) printf(" %d%s",trace[i],res[i]?"":"x"); printf("\n out:"); for(size_t i=0;i<out.size()&&i<40;i++) printf(" %d",out[i]%100000); printf("\n"); return 1; } }
  printf("ok rounds=%d dup=%d\n",rounds,dup); }
