#include <oneapi/tbb/concurrent_queue.h>
#include <atomic>
#include <cstdio>
#include <thread>
#include <chrono>
static std::atomic<int> armed{-1}; struct Boom{};
struct Elem{ long v; Elem(long x=0):v(x){} Elem(const Elem&o):v(o.v){ int a=armed.load(); if(a>=0 && armed.fetch_sub(1)==0) throw Boom(); } Elem& operator=(const Elem&o){v=o.v;return *this;} };
int main(int argc,char**argv){ int mode=argc>1?atoi(argv[1]):0;
  tbb::concurrent_bounded_queue<Elem> q; q.set_capacity(1);
  armed=0; try{ q.push(Elem(1)); printf("push 1 did not throw?\n"); }catch(Boom&){ printf("push(1) threw as injected; size()=%td empty()=%d\n",q.size(),(int)q.empty()); } armed=-1;
  std::atomic<bool> pushed{false}, popped{false}; long got=-1;
  std::thread prod([&]{ q.push(Elem(2)); pushed=true; });
  std::this_thread::sleep_for(std::chrono::milliseconds(200)); printf("after 200 ms: second push into the EMPTY capacity-1 queue completed=%d\n",(int)pushed.load());
  std::thread cons([&]{ Elem x; if(mode==0){ q.pop(x); got=x.v; popped=true; } else { while(!q.try_pop(x)) std::this_thread::yield(); got=x.v; popped=true; } });
  for(int i=0;i<30 && !(pushed&&popped);i++) std::this_thread::sleep_for(std::chrono::milliseconds(100));
  printf("after 3 s: pushed=%d popped=%d value=%ld  => %s\n",(int)pushed.load(),(int)popped.load(),got,(pushed&&popped)?"ok":"DEADLOCK: producer waits for space, consumer waits for an item"); fflush(stdout); _Exit((pushed&&popped)?0:3); }
