#include <oneapi/tbb/concurrent_queue.h>
#include <cstdio>
#include <new>
static int armed=-1;
template<class T> struct FA{ using value_type=T; FA()=default; template<class U> FA(const FA<U>&){} T* allocate(size_t n){ if(armed>=0 && armed--==0) throw std::bad_alloc(); return (T*)::operator new(n*sizeof(T)); } void deallocate(T*p,size_t){ ::operator delete(p);} template<class U> bool operator==(const FA<U>&)const{return true;} template<class U> bool operator!=(const FA<U>&)const{return false;} };
struct Big{ long v; char pad[120]; };
int main(int argc,char**argv){ int k=argc>1?atoi(argv[1]):0; tbb::concurrent_queue<Big,FA<Big>> q; Big b{}; int ok=0,exc=0,last=0;
  armed=-1; for(int i=0;i<k;i++){ b.v=i; q.push(b); ok++; }
  armed=0; for(int i=0;i<12;i++){ b.v=100+i; try{ q.push(b); ok++; }catch(std::bad_alloc&){ exc++; }catch(...){ last++; } } armed=-1;
  printf("pushed ok=%d bad_alloc=%d other(bad_last_alloc)=%d unsafe_size=%zu empty=%d\n",ok,exc,last,q.unsafe_size(),(int)q.empty()); fflush(stdout);
  Big x; int n=0; while(q.try_pop(x)){ n++; } printf("popped %d\n",n); }
