#include <oneapi/tbb/concurrent_vector.h>
#include <atomic>
#include <cstdio>
#include <cstdlib>
#include <thread>
#include <vector>
#include <new>
#include <chrono>
static std::atomic<int> armed{-1};
template<class T> struct FA{ using value_type=T; FA()=default; template<class U> FA(const FA<U>&){} T* allocate(size_t n){ int a=armed.load(); if(a>=0 && armed.fetch_sub(1)==0) throw std::bad_alloc(); return (T*)::operator new(n*sizeof(T)); } void deallocate(T*p,size_t){ ::operator delete(p);} template<class U> bool operator==(const FA<U>&)const{return true;} template<class U> bool operator!=(const FA<U>&)const{return false;} };
static thread_local unsigned rs=1; static unsigned rnd(){ rs=rs*1664525u+1013904223u; return rs>>8; }
static std::atomic<long> progress{0};
int main(int argc,char**argv){ int secs=atoi(argv[1]); rs=atoi(argv[2]); int nt_max=atoi(argv[3]); std::atomic<bool> stop{false}; std::thread wd([&]{ long last=-1; int same=0; while(!stop){ std::this_thread::sleep_for(std::chrono::milliseconds(500)); long p=progress; if(p==last){ if(++same>=1200){ printf("HANG at round %ld (allocation failure fired: %s)\n",p,armed.load()<0?"yes":"no"); fflush(stdout); _Exit(3);} } else {same=0;last=p;} } });
  auto t0=std::chrono::steady_clock::now(); long rounds=0,bad=0,excs=0;
  while(std::chrono::duration<double>(std::chrono::steady_clock::now()-t0).count()<secs && !bad){ rounds++; { tbb::concurrent_vector<long,FA<long>> v; int nt=1+rnd()%nt_max; std::atomic<long> exc{0}; armed=rnd()%12; std::vector<std::thread> th; for(int t=0;t<nt;t++) th.emplace_back([&,t]{ rs=rounds*7+t; for(int i=0;i<40;i++){ try{ unsigned op=rnd()%3; if(op==0) v.push_back(t*1000+i); else if(op==1) v.grow_by(1+rnd()%300,5L); else v.grow_to_at_least(v.size()+1+rnd()%100,6L); }catch(std::bad_alloc&){ exc++; }catch(std::exception&){ exc++; } } }); for(auto&t:th)t.join(); armed=-1; excs+=exc; size_t ok=0,thr=0; for(size_t i=0;i<v.size();i++){ try{ volatile long x=v.at(i); (void)x; ok++; }catch(...){ thr++; } } } progress++; }
  stop=true; wd.join(); printf("rounds=%ld exceptions=%ld bad=%ld\n",rounds,excs,bad); return bad?1:0; }
