#include <oneapi/tbb/flow_graph.h>
#include <atomic>
#include <cstdio>
#include <cstdlib>
#include <thread>
#include <vector>
#include <set>
#include <mutex>
#include <chrono>
using namespace tbb::flow;
static thread_local unsigned rs=1; static unsigned rnd(){ rs=rs*1664525u+1013904223u; return rs>>8; }
static std::atomic<long> progress{0}; static std::atomic<int> phase{0};
int main(int argc,char**argv){ int secs=atoi(argv[1]); rs=atoi(argv[2]); std::atomic<bool> stop{false}; std::thread wd([&]{ long last=-1; int same=0; while(!stop){ std::this_thread::sleep_for(std::chrono::milliseconds(500)); long p=progress; if(p==last){ if(++same>=16){ printf("STUCK phase=%d progress=%ld\n",phase.load(),p); fflush(stdout); _Exit(3);} } else {same=0;last=p;} } });
  auto t0=std::chrono::steady_clock::now(); long rounds=0,bad=0;
  while(std::chrono::duration<double>(std::chrono::steady_clock::now()-t0).count()<secs && !bad){ rounds++; int N=20+rnd()%150;
    { phase=1; // two reserving joins competing for a shared middle buffer
      graph g; queue_node<int> b0(g),b1(g),b2(g); using J=join_node<std::tuple<int,int>,reserving>; J j1(g),j2(g); std::mutex m; std::vector<int> used0,used1,used2; 
      function_node<std::tuple<int,int>,continue_msg,rejecting> s1(g,serial,[&](const std::tuple<int,int>&t){ std::lock_guard<std::mutex> l(m); used0.push_back(std::get<0>(t)); used1.push_back(std::get<1>(t)); if(rnd()%4==0) for(volatile int k=0;k<2000;k++); return continue_msg();});
      function_node<std::tuple<int,int>,continue_msg> s2(g,unlimited,[&](const std::tuple<int,int>&t){ std::lock_guard<std::mutex> l(m); used1.push_back(std::get<0>(t)); used2.push_back(std::get<1>(t)); return continue_msg();});
      make_edge(b0,input_port<0>(j1)); make_edge(b1,input_port<1>(j1)); make_edge(b1,input_port<0>(j2)); make_edge(b2,input_port<1>(j2)); make_edge(j1,s1); make_edge(j2,s2);
      std::thread A([&]{ for(int i=0;i<N;i++) b0.try_put(i);}), B([&]{ for(int i=0;i<2*N;i++) b1.try_put(1000+i);}), C([&]{ for(int i=0;i<N;i++) b2.try_put(5000+i);}); A.join();B.join();C.join(); g.wait_for_all();
      std::set<int> s; for(int x:used1) if(!s.insert(x).second){ printf("round %ld: shared buffer item %d used in two tuples\n",rounds,x); bad++; break; } std::set<int> s0(used0.begin(),used0.end()), s2s(used2.begin(),used2.end()); if(s0.size()!=used0.size()||s2s.size()!=used2.size()){ printf("dup in outer buffers\n"); bad++; }
      int rest0=0,rest1=0,rest2=0,v; while(b0.try_get(v)) rest0++; while(b1.try_get(v)){ if(!s.insert(v).second){ printf("item both used and still buffered\n"); bad++; } rest1++; } while(b2.try_get(v)) rest2++; if((int)used0.size()+rest0!=N||(int)used1.size()+rest1!=2*N||(int)used2.size()+rest2!=N){ printf("round %ld: conservation broken: b0 %zu+%d/%d b1 %zu+%d/%d b2 %zu+%d/%d\n",rounds,used0.size(),rest0,N,used1.size(),rest1,2*N,used2.size(),rest2,N); bad++; }
      // all three had enough items: N tuples at j1 and N at j2 are possible; with both fully fed nothing should remain
      if(!bad && (rest0||rest1||rest2)){ printf("round %ld: wait_for_all returned with buffered items that still form tuples: rest %d %d %d\n",rounds,rest0,rest1,rest2); bad++; } progress++; }
    { phase=2; // key_matching with interleaved duplicate-free keys from 3 threads into 3 ports
      graph g; using J3=join_node<std::tuple<int,int,int>,key_matching<int>>; J3 j(g,[](int x){return x%1000;},[](int x){return x%1000;},[](int x){return x%1000;}); std::vector<std::tuple<int,int,int>> out; function_node<std::tuple<int,int,int>,continue_msg> s(g,serial,[&](const std::tuple<int,int,int>&t){ out.push_back(t); return continue_msg();}); make_edge(j,s);
      std::thread A([&]{ for(int i=0;i<N;i++) input_port<0>(j).try_put(i);}), B([&]{ for(int i=N-1;i>=0;i--) input_port<1>(j).try_put(1000+i);}), C([&]{ for(int i=0;i<N;i+=1) input_port<2>(j).try_put(2000+(i*7)%N);}); A.join();B.join();C.join(); g.wait_for_all(); std::set<int> keys; for(auto&t:out){ int k=std::get<0>(t)%1000; if(std::get<1>(t)%1000!=k||std::get<2>(t)%1000!=k){ printf("key mismatch\n"); bad++; } keys.insert(k); } bool perm=true; { std::set<int> c; for(int i=0;i<N;i++) c.insert((i*7)%N); perm=(int)c.size()==N; } if(perm && ((int)out.size()!=N||(int)keys.size()!=N)){ printf("round %ld: key_matching produced %zu tuples for %d complete keys\n",rounds,out.size(),N); bad++; } progress++; }
  }
  stop=true; wd.join(); printf("rounds=%ld bad=%ld\n",rounds,bad); return bad?1:0; }
