#include <oneapi/tbb/concurrent_hash_map.h>
#include <oneapi/tbb/concurrent_unordered_map.h>
#include <oneapi/tbb/concurrent_unordered_set.h>
#include <oneapi/tbb/concurrent_map.h>
#include <oneapi/tbb/concurrent_set.h>
#include <atomic>
#include <cstdio>
#include <cstdlib>
#include <thread>
#include <vector>
#include <set>
#include <map>
#include <chrono>
static thread_local unsigned rs=1; static unsigned rnd(){ rs=rs*1664525u+1013904223u; return rs>>8; }
struct Val{ std::atomic<int> w{0},r{0}; int payload=0; static std::atomic<long> bad; Val(){} Val(const Val&o):payload(o.payload){} ~Val(){ if(w.load()||r.load()){ printf("element destroyed while held (w=%d r=%d)\n",w.load(),r.load()); bad++; } } };
std::atomic<long> Val::bad{0};
template<int MODE> struct HC{ static size_t hash(int k){ return MODE==0? (size_t)k : MODE==1? 0 : MODE==2? (size_t)k<<8 : (size_t)(k*2654435761u); } static bool equal(int a,int b){return a==b;} };
template<int MODE> long hm_round(int nt,int nkeys,int ops){ using M=tbb::concurrent_hash_map<int,Val,HC<MODE>>; M m(1); std::vector<std::atomic<int>> ins(nkeys),ers(nkeys); for(auto&x:ins)x=0; for(auto&x:ers)x=0; std::atomic<long> bad{0}; std::atomic<int> go{0};
  std::vector<std::thread> th; for(int t=0;t<nt;t++) th.emplace_back([&,t]{ rs=rnd()+t*977+1; go++; while(go.load()<nt); for(int i=0;i<ops;i++){ int k=rnd()%nkeys; unsigned op=rnd()%10;
      if(op<3){ typename M::accessor a; bool ok=m.insert(a,k); if(ok) ins[k]++; Val& v=a->second; if(v.w.fetch_add(1)!=0||v.r.load()!=0){ printf("accessor not exclusive\n"); bad++; } v.payload++; if(rnd()%4==0) for(volatile int z=0;z<(int)(rnd()%300);z++); v.w--; a.release(); }
      else if(op<4){ if(m.insert(std::make_pair(k,Val()))) ins[k]++; }
      else if(op<6){ typename M::const_accessor a; if(m.find(a,k)){ const Val& v=a->second; const_cast<Val&>(v).r++; if(v.w.load()!=0){ printf("reader with writer\n"); bad++; } if(rnd()%4==0) for(volatile int z=0;z<(int)(rnd()%300);z++); const_cast<Val&>(v).r--; } }
      else if(op<7){ typename M::accessor a; if(m.find(a,k)){ Val&v=a->second; if(v.w.fetch_add(1)!=0||v.r.load()!=0){ printf("accessor(find) not exclusive\n"); bad++; } v.w--; if(rnd()%3==0){ if(m.erase(a)) ers[k]++; } } }
      else if(op<9){ if(m.erase(k)) ers[k]++; }
      else { (void)m.count(k); } } });
  for(auto&t:th)t.join(); size_t present=0; for(int k=0;k<nkeys;k++){ int d=ins[k]-ers[k]; bool has=m.count(k)!=0; if(d!=0&&d!=1){ printf("key %d: successful inserts %d vs erases %d\n",k,ins[k].load(),ers[k].load()); bad++; } if((d==1)!=has){ printf("key %d: model says %d, map says %d\n",k,d,(int)has); bad++; } present+=has; } size_t trav=0; std::set<int> seen; for(auto it=m.begin();it!=m.end();++it){ trav++; if(!seen.insert(it->first).second){ printf("duplicate key in traversal\n"); bad++; } } if(trav!=present||m.size()!=present){ printf("size mismatch trav=%zu size=%zu model=%zu\n",trav,m.size(),present); bad++; } return bad; }
template<class C,class Ins,class Find> long ins_round(const char*name,int nt,int nkeys,int per,bool unique,Ins ins,Find find){ C c; std::vector<std::atomic<int>> succ(nkeys); for(auto&x:succ)x=0; std::vector<std::atomic<int>> done(nkeys); for(auto&x:done)x=0; std::atomic<long> bad{0}; std::atomic<int> go{0}; std::atomic<bool> stop{false};
  std::thread trav([&]{ while(!stop){ std::vector<int> before(nkeys); for(int k=0;k<nkeys;k++) before[k]=done[k].load(); std::map<int,int> seen; int prev=-1; bool ordered=true; for(auto it=c.begin();it!=c.end();++it){ int k=*it; seen[k]++; if(k<prev) ordered=false; prev=k; } for(int k=0;k<nkeys;k++){ if(before[k]>0 && seen[k]<(unique?1:before[k])){ printf("%s: traversal missed key %d (inserted before it began: %d, seen %d)\n",name,k,before[k],seen[k]); bad++; } if(unique&&seen[k]>1){ printf("%s: traversal saw key %d %d times\n",name,k,seen[k]); bad++; } } if(name[0]=='o' && !ordered){ printf("%s: traversal out of order\n",name); bad++; } } });
  std::vector<std::thread> th; for(int t=0;t<nt;t++) th.emplace_back([&,t]{ rs=rnd()+t*131+7; go++; while(go.load()<nt); for(int i=0;i<per;i++){ int k=rnd()%nkeys; if(rnd()%3){ bool ok=ins(c,k); if(ok){ succ[k]++; } if(ok||unique){ done[k]++; if(!find(c,k)){ printf("%s: find(%d) failed right after insert returned\n",name,k); bad++; } } } else { int d=done[k].load(); bool f=find(c,k); if(d>0&&!f){ printf("%s: find(%d) missed a completed insert\n",name,k); bad++; } } } });
  for(auto&t:th)t.join(); stop=true; trav.join(); std::map<int,int> fin; for(auto it=c.begin();it!=c.end();++it) fin[*it]++; for(int k=0;k<nkeys;k++){ if(unique){ if(succ[k]>1){ printf("%s: key %d inserted successfully %d times\n",name,k,succ[k].load()); bad++; } if((succ[k]==1)!=(fin[k]==1)){ printf("%s: key %d final count %d vs successes %d\n",name,k,fin[k],succ[k].load()); bad++; } } else if(fin[k]!=succ[k]){ printf("%s: multi key %d final %d vs inserts %d\n",name,k,fin[k],succ[k].load()); bad++; } } return bad; }
struct OneBucket{ size_t operator()(int)const{return 0;} }; struct Ident{ size_t operator()(int k)const{return (size_t)k;} };
int main(int argc,char**argv){ int secs=atoi(argv[1]); rs=atoi(argv[2]); auto t0=std::chrono::steady_clock::now(); long rounds=0,bad=0;
  while(std::chrono::duration<double>(std::chrono::steady_clock::now()-t0).count()<secs && !bad){ rounds++; int nt=2+rnd()%5; int nk=1+rnd()%24; int ops=200+rnd()%800;
    switch(rnd()%4){ case 0: bad+=hm_round<0>(nt,nk,ops); break; case 1: bad+=hm_round<1>(nt,nk,ops); break; case 2: bad+=hm_round<2>(nt,nk,ops); break; default: bad+=hm_round<3>(nt,nk,ops);} 
    int nk2=1+rnd()%200;
    bad+=ins_round<tbb::concurrent_unordered_set<int,Ident>>("unordered_set",nt,nk2,ops,true,[](auto&c,int k){return c.insert(k).second;},[](auto&c,int k){return c.find(k)!=c.end();});
    bad+=ins_round<tbb::concurrent_unordered_set<int,OneBucket>>("unordered_set/1bucket",nt,nk2,ops/2,true,[](auto&c,int k){return c.insert(k).second;},[](auto&c,int k){return c.contains(k);});
    bad+=ins_round<tbb::concurrent_unordered_multiset<int,Ident>>("unordered_multiset",nt,nk2,ops/2,false,[](auto&c,int k){c.insert(k);return true;},[](auto&c,int k){return c.count(k)>0;});
    bad+=ins_round<tbb::concurrent_set<int>>("ordered_set",nt,nk2,ops,true,[](auto&c,int k){return c.insert(k).second;},[](auto&c,int k){return c.find(k)!=c.end();});
    bad+=ins_round<tbb::concurrent_multiset<int>>("ordered_multiset",nt,nk2,ops/2,false,[](auto&c,int k){c.insert(k);return true;},[](auto&c,int k){return c.contains(k);}); }
  bad+=Val::bad; printf("rounds=%ld bad=%ld\n",rounds,bad); return bad?1:0; }
