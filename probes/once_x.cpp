// Deterministic reproducer of the known finding once.runner-destructor-spins-in-arena-slot (property C19, key c19.onceX.hang.*):
// collaborative_call_once: winners spin in ~collaborative_once_runner while holding their arena slots; helpers that hold the
// lifetime guard wait for a slot of that (full) arena -> nobody ever returns. Prints "after 5 s: 0 of 4 callers returned".
// Build: g++ -std=c++17 -O2 -g -I/repo/include probes/once_x.cpp -o once_x -L<libdir> -Wl,-rpath,<libdir> -ltbb -lpthread
#include <oneapi/tbb/collaborative_call_once.h>
#include <oneapi/tbb/task_arena.h>
#include <oneapi/tbb/global_control.h>
#include <atomic>
#include <thread>
#include <chrono>
#include <cstdio>
using namespace std::chrono_literals;
int main() {
    tbb::task_arena X(2, 1);                      // two slots
    tbb::collaborative_once_flag flag;
    std::atomic<int> attempt{0}, returned{0};
    auto f = [&] { int a = attempt++; std::printf("attempt %d starts\n", a); std::this_thread::sleep_for(400ms); if (a == 0) { std::printf("attempt 0 throws\n"); throw 1; } std::printf("attempt %d completes\n", a); };
    auto call = [&](const char* who) { try { tbb::collaborative_call_once(flag, f); std::printf("%s returned\n", who); } catch (int) { std::printf("%s caught\n", who); } returned++; };
    std::thread A([&] { X.execute([&] { call("A (inside X)"); }); });                 // winner of attempt 0, holds slot 0 of X
    std::this_thread::sleep_for(100ms);
    std::thread B([&] { X.execute([&] { call("B (inside X)"); }); });                 // helper inside X (slot 1); winner of attempt 1 after the throw
    std::this_thread::sleep_for(100ms);
    std::thread C([&] { call("C (outside X)"); });                                    // takes the lifetime guard of A's runner, waits for a slot of X
    std::this_thread::sleep_for(400ms);                                               // attempt 0 has thrown, B runs attempt 1
    std::thread D([&] { call("D (outside X)"); });                                    // takes the lifetime guard of B's runner, waits for a slot of X
    for (int i = 0; i < 50 && returned.load() < 4; i++) std::this_thread::sleep_for(100ms);
    std::printf("after 5 s: %d of 4 callers returned, attempts=%d\n", returned.load(), attempt.load());
    if (returned.load() < 4) { std::fflush(stdout); _Exit(1); }
    A.join(); B.join(); C.join(); D.join();
    return 0;
}
