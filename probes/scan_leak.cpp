#include <oneapi/tbb.h>
#include <cstdio>
#include <atomic>
static std::atomic<long> objs{0}, thrown{0}; static std::atomic<int> arm{-1};
struct B { long sum=0; B(){objs++;} B(B& b, tbb::split){ objs++; } B(const B&)=delete; ~B(){objs--;}
  template<class Tag> void operator()(const tbb::blocked_range<int>& r, Tag){ if(arm.fetch_sub(1)==0){ thrown++; throw 1; } for(int i=r.begin();i<r.end();++i) sum+=i; }
  void reverse_join(B& a){ sum=a.sum+sum; } void assign(B& b){ sum=b.sum; } };
int main(){ int caught=0; for(int round=0; round<2000; round++){ arm = round%50; { B b; try{ tbb::parallel_scan(tbb::blocked_range<int>(0,5000,16), b); }catch(int){ caught++; } } if(objs.load()!=0){ printf("round %d: %ld Body objects not destroyed (thrown so far %ld)\n", round, objs.load(), thrown.load()); return 1; } } printf("ok caught=%d thrown=%ld objs=%ld\n",caught,thrown.load(),objs.load()); }
