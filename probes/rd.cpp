#include <oneapi/tbb.h>
#include <atomic>
#include <cstdio>
#include <cstdlib>
#include <cstring>
#include <vector>
#include <algorithm>
#include <numeric>
#include <string>
static thread_local unsigned rs=1; static unsigned rnd(){ rs=rs*1664525u+1013904223u; return rs>>8; }
static long bad=0,cases=0;
using Seq=std::vector<int>;
static void spin(){ if(rnd()%6==0) for(volatile int k=0;k<(int)(rnd()%4000);k++); }
struct RBody{ Seq s; static std::atomic<int> live; RBody(){} RBody(RBody&,tbb::split){} void operator()(const tbb::blocked_range<int>&r){ for(int i=r.begin();i<r.end();++i) s.push_back(i); spin(); } void join(RBody&o){ s.insert(s.end(),o.s.begin(),o.s.end()); } };
template<class P> void reduce_case(int n,int g,P&& part,const char*pn,int T){ cases++; tbb::task_arena a(T); Seq got; RBody b; a.execute([&]{ got=tbb::parallel_reduce(tbb::blocked_range<int>(0,n,g),Seq(),[&](const tbb::blocked_range<int>&r,Seq acc){ for(int i=r.begin();i<r.end();++i) acc.push_back(i); spin(); return acc; },[](Seq x,const Seq&y){ x.insert(x.end(),y.begin(),y.end()); return x; },part); tbb::parallel_reduce(tbb::blocked_range<int>(0,n,g),b,part); });
  bool ok=(int)got.size()==n && (int)b.s.size()==n; for(int i=0;ok&&i<n;i++) if(got[i]!=i||b.s[i]!=i) ok=false; if(!ok){ printf("reduce %s n=%d g=%d T=%d: operand order/multiplicity broken (sizes %zu,%zu)\n",pn,n,g,T,got.size(),b.s.size()); bad++; } }
static void det_case(int n,int g){ cases++; std::vector<float> v(n); for(int i=0;i<n;i++) v[i]=(float)((i*2654435761u)%100003)/7.0f*(i%3?1.f:-1e-3f); float ref=0; bool have=false; for(int T: {1,2,3,8,16}){ for(int rep=0;rep<2;rep++){ tbb::task_arena a(T); float r=0; a.execute([&]{ r=tbb::parallel_deterministic_reduce(tbb::blocked_range<int>(0,n,g),0.f,[&](const tbb::blocked_range<int>&rg,float acc){ for(int i=rg.begin();i<rg.end();++i) acc+=v[i]; spin(); return acc; },[](float x,float y){return x+y;}, rep? tbb::simple_partitioner(): tbb::simple_partitioner()); }); if(!have){ref=r;have=true;} else if(memcmp(&r,&ref,4)){ printf("deterministic_reduce n=%d g=%d T=%d differs bitwise: %a vs %a\n",n,g,T,r,ref); bad++; return; } } } }
static void scan_case(int n,int g,int T){ cases++; std::vector<long> in(n),out(n,-1); std::vector<unsigned char> fin(n,0); for(int i=0;i<n;i++) in[i]=(i*7919)%1000-300; tbb::task_arena a(T); long tot=0; a.execute([&]{ tot=tbb::parallel_scan(tbb::blocked_range<int>(0,n,g),0L,[&](const tbb::blocked_range<int>&r,long s,bool final){ for(int i=r.begin();i<r.end();++i){ s+=in[i]; if(final){ out[i]=s; fin[i]++; } } spin(); return s; },[](long x,long y){return x+y;}); }); long s=0; bool ok=true; for(int i=0;i<n;i++){ s+=in[i]; if(out[i]!=s||fin[i]!=1){ printf("scan n=%d g=%d T=%d: element %d prefix %ld (want %ld) final passes %d\n",n,g,T,i,out[i],s,(int)fin[i]); ok=false; break; } } if(tot!=s){ printf("scan total %ld != %ld\n",tot,s); ok=false; } if(!ok) bad++; }
struct KV{ int k; int idx; }; static void sort_case(std::vector<KV> v,const char* what,bool coarse){ cases++; std::vector<KV> orig=v; auto cmp=[&](const KV&a,const KV&b){ return coarse? a.k/8<b.k/8 : a.k<b.k; }; tbb::parallel_sort(v.begin(),v.end(),cmp); bool ok=std::is_sorted(v.begin(),v.end(),cmp); std::vector<int> seen(orig.size(),0); for(auto&e:v){ if(e.idx<0||e.idx>=(int)orig.size()||orig[e.idx].k!=e.k){ ok=false; break;} seen[e.idx]++; } for(int c:seen) if(c!=1) ok=false; if(!ok){ printf("sort %s n=%zu: not a sorted permutation\n",what,orig.size()); bad++; } }
int main(int argc,char**argv){ rs=atoi(argv[1]); int reps=atoi(argv[2]); static tbb::affinity_partitioner ap;
  for(int rep=0;rep<reps;rep++){
   for(int n: {0,1,2,3,5,8,17,64,100,257,1000,4099,20000}) for(int g: {1,2,3,7,n/3+1,n+1}){ int T=1+rnd()%16; reduce_case(n,g,tbb::auto_partitioner(),"auto",T); reduce_case(n,g,tbb::simple_partitioner(),"simple",T); reduce_case(n,g,tbb::static_partitioner(),"static",T); reduce_case(n,g,ap,"affinity",T); scan_case(n,g,T); if(n>0) det_case(n,g); }
   for(int n: {2,9,10,100,498,499,500,501,502,511,512,513,520,1000,5000}){ std::vector<KV> s(n); for(int i=0;i<n;i++) s[i]={i,i}; sort_case(s,"sorted",false); for(int pos=0; pos+1<n; pos+= (n<=520?1: 1+rnd()%97)){ auto t=s; std::swap(t[pos].k,t[pos+1].k); sort_case(t,"one inversion",false); } auto r=s; std::reverse(r.begin(),r.end()); for(int i=0;i<n;i++) r[i].idx=i; sort_case(r,"reverse",false); auto e=s; for(auto&x:e) x.k=5; sort_case(e,"all equal",false); auto f=s; for(auto&x:f) x.k=rnd()%7; sort_case(f,"few keys",false); auto c=s; for(auto&x:c) x.k=rnd()%1000; sort_case(c,"coarse cmp",true); }
  }
  printf("cases=%ld bad=%ld\n",cases,bad); return bad?1:0; }
