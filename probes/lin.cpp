#include <oneapi/tbb.h>
#include <atomic>
#include <cstdio>
#include <cstdlib>
#include <thread>
#include <vector>
#include <algorithm>
#include <map>
#include <set>
#include <chrono>
static thread_local unsigned rs=1; static unsigned rnd(){ rs=rs*1664525u+1013904223u; return rs>>8; }
static std::atomic<long> gseq{1};
struct Op{ int kind; long v; bool ok; long call,ret; }; // kind 0 push, 1 pop
int main(int argc,char**argv){ int secs=atoi(argv[1]); rs=atoi(argv[2]); auto t0=std::chrono::steady_clock::now(); long rounds=0,bad=0,ops=0;
  while(std::chrono::duration<double>(std::chrono::steady_clock::now()-t0).count()<secs && !bad){ rounds++; int nt=2+rnd()%5; int per=30+rnd()%200; int which=rnd()%3; tbb::concurrent_priority_queue<long> pq; tbb::concurrent_queue<long> cq; tbb::concurrent_bounded_queue<long> bq; bq.set_capacity(1+rnd()%5); std::vector<std::vector<Op>> log(nt); std::atomic<int> go{0};
    std::vector<std::thread> th; for(int t=0;t<nt;t++) th.emplace_back([&,t]{ rs=rounds*31+t; go++; while(go.load()<nt); long seqno=0; for(int i=0;i<per;i++){ bool push=rnd()%2; Op o; o.kind=!push; if(push){ long v = which==0? (long)(rnd()%50)*100000+ t*1000 + (seqno++) : (long)t*1000000+(seqno++); o.v=v; o.call=gseq++; if(which==0){ pq.push(v); o.ok=true; } else if(which==1){ cq.push(v); o.ok=true; } else { o.ok=bq.try_push(v); } o.ret=gseq++; } else { long v=-1; o.call=gseq++; o.ok = which==0? pq.try_pop(v) : which==1? cq.try_pop(v) : bq.try_pop(v); o.ret=gseq++; o.v=v; } log[t].push_back(o); if(rnd()%8==0) for(volatile int k=0;k<(int)(rnd()%1500);k++); } });
    for(auto&x:th)x.join(); std::vector<Op> pushes,pops,empties; for(auto&l:log) for(auto&o:l){ if(o.kind==0){ if(o.ok) pushes.push_back(o);} else if(o.ok) pops.push_back(o); else empties.push_back(o); } ops+=(long)nt*per;
    // drain
    std::vector<long> rest; long v; if(which==0) while(pq.try_pop(v)) rest.push_back(v); else if(which==1) while(cq.try_pop(v)) rest.push_back(v); else while(bq.try_pop(v)) rest.push_back(v);
    std::map<long,Op> pushed; for(auto&p:pushes) pushed[p.v]=p; std::set<long> seen; for(auto&p:pops){ if(!pushed.count(p.v)){ printf("round %ld: popped value %ld never pushed\n",rounds,p.v); bad++; } if(!seen.insert(p.v).second){ printf("round %ld: value %ld popped twice\n",rounds,p.v); bad++; } if(pushed.count(p.v) && p.ret < pushed[p.v].call){ printf("pop returned before its push was invoked\n"); bad++; } } for(long r:rest){ if(!seen.insert(r).second){ printf("dup in drain\n"); bad++; } } if(seen.size()!=pushed.size()){ printf("round %ld: %zu values pushed, %zu accounted for\n",rounds,pushed.size(),seen.size()); bad++; }
    std::map<long,long> popcall,popret; for(auto&p:pops){ popcall[p.v]=p.call; popret[p.v]=p.ret; } const long INF=1L<<60;
    if(which==0){ // priority: pop X must not have a strictly greater Y with push(Y).ret < pop(X).call and (Y popped with call > pop(X).ret or never popped concurrently)
      for(auto&x:pops) for(auto&kv:pushed){ long y=kv.first; if(y/100000 <= x.v/100000) continue; if(kv.second.ret < x.call){ long yc = popcall.count(y)? popcall[y] : INF; if(yc > x.ret){ printf("round %ld: try_pop returned %ld although %ld (higher priority, pushed before, still inside) was available\n",rounds,x.v,y); bad++; goto done; } } } }
    else { // FIFO: push(A).ret < push(B).call and B popped => A must be popped, and not strictly after B's pop (pop(A).call must be < pop(B).ret)
      for(auto&b:pops){ const Op& pb=pushed[b.v]; for(auto&kv:pushed){ const Op& pa=kv.second; if(pa.ret < pb.call){ long ac = popcall.count(kv.first)? popcall[kv.first] : INF; if(ac > b.ret){ printf("round %ld (%s): %ld was pushed strictly before %ld, yet %ld was popped first (pop of the older one %s)\n",rounds,which==1?"concurrent_queue":"bounded_queue",kv.first,b.v,b.v, ac==INF?"never happened":"started after it returned"); bad++; goto done; } } } } }
    // empty: try_pop returned false although some value was inside during the whole call: pushed before call, popped after ret (or never)
    for(auto&e:empties) for(auto&kv:pushed){ if(kv.second.ret < e.call){ long yc=popcall.count(kv.first)? popcall[kv.first]:INF; if(yc > e.ret){ printf("round %ld: try_pop reported empty while %ld was inside for the whole call\n",rounds,kv.first); bad++; goto done; } } }
    done:; }
  printf("rounds=%ld ops=%ld bad=%ld\n",rounds,ops,bad); return bad?1:0; }
