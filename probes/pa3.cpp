// dbg-build reproducer: pop races with invalidate_page (page allocation failure): tail_counter is published before head_page
#include <oneapi/tbb/concurrent_queue.h>
#include <atomic>
#include <cstdio>
#include <thread>
#include <new>
static std::atomic<int> armed{-1};
template<class T> struct FA{ using value_type=T; FA()=default; template<class U> FA(const FA<U>&){} T* allocate(size_t n){ if(armed.load()>=0 && armed.fetch_sub(1)==0) throw std::bad_alloc(); return (T*)::operator new(n*sizeof(T)); } void deallocate(T*p,size_t){ ::operator delete(p);} template<class U> bool operator==(const FA<U>&)const{return true;} template<class U> bool operator!=(const FA<U>&)const{return false;} };
int main(){
  for(long rd=0; rd<2000000; rd++){
    tbb::concurrent_queue<long,FA<long>> q; std::atomic<int> go{0};
    armed=0;                                   // the very first page allocation fails
    std::thread c([&]{ go++; while(go<2); long v; for(int i=0;i<3;i++) q.try_pop(v); });
    go++; while(go<2);
    try{ q.push(1); }catch(std::bad_alloc&){}
    c.join(); armed=-1;
    if(rd%100000==0){ printf("round %ld ok\n",rd); fflush(stdout);} }
  printf("no assertion\n"); }
