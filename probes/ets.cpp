#include <oneapi/tbb.h>
#include <atomic>
#include <cstdio>
#include <cstdlib>
#include <thread>
#include <vector>
#include <set>
#include <map>
#include <mutex>
#include <chrono>
static thread_local unsigned rs=1; static unsigned rnd(){ rs=rs*1664525u+1013904223u; return rs>>8; }
template<tbb::ets_key_usage_type K> long round_(int nt,int waves){ std::atomic<int> inits{0}; tbb::enumerable_thread_specific<long,tbb::cache_aligned_allocator<long>,K> ets([&]{ inits++; return 0L; }); std::mutex m; std::map<void*,int> owners; std::set<std::thread::id> ids; std::set<void*> allelems; long bad=0; int total_threads=0; long expect_sum=0;
  for(int w=0;w<waves;w++){ owners.clear(); std::atomic<int> go{0}; std::vector<std::thread> th; for(int t=0;t<nt;t++) th.emplace_back([&,t]{ go++; while(go.load()<nt); long* first=&ets.local(); for(int i=0;i<50;i++){ bool ex; long* p=&ets.local(ex); if(p!=first){ std::lock_guard<std::mutex> l(m); printf("address changed for a thread\n"); bad++; } (*p)++; if(i%7==0) std::this_thread::yield(); } std::lock_guard<std::mutex> l(m); if(owners.count(first)){ printf("two threads share one element\n"); bad++; } owners[first]=t; ids.insert(std::this_thread::get_id()); allelems.insert(first); }); for(auto&x:th)x.join(); total_threads+=nt; expect_sum+=50L*nt; }
  int distinct=(int)ids.size(); if(inits!=distinct){ printf("initializer calls %d != distinct thread ids %d (threads %d)\n",inits.load(),distinct,total_threads); bad++; } if((int)ets.size()!=distinct){ printf("size %zu != distinct ids %d\n",ets.size(),distinct); bad++; } long sum=0; std::set<void*> seen; for(auto it=ets.begin();it!=ets.end();++it){ sum+=*it; if(!seen.insert(&*it).second){ printf("iteration visits element twice\n"); bad++; } if(!allelems.count(&*it)){ printf("iteration visits unknown element\n"); bad++; } } if(sum!=expect_sum){ printf("sum %ld != %ld\n",sum,expect_sum); bad++; } long c=0; ets.combine_each([&](long v){ c+=v; }); if(c!=expect_sum){ printf("combine_each %ld != %ld\n",c,expect_sum); bad++; } return bad; }
int main(int argc,char**argv){ int secs=atoi(argv[1]); rs=atoi(argv[2]); auto t0=std::chrono::steady_clock::now(); long rounds=0,bad=0; while(std::chrono::duration<double>(std::chrono::steady_clock::now()-t0).count()<secs && !bad){ rounds++; int nt=2+rnd()%40; int waves=1+rnd()%3; bad+= rnd()%2? round_<tbb::ets_no_key>(nt,waves) : round_<tbb::ets_key_per_instance>(nt,waves); }
  // combinable inside hot arena
  { tbb::combinable<long> cb; tbb::parallel_for(0,1000000,[&](int){ cb.local()++; }); long t=cb.combine([](long a,long b){return a+b;}); if(t!=1000000){ printf("combinable %ld\n",t); bad++; } }
  printf("rounds=%ld bad=%ld\n",rounds,bad); return bad?1:0; }
