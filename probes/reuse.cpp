#include <oneapi/tbb.h>
#include <cstdio>
#include <atomic>
#include <stdexcept>
int main(){ long bad=0;
  for(int r=0;r<20000;r++){ tbb::task_group g; std::atomic<int> c{0}; for(int i=0;i<8;i++) g.run([&,i]{ if(i==r%8) throw std::runtime_error("x"); c++; }); bool threw=false; try{ g.wait(); }catch(std::runtime_error&){ threw=true; } if(!threw){ printf("round %d: task_group::wait did not rethrow\n",r); bad++; }
    // reuse the same group: must run everything again, not be stuck cancelled
    std::atomic<int> d{0}; for(int i=0;i<8;i++) g.run([&]{ d++; }); tbb::task_group_status st=g.wait(); if(d!=8||st!=tbb::complete){ printf("round %d: reused task_group ran %d/8 tasks, status %d\n",r,d.load(),(int)st); bad++; }
    // run_and_wait throwing
    try{ g.run_and_wait([&]{ throw std::runtime_error("y"); }); printf("run_and_wait did not throw\n"); bad++; }catch(std::runtime_error&){} std::atomic<int> e{0}; g.run([&]{e++;}); g.wait(); if(e!=1){ printf("after run_and_wait throw, group not reusable\n"); bad++; }
    // cancel then reuse
    g.run([&]{ for(volatile int k=0;k<1000;k++); }); g.cancel(); tbb::task_group_status s2=g.wait(); std::atomic<int> f{0}; g.run([&]{f++;}); g.wait(); if(f!=1){ printf("round %d: after cancel+wait(%d) group not reusable\n",r,(int)s2); bad++; } if(bad) break; }
  printf("bad=%ld\n",bad); return bad?1:0; }
