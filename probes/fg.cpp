#include <oneapi/tbb/flow_graph.h>
#include <oneapi/tbb/global_control.h>
#include <atomic>
#include <cstdio>
#include <cstdlib>
#include <thread>
#include <vector>
#include <mutex>
#include <map>
#include <chrono>
using namespace tbb::flow;
static std::atomic<long> progress{0}; static std::atomic<int> phase{0};
int main(int argc,char**argv){
  int rounds=atoi(argv[1]); unsigned seed=atoi(argv[2]);
  std::atomic<bool> stop{false}; std::thread wd([&]{ long last=-1; int same=0; while(!stop){ std::this_thread::sleep_for(std::chrono::milliseconds(500)); long p=progress; if(p==last){ if(++same>=30){ printf("HANG phase=%d progress=%ld\n",phase.load(),p); fflush(stdout); _Exit(3);} } else {same=0;last=p;} } });
  auto rnd=[&]{ seed=seed*1664525u+1013904223u; return seed>>8; };
  for(int rd=0;rd<rounds;rd++){
    int N=50+rnd()%200; int np=1+rnd()%3;
    { phase=1; // queue -> limiter(th) -> serial rejecting fn -> sink -> decrement
      graph g; int th=1+rnd()%3; std::atomic<int> live{0},maxlive{0},outstanding{0},maxout{0}; std::vector<int> cnt(N*np,0); std::mutex m;
      queue_node<int> q(g); limiter_node<int> lim(g,th); 
      function_node<int,int,rejecting> f(g,serial,[&](int x){ int l=++live; if(l>1) printf("serial violated\n"); int o=++outstanding; int mo=maxout.load(); while(o>mo && !maxout.compare_exchange_weak(mo,o)); if(x%7==0) std::this_thread::yield(); --live; return x; });
      function_node<int,continue_msg> sink(g,unlimited,[&](int x){ { std::lock_guard<std::mutex> l(m); cnt[x]++; } --outstanding; return continue_msg(); });
      make_edge(q,lim); make_edge(lim,f); make_edge(f,sink); make_edge(sink,lim.decrementer());
      std::vector<std::thread> ps; for(int p=0;p<np;p++) ps.emplace_back([&,p]{ for(int i=0;i<N;i++) q.try_put(p*N+i); }); for(auto&t:ps)t.join(); g.wait_for_all();
      for(int i=0;i<N*np;i++) if(cnt[i]!=1){ printf("rd %d limiter chain: msg %d count %d (th=%d np=%d)\n",rd,i,cnt[i],th,np); fflush(stdout); _Exit(4);} if(maxout>th){ printf("rd %d limiter exceeded: %d > %d\n",rd,maxout.load(),th); _Exit(4);} progress++; }
    { phase=2; // sequencer with concurrent producers in permuted order
      graph g; std::vector<int> out; sequencer_node<int> sq(g,[](const int&x){return (size_t)x;}); function_node<int,continue_msg> sink(g,serial,[&](int x){ out.push_back(x); return continue_msg();}); make_edge(sq,sink);
      std::vector<std::thread> ps; for(int p=0;p<np;p++) ps.emplace_back([&,p]{ for(int i=N-1;i>=0;i--) if(i%np==p) sq.try_put(i); }); for(auto&t:ps)t.join(); g.wait_for_all();
      if((int)out.size()!=N){ printf("rd %d sequencer size %zu != %d\n",rd,out.size(),N); _Exit(4);} for(int i=0;i<N;i++) if(out[i]!=i){ printf("rd %d sequencer order broken at %d\n",rd,i); _Exit(4);} progress++; }
    { phase=3; // joins
      graph g; std::vector<std::tuple<int,int>> outq; std::mutex m;
      join_node<std::tuple<int,int>,queueing> jq(g); function_node<std::tuple<int,int>,continue_msg> s1(g,serial,[&](const std::tuple<int,int>&t){ outq.push_back(t); return continue_msg();}); make_edge(jq,s1);
      std::thread a([&]{ for(int i=0;i<N;i++) input_port<0>(jq).try_put(i);}); std::thread b([&]{ for(int i=0;i<N;i++) input_port<1>(jq).try_put(1000+i);}); a.join(); b.join(); g.wait_for_all();
      if((int)outq.size()!=N){ printf("rd %d join q size %zu\n",rd,outq.size()); _Exit(4);} for(int i=0;i<N;i++) if(std::get<0>(outq[i])!=i||std::get<1>(outq[i])!=1000+i){ printf("rd %d join q tuple %d = (%d,%d)\n",rd,i,std::get<0>(outq[i]),std::get<1>(outq[i])); _Exit(4);} progress++;
      phase=4; graph g2; std::vector<std::tuple<int,int>> outr; buffer_node<int> b0(g2),b1(g2); join_node<std::tuple<int,int>,reserving> jr(g2); function_node<std::tuple<int,int>,continue_msg,rejecting> s2(g2,serial,[&](const std::tuple<int,int>&t){ outr.push_back(t); return continue_msg();}); make_edge(b0,input_port<0>(jr)); make_edge(b1,input_port<1>(jr)); make_edge(jr,s2);
      std::thread c([&]{ for(int i=0;i<N;i++) b0.try_put(i);}); std::thread d([&]{ for(int i=0;i<N;i++) b1.try_put(1000+i);}); c.join(); d.join(); g2.wait_for_all();
      std::map<int,int> s0,s1m; for(auto&t:outr){ s0[std::get<0>(t)]++; s1m[std::get<1>(t)]++; } if((int)outr.size()!=N||(int)s0.size()!=N||(int)s1m.size()!=N){ printf("rd %d join reserving: tuples=%zu distinct0=%zu distinct1=%zu N=%d\n",rd,outr.size(),s0.size(),s1m.size(),N); fflush(stdout); _Exit(4);} progress++;
      phase=5; graph g3; std::vector<std::tuple<int,int>> outk; join_node<std::tuple<int,int>,key_matching<int>> jk(g3,[](int x){return x%1000;},[](int x){return x%1000;}); function_node<std::tuple<int,int>,continue_msg> s3(g3,serial,[&](const std::tuple<int,int>&t){ outk.push_back(t); return continue_msg();}); make_edge(jk,s3);
      std::thread e([&]{ for(int i=0;i<N;i++) input_port<0>(jk).try_put(i);}); std::thread f([&]{ for(int i=N-1;i>=0;i--) input_port<1>(jk).try_put(1000+i);}); e.join(); f.join(); g3.wait_for_all();
      if((int)outk.size()!=N){ printf("rd %d join key size %zu N=%d\n",rd,outk.size(),N); _Exit(4);} for(auto&t:outk) if(std::get<0>(t)%1000!=std::get<1>(t)%1000){ printf("key mismatch\n"); _Exit(4);} progress++; }
    { phase=6; // priority_queue_node + function rejecting with concurrency 2, overwrite, broadcast
      graph g; std::vector<int> cnt(N*np,0); std::mutex m; std::atomic<int> live{0}; priority_queue_node<int> pq(g); function_node<int,int,rejecting> f(g,2,[&](int x){ int l=++live; if(l>2) printf("limit 2 violated\n"); --live; return x;}); broadcast_node<int> bc(g); function_node<int,continue_msg> s1(g,unlimited,[&](int x){ std::lock_guard<std::mutex> l(m); cnt[x]+=1; return continue_msg();}); function_node<int,continue_msg,lightweight> s2(g,serial,[&](int x){ std::lock_guard<std::mutex> l(m); cnt[x]+=100; return continue_msg();});
      make_edge(pq,f); make_edge(f,bc); make_edge(bc,s1); make_edge(bc,s2);
      std::vector<std::thread> ps; for(int p=0;p<np;p++) ps.emplace_back([&,p]{ for(int i=0;i<N;i++) pq.try_put(p*N+i); }); for(auto&t:ps)t.join(); g.wait_for_all();
      for(int i=0;i<N*np;i++) if(cnt[i]!=101){ printf("rd %d pq chain: msg %d count %d\n",rd,i,cnt[i]); fflush(stdout); _Exit(4);} progress++; }
  }
  stop=true; wd.join(); printf("ok rounds=%d\n",rounds);
}
