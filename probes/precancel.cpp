#include <oneapi/tbb.h>
#include <cstdio>
#include <atomic>
int main(){
  std::atomic<int> top{0}, nested{0};
  { tbb::task_group_context c; bool w=c.cancel_group_execution(); tbb::parallel_for(0,100,[&](int){ top++; },c); printf("top-level: cancel()=%d, bodies run=%d, still cancelled=%d\n",(int)w,top.load(),(int)c.is_group_execution_cancelled()); }
  tbb::parallel_for(0,1,[&](int){ tbb::task_group_context c; bool w=c.cancel_group_execution(); bool before=c.is_group_execution_cancelled(); tbb::parallel_for(0,100,[&](int){ nested++; },c); printf("nested (bound): cancel()=%d cancelled-before-use=%d, bodies run=%d, cancelled-after=%d\n",(int)w,(int)before,nested.load(),(int)c.is_group_execution_cancelled()); });
  tbb::parallel_for(0,1,[&](int){ std::atomic<int> n2{0}; tbb::task_group_context c(tbb::task_group_context::isolated); c.cancel_group_execution(); tbb::parallel_for(0,100,[&](int){ n2++; },c); printf("nested (isolated): bodies run=%d cancelled-after=%d\n",n2.load(),(int)c.is_group_execution_cancelled()); });
  tbb::parallel_for(0,1,[&](int){ std::atomic<int> n3{0}; tbb::task_group_context c; tbb::task_group g(c); c.cancel_group_execution(); g.run([&]{ n3++; }); g.wait(); printf("nested task_group with pre-cancelled ctx: bodies run=%d\n",n3.load()); });
}
