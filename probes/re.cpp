#include <oneapi/tbb/scalable_allocator.h>
#include <cstdio>
#include <cstdint>
#include <cerrno>
#include <cstring>
int main(){
  size_t big=((size_t)64<<20)+1;
  for(size_t d: {(size_t)8192,(size_t)4096,(size_t)1<<20,(size_t)1<<21,(size_t)1<<30}){
    unsigned char* p=(unsigned char*)scalable_malloc(big); memset(p,0x5A,4096);
    size_t ns=SIZE_MAX-d; errno=0; void* q=scalable_realloc(p,ns); int e=errno;
    printf("realloc(%zu-byte block, SIZE_MAX-%zu) -> %p errno=%d", big,d,q,e);
    if(q){ printf("  msize=%zx  NON-NULL for unrepresentable size", scalable_msize(q)); fflush(stdout); printf(" first byte=%x\n", ((unsigned char*)q)[0]); scalable_free(q);} else { printf("  old block intact=%d\n", p[0]==0x5A && p[4095]==0x5A); scalable_free(p);} fflush(stdout);
  }
}
