#define TBB_PREVIEW_MEMORY_POOL 1
#include <oneapi/tbb/memory_pool.h>
#include <cstdio>
#include <cstdlib>
#include <cstring>
#include <vector>
#include <map>
#include <mutex>
#include <thread>
#include <atomic>
#include <sys/mman.h>
static std::mutex rm; struct Reg{ size_t n; int pool; bool live; }; static std::map<uintptr_t,Reg> regions; static std::atomic<long> bad{0}; static std::atomic<int> raw_calls{0}; static int fail_at=-1; static std::atomic<long> raw_alloc{0}, raw_free{0};
template<int ID> struct RawAlloc { using value_type=char; RawAlloc()=default; template<class U> struct rebind{ using other=RawAlloc<ID>; };
  char* allocate(size_t n){ int c=++raw_calls; if(c==fail_at) throw std::bad_alloc(); void* p=mmap(nullptr,n,PROT_READ|PROT_WRITE,MAP_PRIVATE|MAP_ANONYMOUS,-1,0); if(p==MAP_FAILED) throw std::bad_alloc(); std::lock_guard<std::mutex> l(rm); regions[(uintptr_t)p]=Reg{n,ID,true}; raw_alloc++; return (char*)p; }
  void deallocate(char* p,size_t n){ std::lock_guard<std::mutex> l(rm); auto it=regions.find((uintptr_t)p); if(it==regions.end()||!it->second.live){ printf("rawFree of unknown/dead region %p\n",p); bad++; return;} if(it->second.n!=n){ printf("rawFree size %zu != alloc size %zu\n",n,it->second.n); bad++; } if(it->second.pool!=ID){ printf("region returned to wrong pool\n"); bad++; } regions.erase(it); raw_free++; munmap(p,n); } };
static bool inside(void*p,size_t n,int pool){ std::lock_guard<std::mutex> l(rm); auto it=regions.upper_bound((uintptr_t)p); if(it==regions.begin()) return false; --it; return it->second.live && it->second.pool==pool && (uintptr_t)p+n <= it->first+it->second.n; }
template<int ID> void run(unsigned seed,int nthreads,int nops){ { tbb::memory_pool<RawAlloc<ID>> pool; std::vector<std::thread> th; for(int t=0;t<nthreads;t++) th.emplace_back([&,t]{ unsigned s=seed*97+t; auto rnd=[&]{ s=s*1664525u+1013904223u; return s>>8; }; std::vector<std::pair<char*,size_t>> mine; for(int i=0;i<nops;i++){ unsigned op=rnd()%10; if(op<6||mine.empty()){ size_t n= rnd()%4? 1+rnd()%4000 : 1+rnd()%(2<<20); char* p=(char*)pool.malloc(n); if(!p) continue; if(!inside(p,n,ID)){ printf("pool %d block %p+%zu outside its raw regions\n",ID,p,n); bad++; } memset(p,0x77,n); mine.push_back({p,n}); } else if(op<9){ size_t j=rnd()%mine.size(); auto b=mine[j]; mine[j]=mine.back(); mine.pop_back(); if(b.first[0]!=0x77||b.first[b.second-1]!=0x77){ printf("pool block damaged\n"); bad++; } pool.free(b.first);} else { size_t j=rnd()%mine.size(); auto b=mine[j]; size_t nn=1+rnd()%8000; char*q=(char*)pool.realloc(b.first,nn); if(q){ if(!inside(q,nn,ID)){ printf("pool realloc outside\n"); bad++; } size_t k=b.second<nn?b.second:nn; if(q[0]!=0x77||q[k-1]!=0x77){ printf("pool realloc lost content\n"); bad++; } memset(q,0x77,nn); mine[j]={q,nn}; } } } for(auto&b:mine) pool.free(b.first); }); for(auto&t:th) t.join(); if(seed%2) pool.recycle(); }
  std::lock_guard<std::mutex> l(rm); for(auto&r:regions) if(r.second.pool==ID && r.second.live){ printf("pool %d: region %zx (+%zu) never returned after destroy\n",ID,r.first,r.second.n); bad++; } }
int main(int argc,char**argv){ unsigned seed=atoi(argv[1]); if(argc>2) fail_at=atoi(argv[2]);
  std::thread a([&]{ run<1>(seed,3,3000); }); std::thread b([&]{ run<2>(seed+1,2,3000); }); a.join(); b.join();
  // fixed pool
  { static char buf[4<<20]; tbb::fixed_pool fp(buf,sizeof buf); std::vector<void*> v; for(int i=0;i<100000;i++){ void*p=fp.malloc(1+(i*37)%5000); if(!p) break; if((char*)p<buf||(char*)p>=buf+sizeof buf){ printf("fixed pool block outside buffer\n"); bad++; } v.push_back(p);} size_t got=v.size(); for(void*p:v) fp.free(p); void*p=fp.malloc(1000); if(!p){ printf("fixed pool cannot allocate after freeing everything\n"); bad++; } printf("fixed pool served %zu blocks\n",got); }
  printf("raw alloc=%ld free=%ld bad=%ld\n",raw_alloc.load(),raw_free.load(),bad.load()); return bad?1:0; }
