#include <csignal>
#include <dirent.h>
#include <unistd.h>
#include <sys/syscall.h>
#include <thread>
#include <atomic>
#include <vector>
#include <cstdlib>
#include <ctime>
static std::atomic<long> g_sig_delivered{0};
static void chaos_handler(int){ static thread_local unsigned r=0x9e3779b9u ^ (unsigned)syscall(SYS_gettid); r=r*1664525u+1013904223u; g_sig_delivered++; unsigned k=(r>>8)%8; if(k==0) sched_yield(); else if(k==1){ struct timespec ts{0,(long)((r>>12)%200000)}; nanosleep(&ts,0);} else for(volatile unsigned i=0;i<((r>>10)%30000);i++); }
struct Chaos { std::atomic<bool> stop{false}; std::thread th; long sent=0;
  void start(){ struct sigaction sa{}; sa.sa_handler=chaos_handler; sa.sa_flags=SA_RESTART; sigaction(SIGUSR1,&sa,0);
    th=std::thread([this]{ int self=syscall(SYS_gettid); int pid=getpid(); unsigned r=12345; std::vector<int> tids; int refresh=0;
      while(!stop){ if(refresh--<=0){ tids.clear(); DIR*d=opendir("/proc/self/task"); dirent*e; while((e=readdir(d))){ if(e->d_name[0]=='.')continue; int t=atoi(e->d_name); if(t!=self) tids.push_back(t);} closedir(d); refresh=50; }
        if(!tids.empty()){ r=r*1664525u+1013904223u; syscall(SYS_tgkill,pid,tids[(r>>8)%tids.size()],SIGUSR1); sent++; }
        struct timespec ts{0,(long)(20000+(r>>6)%100000)}; nanosleep(&ts,0);} }); }
  void finish(){ stop=true; th.join(); } };
