#include <oneapi/tbb.h>
#include <atomic>
#include <cstdio>
#include <cstdlib>
#include <thread>
#include <vector>
#include <mutex>
#include <chrono>
#include <memory>
static thread_local unsigned rs=1; static unsigned rnd(){ rs=rs*1664525u+1013904223u; return rs>>8; }
static std::atomic<long> gseq{1};
struct Ev{ int item; long in,out; };
struct Filt{ tbb::filter_mode mode; std::mutex m; std::vector<Ev> log; std::atomic<int> inside{0}; };
static std::atomic<long> progress{0};
int main(int argc,char**argv){ int secs=atoi(argv[1]); rs=atoi(argv[2]); auto t0=std::chrono::steady_clock::now(); long scen=0,bad=0,parks=0; std::atomic<bool> stop{false};
  std::thread wd([&]{ long last=-1; int same=0; while(!stop){ std::this_thread::sleep_for(std::chrono::milliseconds(250)); long p=progress; if(p==last){ if(++same>=24){ printf("STUCK after %ld scenarios\n",p); fflush(stdout); _Exit(3);} } else {same=0;last=p;} } });
  tbb::task_arena ar(8); std::atomic<bool> kstop{false}; std::thread keeper([&]{ while(!kstop){ for(int i=0;i<4;i++) ar.enqueue([]{ for(volatile int k=0;k<1000;k++); }); std::this_thread::sleep_for(std::chrono::microseconds(50)); } });
  while(std::chrono::duration<double>(std::chrono::steady_clock::now()-t0).count()<secs && !bad){ scen++; int nf=1+rnd()%6; int N=rnd()%5==0? rnd()%4 : rnd()%300; int tokens=1+rnd()%(rnd()%3? 4: 40); std::vector<std::unique_ptr<Filt>> fs; for(int i=0;i<nf;i++){ fs.emplace_back(new Filt); unsigned m=rnd()%3; fs[i]->mode= m==0? tbb::filter_mode::parallel : m==1? tbb::filter_mode::serial_in_order : tbb::filter_mode::serial_out_of_order; }
    std::atomic<int> next{0}; std::atomic<int> live{0}, maxlive{0}; std::atomic<long> lbad{0}; unsigned delay_seed=rnd(); int delay_mode=rnd()%3;
    auto stage=[&](int fi,int item){ Filt& f=*fs[fi]; long in=gseq++; int ins=++f.inside; if(f.mode!=tbb::filter_mode::parallel && ins!=1){ printf("serial filter %d entered concurrently\n",fi); lbad++; } unsigned h=(unsigned)(item*2654435761u) ^ (fi*40503u) ^ delay_seed; if(delay_mode && (h>>5)%(delay_mode==1?4:9)==0){ unsigned d=(h>>9)%(delay_mode==1?3000:40000); for(volatile unsigned k=0;k<d;k++); } --f.inside; long out=gseq++; std::lock_guard<std::mutex> l(f.m); f.log.push_back({item,in,out}); };
    tbb::filter<void,int> first=tbb::make_filter<void,int>(fs[0]->mode,[&](tbb::flow_control& fc)->int{ int it=next++; if(it>=N){ fc.stop(); return -1; } stage(0,it); int l=++live; int m=maxlive.load(); while(l>m && !maxlive.compare_exchange_weak(m,l)); if(nf==1) --live; return it; });
    tbb::filter<void,void> whole;
    if(nf==1){ whole=tbb::make_filter<void,void>(fs[0]->mode,[&](tbb::flow_control& fc){ int it=next++; if(it>=N){ fc.stop(); return; } stage(0,it); }); }
    else { tbb::filter<void,int> chain=first; for(int i=1;i<nf-1;i++) chain = chain & tbb::make_filter<int,int>(fs[i]->mode,[&,i](int it){ stage(i,it); return it; }); whole = chain & tbb::make_filter<int,void>(fs[nf-1]->mode,[&](int it){ stage(nf-1,it); --live; }); }
    ar.execute([&]{ tbb::parallel_pipeline(tokens,whole); }); long ret=gseq++;
    // checks
    int firstord=-1; std::vector<int> order0; for(int fi=0;fi<nf;fi++){ Filt& f=*fs[fi]; std::vector<int> cnt(N>0?N:1,0); if((int)f.log.size()!=N){ printf("scenario %ld: filter %d processed %zu items, expected %d (tokens=%d nf=%d)\n",scen,fi,f.log.size(),N,tokens,nf); lbad++; } for(auto&e:f.log){ if(e.item<0||e.item>=N){ lbad++; continue;} cnt[e.item]++; if(e.out>ret){ printf("filter body finished after pipeline returned\n"); lbad++; } } for(int i=0;i<N;i++) if(cnt[i]!=1){ printf("scenario %ld: item %d seen %d times at filter %d\n",scen,i,cnt[i],fi); lbad++; break; }
      if(f.mode==tbb::filter_mode::serial_in_order){ std::vector<Ev> v=f.log; std::sort(v.begin(),v.end(),[](const Ev&a,const Ev&b){return a.in<b.in;}); std::vector<int> ord; for(auto&e:v) ord.push_back(e.item); if(firstord<0){ firstord=fi; order0=ord; } else if(ord!=order0){ printf("scenario %ld: in-order filter %d order differs from filter %d (N=%d tokens=%d)\n",scen,fi,firstord,N,tokens); lbad++; } } }
    if(nf>1) for(int i=0;i<N;i++){ long prev_out=0; /* stage order per item */ } if(maxlive>tokens){ printf("scenario %ld: %d live tokens > %d\n",scen,maxlive.load(),tokens); lbad++; } if(live!=0 && nf>1){ printf("live=%d after return\n",live.load()); lbad++; }
    bad+=lbad; progress++; }
  kstop=true; keeper.join(); stop=true; wd.join(); printf("scenarios=%ld bad=%ld\n",scen,bad); return bad?1:0; }
