#include <oneapi/tbb/flow_graph.h>
#include <oneapi/tbb/task_arena.h>
#include <atomic>
#include <cstdio>
#include <cstdlib>
#include <thread>
#include <vector>
#include <mutex>
#include <map>
#include <set>
#include <chrono>
#include <algorithm>
using namespace tbb::flow;
static thread_local unsigned rs=1; static unsigned rnd(){ rs=rs*1664525u+1013904223u; return rs>>8; }
static std::atomic<long> gseq{1}; static std::atomic<long> progress{0}; static std::atomic<int> phase{0};
struct Put{ int v; long call,ret; bool ok; };
int main(int argc,char**argv){ int secs=atoi(argv[1]); rs=atoi(argv[2]); std::atomic<bool> stop{false}; std::thread wd([&]{ long last=-1; int same=0; while(!stop){ std::this_thread::sleep_for(std::chrono::milliseconds(500)); long p=progress; if(p==last){ if(++same>=20){ printf("STUCK phase=%d progress=%ld\n",phase.load(),p); fflush(stdout); _Exit(3);} } else {same=0;last=p;} } });
  auto t0=std::chrono::steady_clock::now(); long rounds=0,bad=0;
  while(std::chrono::duration<double>(std::chrono::steady_clock::now()-t0).count()<secs && !bad){ rounds++; int np=1+rnd()%3; int N=20+rnd()%150;
    { phase=1; // queue_node FIFO vs real-time order of puts
      graph g; queue_node<int> q(g); std::vector<std::pair<int,long>> out; function_node<int,continue_msg> sink(g,serial,[&](int x){ out.push_back({x,gseq++}); if(rnd()%8==0) for(volatile int k=0;k<2000;k++); return continue_msg(); }); make_edge(q,sink);
      std::vector<std::vector<Put>> puts(np); std::vector<std::thread> ps; for(int p=0;p<np;p++) ps.emplace_back([&,p]{ rs=rounds*7+p; for(int i=0;i<N;i++){ Put u{p*1000+i,gseq++,0,false}; u.ok=q.try_put(u.v); u.ret=gseq++; puts[p].push_back(u); if(rnd()%5==0) std::this_thread::yield(); } }); for(auto&t:ps)t.join(); g.wait_for_all();
      std::map<int,int> pos; for(size_t i=0;i<out.size();i++){ if(pos.count(out[i].first)){ printf("queue_node duplicated %d\n",out[i].first); bad++; } pos[out[i].first]=(int)i; } std::vector<Put> all; for(auto&v:puts) for(auto&u:v){ if(!u.ok){ printf("queue_node rejected a put\n"); bad++; } if(!pos.count(u.v)){ printf("queue_node lost %d\n",u.v); bad++; } all.push_back(u); }
      // real-time order: A.ret < B.call => pos(A) < pos(B). Check via sweep: sort by call; maintain max pos among those with ret< call.
      std::sort(all.begin(),all.end(),[](const Put&a,const Put&b){return a.call<b.call;}); std::vector<Put> byret=all; std::sort(byret.begin(),byret.end(),[](const Put&a,const Put&b){return a.ret<b.ret;}); size_t j=0; int maxpos=-1; int maxv=-1; for(auto&b:all){ while(j<byret.size() && byret[j].ret<b.call){ int pp=pos[byret[j].v]; if(pp>maxpos){maxpos=pp;maxv=byret[j].v;} j++; } if(pos.count(b.v) && pos[b.v]<maxpos){ printf("round %ld: queue_node order: %d (put after %d returned) came out before it\n",rounds,b.v,maxv); bad++; break; } } progress++; }
    { phase=2; // priority_queue_node with a rejecting serial consumer
      graph g; priority_queue_node<int> pq(g); struct Out{ int v; long entry,exit; }; std::vector<Out> out; function_node<int,continue_msg,rejecting> sink(g,serial,[&](int x){ long e=gseq++; for(volatile int k=0;k<(int)(rnd()%3000);k++); out.push_back({x,e,gseq++}); return continue_msg(); }); make_edge(pq,sink);
      std::vector<std::vector<Put>> puts(np); std::vector<std::thread> ps; for(int p=0;p<np;p++) ps.emplace_back([&,p]{ rs=rounds*11+p; for(int i=0;i<N;i++){ int v=(int)(rnd()%1000)*8+p; Put u{v,gseq++,0,false}; u.ok=pq.try_put(v); u.ret=gseq++; puts[p].push_back(u); } }); for(auto&t:ps)t.join(); g.wait_for_all();
      std::multiset<int> in,got; std::map<int,std::vector<long>> putret; for(auto&v:puts) for(auto&u:v){ in.insert(u.v); putret[u.v].push_back(u.ret);} for(auto&o:out) got.insert(o.v); if(in!=got){ printf("priority_queue_node lost/duplicated items (%zu in, %zu out)\n",in.size(),got.size()); bad++; }
      // X = out[i] (i>=1) was chosen after out[i-1] was consumed (its sink entry). Any Y that comes out later, with higher priority, whose put returned before out[i-1].entry, refutes.
      for(size_t i=1;i<out.size() && !bad;i++){ for(size_t k=i+1;k<out.size();k++){ if(out[k].v>out[i].v){ long r=*std::min_element(putret[out[k].v].begin(),putret[out[k].v].end()); if(putret[out[k].v].size()==1 && r<out[i-1].entry){ printf("round %ld: priority_queue_node forwarded %d while %d (higher, put returned at %ld < %ld) was buffered\n",rounds,out[i].v,out[k].v,r,out[i-1].entry); bad++; break; } } } } progress++; }
    { phase=3; // overwrite / write_once / broadcast / indexer / split
      graph g; overwrite_node<int> ow(g); write_once_node<int> wo(g); std::atomic<int> a1{-1},a2{-1}; function_node<int,continue_msg> s1(g,serial,[&](int x){ a1=x; return continue_msg();}); make_edge(ow,s1); for(int i=0;i<N;i++){ ow.try_put(i); wo.try_put(i+100);} g.wait_for_all(); int v=-1; if(!ow.try_get(v)||v!=N-1){ printf("overwrite_node holds %d not %d\n",v,N-1); bad++; } if(a1!=N-1){ printf("overwrite successor saw %d last\n",a1.load()); bad++; } if(!wo.try_get(v)||v!=100){ printf("write_once holds %d\n",v); bad++; } function_node<int,continue_msg> s2(g,serial,[&](int x){ a2=x; return continue_msg();}); make_edge(ow,s2); g.wait_for_all(); if(a2!=N-1){ printf("late successor of overwrite_node got %d\n",a2.load()); bad++; }
      using tup=std::tuple<int,long>; split_node<tup> sp(g); std::atomic<long> c0{0},c1{0}; function_node<int,continue_msg> t0n(g,unlimited,[&](int x){ c0+=x; return continue_msg();}); function_node<long,continue_msg> t1n(g,unlimited,[&](long x){ c1+=x; return continue_msg();}); make_edge(output_port<0>(sp),t0n); make_edge(output_port<1>(sp),t1n); indexer_node<int,long> ix(g); std::atomic<long> i0{0},i1{0}; function_node<indexer_node<int,long>::output_type,continue_msg> isnk(g,unlimited,[&](const indexer_node<int,long>::output_type& m){ if(m.tag()==0) i0+=cast_to<int>(m); else i1+=cast_to<long>(m); return continue_msg();}); make_edge(ix,isnk);
      std::thread A([&]{ for(int i=1;i<=N;i++){ sp.try_put(tup(i,1000L*i)); input_port<0>(ix).try_put(i);} }); std::thread B([&]{ for(int i=1;i<=N;i++) input_port<1>(ix).try_put(1000L*i); }); A.join(); B.join(); g.wait_for_all(); long s=(long)N*(N+1)/2; if(c0!=s||c1!=1000*s||i0!=s||i1!=1000*s){ printf("split/indexer routing sums wrong\n"); bad++; } progress++; }
    { phase=4; // async_node completed by foreign threads + input_node + continue_node
      graph g; std::atomic<int> got{0}; std::vector<std::thread> helpers; std::mutex hm; using an=async_node<int,int>; an as(g,unlimited,[&](const int& x, an::gateway_type& gw){ gw.reserve_wait(); std::lock_guard<std::mutex> l(hm); helpers.emplace_back([x,&gw]{ std::this_thread::sleep_for(std::chrono::microseconds(50+x%200)); gw.try_put(x); gw.release_wait(); }); }); function_node<int,continue_msg> sk(g,unlimited,[&](int){ got++; return continue_msg();}); make_edge(as,sk); int M=10+rnd()%30; int cur=0; input_node<int> in(g,[&](tbb::flow_control& fc){ if(cur>=M){ fc.stop(); return 0;} return cur++; }); make_edge(in,as); in.activate(); g.wait_for_all(); if(got!=M){ printf("round %ld: wait_for_all returned with %d/%d async results delivered\n",rounds,got.load(),M); bad++; } for(auto&t:helpers)t.join(); progress++; }
  }
  stop=true; wd.join(); printf("rounds=%ld bad=%ld\n",rounds,bad); return bad?1:0; }
