#include <oneapi/tbb.h>
#include <atomic>
#include <cstdio>
#include <cstdlib>
#include <thread>
#include <chrono>
#include <functional>
static std::atomic<long> progress{0};
int main(int argc,char**argv){ int rounds=atoi(argv[1]); std::atomic<bool> stop{false}; auto main_id=std::this_thread::get_id();
  std::thread wd([&]{ long last=-1; int same=0; while(!stop){ std::this_thread::sleep_for(std::chrono::milliseconds(250)); long p=progress; if(p==last){ if(++same>=16){ printf("VIOLATION: wait did not return 4 s after its last task finished (round %ld)\n",p); fflush(stdout); _Exit(3);} } else {same=0;last=p;} } });
  tbb::task_arena ar(2); long bounces=0;
  for(int r=0;r<rounds;r++){ std::atomic<bool> ran{false}; ar.execute([&]{ tbb::task_group g; std::function<void()> longtask=[&]{ if(std::this_thread::get_id()==main_id){ bounces++; g.run(longtask); std::this_thread::sleep_for(std::chrono::microseconds(50)); return; } std::this_thread::sleep_for(std::chrono::milliseconds(8)); ran=true; }; g.run(longtask); g.wait(); });
    if(!ran){ printf("task did not run\n"); } progress++; }
  stop=true; wd.join(); printf("rounds=%d ok bounces=%ld\n",rounds,bounces); }
