// Reproducer (C14 finding, repaired by fix c2a9c55): limiter_node::try_put returned true for a message it dropped.
// queue_node -> limiter_node(th) -> function_node<rejecting>(serial) -> function_node -> limiter.decrementer();
// even ids are put into the queue, odd ids straight into the limiter. An odd id whose try_put returned true must be processed.
// Build: g++ -std=c++17 -O2 -I/repo/include fg_limiter_reject.cpp -L<libdir> -ltbb -pthread ; run: ./a.out [rounds]  (exit 1 = defect seen)
#include <oneapi/tbb/flow_graph.h>
#include <atomic>
#include <cstdio>
#include <cstdlib>
#include <thread>
#include <vector>
using namespace tbb::flow;
int main(int argc, char** argv) {
    int rounds = argc > 1 ? atoi(argv[1]) : 3000; long lost = 0, accepted = 0;
    for (int rd = 0; rd < rounds; rd++) {
        const int M = 60; int th = 1 + rd % 3;
        std::vector<std::atomic<int>> cnt(M); std::vector<int> ret(M, 0);
        for (auto& c : cnt) c = 0;
        graph g;
        queue_node<int> q(g); limiter_node<int> lim(g, th);
        function_node<int, int, rejecting> w(g, serial, [&](int x) { cnt[x]++; for (volatile int k = 0; k < 300 + (x * 37) % 900; k++) {} return x; });
        function_node<int, continue_msg> d(g, unlimited, [](int) { return continue_msg(); });
        make_edge(q, lim); make_edge(lim, w); make_edge(w, d); make_edge(d, lim.decrementer());
        std::thread a([&] { for (int x = 0; x < M; x += 2) ret[x] = q.try_put(x); });
        std::thread b([&] { for (int x = 1; x < M; x += 4) { ret[x] = lim.try_put(x); if (x % 3 == 0) std::this_thread::yield(); } });
        std::thread c([&] { for (int x = 3; x < M; x += 4) { ret[x] = lim.try_put(x); for (volatile int k = 0; k < 500; k++) {} } });
        a.join(); b.join(); c.join(); g.wait_for_all();
        for (int x = 0; x < M; x++) { if (x % 2) accepted += ret[x]; if (cnt[x] != ret[x]) { lost++; if (lost <= 5) printf("round %d: message %d: try_put returned %d, processed %d times (threshold %d)\n", rd, x, ret[x], cnt[x].load(), th); } }
    }
    printf("rounds=%d direct puts accepted=%ld accepted-but-dropped=%ld\n", rounds, accepted, lost);
    return lost ? 1 : 0;
}
