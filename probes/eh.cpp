#include <oneapi/tbb.h>
#include <atomic>
#include <cstdio>
#include <cstdlib>
#include <thread>
#include <vector>
#include <stdexcept>
#include <chrono>
static std::atomic<int> live{0}; static std::atomic<long> entered_after{0}; static std::atomic<long> calls{0}; static std::atomic<int> ctor{0},dtor{0};
struct Ex{ int id; };
struct Guard{ Guard(){ live++; calls++; } ~Guard(){ live--; } };
static thread_local unsigned rs=1; static unsigned rnd(){ rs=rs*1664525u+1013904223u; return rs>>8; }
static void work(){ unsigned k=rnd()%64; if(k<40) for(volatile int i=0;i<(int)(rnd()%2000);i++); else if(k<44) std::this_thread::yield(); }
struct Body{ int* throw_at; std::atomic<int>* cnt; long sum=0; Body(int*t,std::atomic<int>*c):throw_at(t),cnt(c){ctor++;} Body(Body&o,tbb::split):throw_at(o.throw_at),cnt(o.cnt){ctor++;} ~Body(){dtor++;}
  void operator()(const tbb::blocked_range<int>&r){ Guard g; for(int i=r.begin();i<r.end();++i){ int c=(*cnt)++; if(c==throw_at[0]||c==throw_at[1]) throw Ex{c}; sum+=i; } work(); } void join(Body&o){ sum+=o.sum; } };
int main(int argc,char**argv){ int rounds=atoi(argv[1]); unsigned seed=atoi(argv[2]); rs=seed; long bad=0; long caught=0, nothrow=0;
  for(int rd=0;rd<rounds;rd++){ int n=1+rnd()%3000; int ta[2]={(int)(rnd()%(n+n/4+1)),(int)(rnd()%4? -1 : rnd()%(n+1))}; std::atomic<int> cnt{0}; int kind=rnd()%7; bool threw=false; int got=-1; int c0=ctor, d0=dtor;
    auto body=[&](int){ Guard g; int c=cnt++; if(c==ta[0]||c==ta[1]) throw Ex{c}; work(); };
    try{
      switch(kind){
      case 0: tbb::parallel_for(0,n,body); break;
      case 1: tbb::parallel_for(tbb::blocked_range<int>(0,n,1+rnd()%8),[&](const tbb::blocked_range<int>&r){ for(int i=r.begin();i<r.end();++i) body(i); }, tbb::simple_partitioner()); break;
      case 2: { static tbb::affinity_partitioner ap; tbb::parallel_for(tbb::blocked_range<int>(0,n),[&](const tbb::blocked_range<int>&r){ for(int i=r.begin();i<r.end();++i) body(i); }, ap); break; }
      case 3: { Body b(ta,&cnt); tbb::parallel_reduce(tbb::blocked_range<int>(0,n,1+rnd()%8),b); break; }
      case 4: { std::vector<int> v(n); tbb::parallel_for_each(v.begin(),v.end(),[&](int&, tbb::feeder<int>& f){ body(0); if(rnd()%50==0 && cnt<n+n/8) f.add(1); }); break; }
      case 5: { tbb::task_group g; for(int i=0;i<(n<300?n:300);i++) g.run([&]{ body(0); if(rnd()%10==0) g.run([&]{ body(0); }); }); g.wait(); break; }
      case 6: { int src=0; tbb::parallel_pipeline(1+rnd()%6, tbb::make_filter<void,int>(tbb::filter_mode::serial_in_order,[&](tbb::flow_control&fc){ if(src>=n/4){fc.stop();return 0;} return src++;}) & tbb::make_filter<int,int>(rnd()%2?tbb::filter_mode::parallel:tbb::filter_mode::serial_out_of_order,[&](int x){ body(x); return x;}) & tbb::make_filter<int,void>(tbb::filter_mode::serial_in_order,[&](int x){ body(x); })); break; }
      }
    }catch(Ex&e){ threw=true; got=e.id; caught++; }catch(...){ printf("rd %d kind %d: foreign exception\n",rd,kind); bad++; }
    int l=live.load(); if(l!=0){ printf("rd %d kind %d: call %s with %d bodies still live\n",rd,kind,threw?"threw":"returned",l); bad++; fflush(stdout);} 
    long c1=calls.load(); std::this_thread::sleep_for(std::chrono::microseconds(200)); if(calls.load()!=c1){ printf("rd %d kind %d: body started after the call ended\n",rd,kind); bad++; }
    if(threw && got!=ta[0] && got!=ta[1]){ printf("rd %d kind %d: caught id %d not in plan (%d,%d)\n",rd,kind,got,ta[0],ta[1]); bad++; }
    bool should = (ta[0]>=0 && ta[0]<cnt.load()) || (ta[1]>=0 && ta[1]<cnt.load()); if(should && !threw){ printf("rd %d kind %d: a body threw (cnt=%d plan %d,%d) but call returned normally\n",rd,kind,cnt.load(),ta[0],ta[1]); bad++; } if(!threw) nothrow++;
    if(kind==3 && (ctor-c0)!=(dtor-d0)){ printf("rd %d reduce body ctor/dtor imbalance %d/%d\n",rd,ctor-c0,dtor-d0); bad++; }
  }
  printf("rounds=%d caught=%ld nothrow=%ld bad=%ld\n",rounds,caught,nothrow,bad); return bad?1:0; }
