#include <oneapi/tbb.h>
#include <atomic>
#include <cstdio>
#include <cstdlib>
#include <thread>
#include <vector>
#include <chrono>
static thread_local unsigned rs=1; static unsigned rnd(){ rs=rs*1664525u+1013904223u; return rs>>8; }
static std::atomic<long> progress{0};
int main(int argc,char**argv){ int secs=atoi(argv[1]); rs=atoi(argv[2]); int allowed[8]; int nallowed=0; for(int a=3;a<argc;a++) allowed[nallowed++]=atoi(argv[a]); if(!nallowed){ for(int k=0;k<5;k++) allowed[nallowed++]=k; } std::atomic<bool> stop{false}; std::thread wd([&]{ long last=-1; int same=0; while(!stop){ std::this_thread::sleep_for(std::chrono::milliseconds(500)); long p=progress; if(p==last){ if(++same>=12){ printf("STUCK at scenario %ld\n",p); fflush(stdout); _Exit(3);} } else {same=0;last=p;} } });
  tbb::task_arena ar(6); std::atomic<bool> kstop{false}; std::thread keeper([&]{ while(!kstop){ for(int i=0;i<4;i++) ar.enqueue([]{ for(volatile int k=0;k<1000;k++); }); std::this_thread::sleep_for(std::chrono::microseconds(50)); } });
  auto t0=std::chrono::steady_clock::now(); long scen=0,bad=0;
  while(std::chrono::duration<double>(std::chrono::steady_clock::now()-t0).count()<secs && !bad){ scen++; int n=1+rnd()%30; std::vector<std::atomic<int>> cnt(n); for(auto&c:cnt)c=0; std::vector<int> fate(n); // 0 run via run(handle), 1 destroyed unrun, 2 run from another thread, 3 run_and_wait handle, 4 passed into arena enqueue
    ar.execute([&]{ tbb::task_group g; std::vector<tbb::task_handle> hs; for(int i=0;i<n;i++){ hs.push_back(g.defer([&,i]{ cnt[i]++; if(rnd()%4==0) for(volatile int k=0;k<(int)(rnd()%1000);k++); })); fate[i]= allowed[rnd()%nallowed]; }
      std::vector<std::thread> others; for(int i=0;i<n;i++){ switch(fate[i]){ case 0: g.run(std::move(hs[i])); break; case 1: hs[i]=tbb::task_handle(); break; case 2: { tbb::task_handle* hp=new tbb::task_handle(std::move(hs[i])); others.emplace_back([&g,hp]{ g.run(std::move(*hp)); delete hp; }); break; } case 3: break; /* deferred handles keep the group busy: run_and_wait only after all other handles are dispatched */ case 4: { tbb::task_handle* hp=new tbb::task_handle(std::move(hs[i])); ar.enqueue(std::move(*hp)); delete hp; break; } } }
      for(auto&t:others)t.join(); int last3=-1; for(int i=0;i<n;i++) if(fate[i]==3) last3=i; for(int i=0;i<n;i++) if(fate[i]==3 && i!=last3) g.run(std::move(hs[i])); if(last3>=0){ g.run_and_wait(std::move(hs[last3])); for(int i=0;i<n;i++) if(fate[i]!=1 && cnt[i]!=1){ printf("run_and_wait(handle) returned with task %d (fate %d) not run\n",i,fate[i]); bad++; } } g.wait(); });
    for(int i=0;i<n;i++){ int exp= fate[i]==1? 0:1; if(cnt[i]!=exp){ printf("scenario %ld: task %d with fate %d ran %d times (expected %d)\n",scen,i,fate[i],cnt[i].load(),exp); bad++; } } progress++; }
  kstop=true; keeper.join(); stop=true; wd.join(); printf("scenarios=%ld bad=%ld\n",scen,bad); return bad?1:0; }
