#include <oneapi/tbb/concurrent_vector.h>
#include <atomic>
#include <thread>
#include <cstdio>
#include <chrono>
// DESIGN 4.1 / known_findings cv.grow_to_at_least-returns-before-lower-storage (fixed by 8acd63a):
// did grow_to_at_least(n) (growing branch) return while lower segments claimed by another thread were unallocated?
// B is held inside its 2nd element allocation (segment 1) for 2 s; before the repair main returned at once with size()==2.
static std::atomic<int> gate{0};   // B blocks in its 2nd element allocation until released
static thread_local int my_allocs = 0; static thread_local bool isB = false;
template<class T> struct A { using value_type=T; A()=default; template<class U> A(const A<U>&){}
  T* allocate(size_t n){ if (isB && std::is_same<T,long>::value && ++my_allocs==2) { gate=1; while(gate.load()!=2) std::this_thread::yield(); } return (T*)::operator new(n*sizeof(T)); }
  void deallocate(T*p,size_t){ ::operator delete(p);} template<class U> bool operator==(const A<U>&)const{return true;} template<class U> bool operator!=(const A<U>&)const{return false;} };
int main(){ tbb::concurrent_vector<long,A<long>> v; v.push_back(1);
  std::thread b([&]{ isB=true; v.grow_by(39, 5L); });
  while(gate.load()!=1) std::this_thread::yield();
  std::thread timer([&]{ std::this_thread::sleep_for(std::chrono::seconds(2)); gate=2; });
  auto t0=std::chrono::steady_clock::now();
  auto it = v.grow_to_at_least(100, 6L);
  printf("returned after %.1f s (B released after 2 s)\n", std::chrono::duration<double>(std::chrono::steady_clock::now()-t0).count());
  printf("gtal(100) returned idx=%zu; size()=%zu capacity()=%zu\n", (size_t)(it - v.begin()), v.size(), v.capacity());
  try { v.at(10); printf("at(10) ok\n"); } catch(std::exception& e){ printf("at(10) threw %s\n", e.what()); }
  timer.join(); b.join(); printf("after join size()=%zu capacity()=%zu\n", v.size(), v.capacity()); }
