#include <oneapi/tbb.h>
#include <atomic>
#include <cstdio>
#include <cstdlib>
#include <thread>
#include <vector>
#include <mutex>
#include <memory>
#include <chrono>
static std::atomic<long> gseq{1}; static thread_local unsigned rs=1; static unsigned rnd(){ rs=rs*1664525u+1013904223u; return rs>>8; }
struct Node{ std::unique_ptr<tbb::task_group_context> ctx; int parent; bool bound; std::atomic<bool> used{false}; std::atomic<bool> precancel{false}; std::atomic<long> bound_seq{0}; std::atomic<int> early{0}, late{0}; std::atomic<int> cancel_calls{0}, winners{0}; };
struct Scen{ std::mutex m; std::vector<std::unique_ptr<Node>> nodes; std::atomic<int> count{0}; int maxn; int maxd; int fan; std::atomic<bool> building{true};
  int add(int parent,bool bound){ std::lock_guard<std::mutex> l(m); nodes.emplace_back(new Node); Node& n=*nodes.back(); n.ctx.reset(new tbb::task_group_context(bound? tbb::task_group_context::bound: tbb::task_group_context::isolated)); n.parent=parent; n.bound=bound; return (int)nodes.size()-1; }
  Node& at(int i){ std::lock_guard<std::mutex> l(m); return *nodes[i]; } int size(){ std::lock_guard<std::mutex> l(m); return (int)nodes.size(); }
  void cancel(int i){ Node& n=at(i); long b=n.bound_seq.load(); long s0=gseq++; if(b!=0 && s0>b) n.late++; else n.early++; n.cancel_calls++; if(n.ctx->cancel_group_execution()) n.winners++; }
  void grow(int me,int depth){ if(depth>=maxd) return; int f=1+rnd()%fan; Node& n=at(me); n.used=true; tbb::parallel_for(0,f,[&,me,depth](int){ { Node& self=at(me); long z=0; long mine=gseq++; self.bound_seq.compare_exchange_strong(z,mine); } if(count++>=maxn) return; bool bound=rnd()%6!=0; int c=add(me,bound); if(rnd()%4==0) for(volatile int k=0;k<(int)(rnd()%3000);k++); unsigned a=rnd()%20; if(a==0) cancel(me); else if(a==1){ int anc=me; for(int h=rnd()%3; h>0 && at(anc).parent>=0; --h) anc=at(anc).parent; cancel(anc); } else if(a==2){ at(c).precancel=true; cancel(c);} grow(c,depth+1); },tbb::simple_partitioner(),*n.ctx); } };
int main(int argc,char**argv){ int secs=atoi(argv[1]); rs=atoi(argv[2]); auto t0=std::chrono::steady_clock::now(); long scen=0,bad=0,ctxs=0,cancelled=0,targets=0,known=0;
  tbb::task_arena ar(8); std::atomic<bool> kstop{false}; std::thread keeper([&]{ while(!kstop){ for(int i=0;i<4;i++) ar.enqueue([]{ for(volatile int k=0;k<1000;k++); }); std::this_thread::sleep_for(std::chrono::microseconds(50)); } });
  while(std::chrono::duration<double>(std::chrono::steady_clock::now()-t0).count()<secs && !bad){ scen++; Scen s; s.maxn=10+rnd()%60; s.maxd=2+rnd()%4; s.fan=2+rnd()%3; int root=s.add(-1,true);
    std::thread foreign([&]{ rs=scen*31+5; while(s.building){ int n=s.size(); if(n>1 && rnd()%3==0) s.cancel(rnd()%n); for(volatile int k=0;k<(int)(rnd()%20000);k++); } });
    ar.execute([&]{ // root context is used at the outermost level => isolated by definition
      tbb::parallel_for(0,1,[&](int){ { long z=0; s.at(root).bound_seq.compare_exchange_strong(z,gseq++);} s.grow(root,0); },tbb::simple_partitioner(),*s.at(root).ctx); });
    s.building=false; foreign.join();
    int n=s.size(); std::vector<int> exp(n,0); for(int i=0;i<n;i++){ Node& nd=*s.nodes[i]; bool got=nd.ctx->is_group_execution_cancelled(); bool eff=nd.late>0; bool amb=nd.early>0; bool par= nd.parent>=0 && nd.bound && nd.used && exp[nd.parent]; if(i==0) par=false; exp[i]= eff||par; if(!exp[i] && amb){ exp[i]=got; known++; } if(eff) targets++; }
    for(int i=0;i<n;i++){ Node& nd=*s.nodes[i]; bool got=nd.ctx->is_group_execution_cancelled(); if(got!=(bool)exp[i]){ printf("scenario %ld: context %d (parent %d, %s, used=%d early=%d late=%d) cancelled=%d expected=%d [nodes=%d]\n",scen,i,nd.parent,nd.bound?"bound":"isolated",(int)nd.used,nd.early.load(),nd.late.load(),(int)got,exp[i],n); bad++; } if(nd.early==0 && nd.winners>1){ printf("scenario %ld: %d winners on context %d\n",scen,nd.winners.load(),i); bad++; } if(nd.early==0 && nd.late>0 && nd.winners==0 && !(nd.parent>=0&&nd.bound&&exp[nd.parent])){ printf("scenario %ld: no winner among %d cancels of context %d\n",scen,nd.late.load(),i); bad++; } if(got) cancelled++; }
    if(bad){ for(int i=0;i<n;i++){ Node& nd=*s.nodes[i]; printf("  node %2d parent %2d %s used=%d bound_seq=%ld early=%d late=%d winners=%d cancelled=%d exp=%d\n",i,nd.parent,nd.bound?"bound   ":"isolated",(int)nd.used,nd.bound_seq.load(),nd.early.load(),nd.late.load(),nd.winners.load(),(int)nd.ctx->is_group_execution_cancelled(),exp[i]); } }
    ctxs+=n; }
  kstop=true; keeper.join(); printf("scenarios=%ld contexts=%ld targets=%ld cancelled=%ld precancel-skipped=%ld bad=%ld\n",scen,ctxs,targets,cancelled,known,bad); return bad?1:0; }
