// task_arena::execute() waits for a free slot that a *worker* vacated: nobody tells it.
// limit 2 => one worker W.  X(1,0) normal priority, Y(2,1) high priority.
//  1. enqueue T (150 ms) into X: W occupies X's only slot
//  2. main: X.execute(f): arena full => delegated task + sleep on X's exit monitor
//  3. helper: Y.enqueue(spin until f ran): Y outranks X, X's allotment drops to 0, W finishes T, leaves X (recall) and runs Y's task
//  X's slot is free now, main could run f itself - but a leaving worker does not notify the exit monitor: main sleeps forever,
//  Y's task spins forever (the only worker is busy with it), f never runs.
#include <oneapi/tbb.h>
#include <atomic>
#include <thread>
#include <chrono>
#include <cstdio>
#include <cstdlib>
using namespace std::chrono;
int main() {
    tbb::global_control gc(tbb::global_control::max_allowed_parallelism, 2);
    int hung = 0, rounds = 5;
    for (int r = 0; r < rounds; r++) {
        tbb::task_arena X(1, 0, tbb::task_arena::priority::normal), Y(2, 1, tbb::task_arena::priority::high);
        X.initialize(); Y.initialize();
        std::atomic<bool> t_started{false}, f_ran{false}, stop{false};
        X.enqueue([&] { t_started = true; auto t0 = steady_clock::now(); while (steady_clock::now() - t0 < milliseconds(150)) {} });
        while (!t_started) std::this_thread::yield();
        std::thread helper([&] { std::this_thread::sleep_for(milliseconds(50)); Y.enqueue([&] { while (!f_ran && !stop) std::this_thread::yield(); }); });
        std::thread watchdog([&] { for (int i = 0; i < 500 && !f_ran; i++) std::this_thread::sleep_for(milliseconds(10)); if (!f_ran) { hung++; printf("round %d: X.execute still blocked 5 s after the worker left X (slot free, waiter never woken)\n", r); stop = true; } });
        X.execute([&] { f_ran = true; });      // blocks while W holds the slot; must proceed once the slot is free
        helper.join(); watchdog.join();
        std::this_thread::sleep_for(milliseconds(20));
    }
    printf("%s: %d of %d rounds hung\n", hung ? "FAIL" : "PASS", hung, rounds);
    return hung ? 1 : 0;
}
