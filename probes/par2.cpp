#include <oneapi/tbb.h>
#include <atomic>
#include <cstdio>
#include <cstdlib>
#include <set>
#include <mutex>
#include <thread>
#include <chrono>
#include <vector>
static thread_local unsigned rs=1; static unsigned rnd(){ rs=rs*1664525u+1013904223u; return rs>>8; }
struct Case{ std::mutex m; std::set<std::thread::id> ids; std::atomic<int> started{0}; std::atomic<int> stolen{0}; };
static void run_case(Case& cs,int n,int mode){ auto body=[&](const tbb::blocked_range<int>&r){ cs.started++; { std::lock_guard<std::mutex> l(cs.m); cs.ids.insert(std::this_thread::get_id()); } if(rnd()%4==0) for(volatile int k=0;k<(int)(rnd()%2000);k++); }; tbb::parallel_for(tbb::blocked_range<int>(0,n,8),body,tbb::simple_partitioner()); }
int main(int argc,char**argv){ int mode=atoi(argv[1]); int cases=atoi(argv[2]); int P=8; std::atomic<long> multi{0}; tbb::task_arena warm(P); auto t0=std::chrono::steady_clock::now();
  if(mode==3){ for(int c=0;c<cases;c++){ warm.execute([&]{ std::atomic<int> arrived{0}; tbb::parallel_for(0,P,[&](int){ arrived++; auto t=std::chrono::steady_clock::now(); while(arrived.load()<P && std::chrono::steady_clock::now()-t<std::chrono::milliseconds(2)); },tbb::simple_partitioner()); Case cs; run_case(cs,1+rnd()%2000,mode); if(cs.ids.size()>1) multi++; }); } }
  if(mode==4){ warm.execute([&]{ tbb::parallel_for(0,P,[&](int w){ rs=w*7+1; for(int c=0;c<cases/P;c++){ Case cs; run_case(cs,1+rnd()%2000,mode); if(cs.ids.size()>1) multi++; } },tbb::simple_partitioner()); }); }
  if(mode==5){ // keep-alive: a background thread keeps the arena busy with tiny enqueued tasks
    std::atomic<bool> stop{false}; std::thread ka([&]{ while(!stop){ for(int i=0;i<P;i++) warm.enqueue([]{ for(volatile int k=0;k<2000;k++); }); std::this_thread::sleep_for(std::chrono::microseconds(30)); } }); for(int c=0;c<cases;c++){ warm.execute([&]{ Case cs; run_case(cs,1+rnd()%2000,mode); if(cs.ids.size()>1) multi++; }); } stop=true; ka.join(); }
  double el=std::chrono::duration<double>(std::chrono::steady_clock::now()-t0).count(); printf("mode=%d cases=%d with>=2 threads: %ld (%.1f%%) time=%.2fs\n",mode,cases,multi.load(),100.0*multi/cases,el); }
