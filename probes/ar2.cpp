#include <oneapi/tbb.h>
#include <atomic>
#include <cstdio>
#include <cstdlib>
#include <thread>
#include <vector>
#include <chrono>
#include <memory>
static thread_local unsigned rs=1; static unsigned rnd(){ rs=rs*1664525u+1013904223u; return rs>>8; }
static thread_local int tl_worker=-1; struct Obs: tbb::task_scheduler_observer{ Obs(){observe(true);} void on_scheduler_entry(bool w) override{ tl_worker=w; } };
struct AM { int mc,res; std::atomic<unsigned long> bitmap{0}; std::atomic<int> inflight{0}, maxin{0}; std::atomic<long> bodies{0}, bad{0}; };
static void body(AM& m){ int idx=tbb::this_task_arena::current_thread_index(); int mc=tbb::this_task_arena::max_concurrency();
  if(tl_worker==1 && idx < m.res){ printf("worker thread occupies reserved slot %d (reserved=%d mc=%d)\n",idx,m.res,m.mc); m.bad++; } int bound = m.mc==1? 2 : m.mc; if(idx<0||idx>=bound){ printf("index %d out of bound %d (mc=%d res=%d)\n",idx,bound,m.mc,m.res); m.bad++; }
  unsigned long bit=1ul<<idx; unsigned long old=m.bitmap.fetch_or(bit); if(old&bit){ printf("index %d shared by two threads (mc=%d res=%d)\n",idx,m.mc,m.res); m.bad++; }
  int in=++m.inflight; int lim = m.mc + (m.mc==1?1:0); if(in>lim){ printf("inflight %d > %d (mc=%d res=%d api_mc=%d)\n",in,lim,m.mc,m.res,mc); m.bad++; } int mx=m.maxin; while(in>mx && !m.maxin.compare_exchange_weak(mx,in));
  for(volatile int i=0;i<(int)(rnd()%3000);i++); m.bodies++; --m.inflight; if(!(old&bit)) m.bitmap.fetch_and(~bit); }
int main(int argc,char**argv){ Obs obs; int secs=atoi(argv[1]); unsigned seed=atoi(argv[2]); rs=seed; auto t0=std::chrono::steady_clock::now(); long tot=0,bad=0; int rounds=0;
  while(std::chrono::duration<double>(std::chrono::steady_clock::now()-t0).count()<secs){ rounds++; int mc=1+rnd()%6; int res=rnd()%3; if(res>=mc) res = (mc==1? (int)(rnd()%2) : mc-1); AM m; m.mc=mc; m.res=res; tbb::task_arena a(mc,res, rnd()%3==0? tbb::task_arena::priority::high : rnd()%2? tbb::task_arena::priority::normal : tbb::task_arena::priority::low); tbb::task_arena other(2,1,tbb::task_arena::priority::high); other.enqueue([]{ for(volatile int k=0;k<20000;k++); }); int next=2+rnd()%6; std::atomic<int> pend{0};
    std::vector<std::thread> th; for(int k=0;k<next;k++) th.emplace_back([&,k]{ rs=seed*31+k+rounds; for(int it=0;it<20;it++){ unsigned op=rnd()%3; if(op==0) a.execute([&]{ body(m); tbb::parallel_for(0,50,[&](int){ /* nested bodies share the executing thread's slot: do not call body() recursively on same thread */ }); }); else if(op==1) a.execute([&]{ tbb::parallel_for(0,40,[&](int){ body(m); },tbb::simple_partitioner()); }); else { pend++; a.enqueue([&]{ body(m); pend--; }); } } });
    for(auto&t:th)t.join(); while(pend.load()>0) std::this_thread::yield(); tot+=m.bodies; bad+=m.bad; }
  printf("rounds=%d bodies=%ld bad=%ld\n",rounds,tot,bad); return bad?1:0; }
