#define TBB_PREVIEW_MEMORY_POOL 1
#include <oneapi/tbb/scalable_allocator.h>
#include <oneapi/tbb/memory_pool.h>
#include <cstdio>
#include <cstdlib>
#include <cstring>
#include <vector>
#include <map>
#include <mutex>
#include <thread>
#include <atomic>
#include <sys/mman.h>
static thread_local unsigned rs=1; static unsigned rnd(){ rs=rs*1664525u+1013904223u; return rs>>8; }
struct Log{ std::mutex m; std::map<uintptr_t,size_t> live; long allocs=0,frees=0,bad=0; int fail_at=-1; int calls=0; };
static void* rawAlloc(intptr_t id,size_t& bytes){ Log& L=*(Log*)id; std::lock_guard<std::mutex> l(L.m); if(++L.calls==L.fail_at) return nullptr; void*p=mmap(nullptr,bytes,PROT_READ|PROT_WRITE,MAP_PRIVATE|MAP_ANONYMOUS,-1,0); if(p==MAP_FAILED) return nullptr; L.live[(uintptr_t)p]=bytes; L.allocs++; return p; }
static int rawFree(intptr_t id,void*p,size_t bytes){ Log& L=*(Log*)id; std::lock_guard<std::mutex> l(L.m); auto it=L.live.find((uintptr_t)p); if(it==L.live.end()){ printf("rawFree of unknown region\n"); L.bad++; return 1;} if(it->second!=bytes){ printf("rawFree size mismatch %zu vs %zu\n",bytes,it->second); L.bad++; } L.live.erase(it); L.frees++; munmap(p,bytes); return 0; }
static bool inside(Log&L,void*p,size_t n){ std::lock_guard<std::mutex> l(L.m); auto it=L.live.upper_bound((uintptr_t)p); if(it==L.live.begin()) return false; --it; return (uintptr_t)p+n<=it->first+it->second; }
int main(int argc,char**argv){ int rounds=atoi(argv[1]); rs=atoi(argv[2]); long bad=0;
  for(int r=0;r<rounds && !bad;r++){ Log L1,L2; L1.fail_at= rnd()%4==0? 1+rnd()%6 : -1; rml::MemPoolPolicy pol1(rawAlloc,rawFree,0,false,rnd()%2), pol2(rawAlloc,rawFree); rml::MemoryPool *p1=nullptr,*p2=nullptr; rml::MemPoolError e1=rml::pool_create_v1((intptr_t)&L1,&pol1,&p1), e2=rml::pool_create_v1((intptr_t)&L2,&pol2,&p2); if(e1!=rml::POOL_OK||e2!=rml::POOL_OK){ if(L1.fail_at<0){ printf("pool_create failed %d %d\n",e1,e2); bad++; } if(p1) rml::pool_destroy(p1); if(p2) rml::pool_destroy(p2); continue; }
    std::vector<std::thread> th; std::atomic<long> tbad{0}; for(int t=0;t<3;t++) th.emplace_back([&,t]{ rs=r*11+t; std::vector<std::tuple<void*,size_t,int>> mine; for(int i=0;i<400;i++){ unsigned op=rnd()%10; int which=rnd()%2; rml::MemoryPool* P=which?p2:p1; Log& L=which?L2:L1; if(op<6||mine.empty()){ size_t n= rnd()%5? 1+rnd()%5000: 1+rnd()%(3<<20); void*p= rnd()%4==0? rml::pool_aligned_malloc(P,n,(size_t)1<<(3+rnd()%10)) : rml::pool_malloc(P,n); if(!p) continue; if(!inside(L,p,n)){ printf("block outside its pool's raw regions\n"); tbad++; } if(rml::pool_identify(p)!=P){ printf("pool_identify wrong\n"); tbad++; } if(rml::pool_msize(P,p)<n){ printf("pool_msize small\n"); tbad++; } memset(p,0x42,n); mine.push_back({p,n,which}); } else if(op<9){ size_t j=rnd()%mine.size(); auto [p,n,w]=mine[j]; mine[j]=mine.back(); mine.pop_back(); if(((char*)p)[0]!=0x42||((char*)p)[n-1]!=0x42){ printf("pool block damaged\n"); tbad++; } rml::pool_free(w?p2:p1,p);} else { size_t j=rnd()%mine.size(); auto [p,n,w]=mine[j]; size_t nn=1+rnd()%9000; void*q=rml::pool_realloc(w?p2:p1,p,nn); if(q){ size_t k=n<nn?n:nn; if(((char*)q)[0]!=0x42||((char*)q)[k-1]!=0x42){ printf("pool realloc lost content\n"); tbad++; } memset(q,0x42,nn); mine[j]={q,nn,w}; } } } for(auto&[p,n,w]:mine) rml::pool_free(w?p2:p1,p); }); for(auto&t:th)t.join(); bad+=tbad;
    if(rnd()%2){ rml::pool_reset(p1); void*p=rml::pool_malloc(p1,100); if(p && !inside(L1,p,100)){ printf("after reset: block outside\n"); bad++; } }
    if(!rml::pool_destroy(p1)||!rml::pool_destroy(p2)){ printf("pool_destroy failed\n"); bad++; } if(!L1.live.empty()||!L2.live.empty()){ printf("round %d: %zu+%zu raw regions not returned after pool_destroy (keepAll=%d)\n",r,L1.live.size(),L2.live.size(),(int)pol1.keepAllMemory); bad++; } bad+=L1.bad+L2.bad; }
  // fixed pool: raw allocator must be called exactly once
  { static char buf[8<<20]; struct F{ int calls=0; } f; auto fa=[](intptr_t id,size_t& bytes)->void*{ F* f=(F*)id; f->calls++; bytes=sizeof buf; return f->calls==1? buf: nullptr; }; rml::MemPoolPolicy pol(fa,nullptr,0,true,false); rml::MemoryPool* fp=nullptr; if(rml::pool_create_v1((intptr_t)&f,&pol,&fp)!=rml::POOL_OK){ printf("fixed pool create failed\n"); bad++; } else { std::vector<void*> v; for(;;){ void*p=rml::pool_malloc(fp,1+rnd()%20000); if(!p) break; if((char*)p<buf||(char*)p>=buf+sizeof buf){ printf("fixed pool block outside buffer\n"); bad++; break;} v.push_back(p);} for(void*p:v) rml::pool_free(fp,p); if(f.calls!=1){ printf("fixed pool called the raw allocator %d times\n",f.calls); bad++; } rml::pool_destroy(fp); } }
  printf("rounds=%d bad=%ld\n",rounds,bad); return bad?1:0; }
