#include <oneapi/tbb.h>
#include <atomic>
#include <cstdio>
#include <cstdlib>
#include <thread>
#include <chrono>
static std::atomic<int> armed{-1}; struct Boom{}; static void maybe_throw(){ int a=armed.load(); if(a>=0 && armed.fetch_sub(1)==0) throw Boom(); }
static std::atomic<long> progress{0}; static const char* what="";
int main(int argc,char**argv){ int which=atoi(argv[1]); std::atomic<bool> stop{false}; std::thread wd([&]{ long last=-1; int same=0; while(!stop){ std::this_thread::sleep_for(std::chrono::milliseconds(500)); long p=progress; if(p==last){ if(++same>=12){ printf("%s: HANG at round %ld (exception was thrown from the combine callback: %s)\n",what,p,armed.load()<0?"yes":"no"); fflush(stdout); _Exit(3);} } else {same=0;last=p;} } });
  long thrown=0; for(int r=0;r<20000;r++){ armed=r%50; try{ if(which==0){ what="parallel_reduce(functional) reduction throws"; tbb::parallel_reduce(tbb::blocked_range<int>(0,4000,8),0L,[](const tbb::blocked_range<int>&rg,long a){ for(int i=rg.begin();i<rg.end();++i)a+=i; return a;},[](long x,long y){ maybe_throw(); return x+y; }); }
      else if(which==1){ what="parallel_deterministic_reduce reduction throws"; tbb::parallel_deterministic_reduce(tbb::blocked_range<int>(0,4000,8),0L,[](const tbb::blocked_range<int>&rg,long a){ for(int i=rg.begin();i<rg.end();++i)a+=i; return a;},[](long x,long y){ maybe_throw(); return x+y; }); }
      else if(which==2){ what="parallel_scan combine throws"; tbb::parallel_scan(tbb::blocked_range<int>(0,4000,8),0L,[](const tbb::blocked_range<int>&rg,long a,bool){ for(int i=rg.begin();i<rg.end();++i)a+=i; return a;},[](long x,long y){ maybe_throw(); return x+y; }); }
      else { what="parallel_for_each body throws (control)"; int a[64]; tbb::parallel_for_each(a,a+64,[](int&){ maybe_throw(); }); }
    }catch(Boom&){ thrown++; } armed=-1; progress++; }
  stop=true; wd.join(); printf("%s: 20000 rounds ok, %ld exceptions delivered\n",what,thrown); }
