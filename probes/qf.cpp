#include <oneapi/tbb/queuing_mutex.h>
#include <atomic>
#include <cstdio>
#include <cstdlib>
#include <thread>
#include <vector>
#include <algorithm>
#include <chrono>
static std::atomic<long> gseq{1}; static thread_local long tl_enq=0; static thread_local unsigned rs=1; static unsigned rnd(){ rs=rs*1664525u+1013904223u; return rs>>8; }
extern "C" void onetbb_verif_point(int id,const void*,long){ if(id==701) tl_enq=gseq++; }
struct Req{ long call,enq,acq; int thread; };
int main(int argc,char**argv){ int secs=atoi(argv[1]); rs=atoi(argv[2]); int reverse=argc>3?atoi(argv[3]):0; auto t0=std::chrono::steady_clock::now(); long rounds=0,bad=0,pairs=0,reqs=0;
  while(std::chrono::duration<double>(std::chrono::steady_clock::now()-t0).count()<secs && !bad){ rounds++; tbb::queuing_mutex m; int nt=2+rnd()%6; int per=50+rnd()%100; std::vector<std::vector<Req>> log(nt); std::atomic<int> go{0}; long plain=0;
    std::vector<std::thread> th; for(int t=0;t<nt;t++) th.emplace_back([&,t]{ rs=rounds*13+t; go++; while(go.load()<nt); for(int i=0;i<per;i++){ Req r; r.thread=t; r.call=gseq++; tl_enq=0; { tbb::queuing_mutex::scoped_lock l(m); r.acq=gseq++; r.enq=tl_enq; plain++; if(rnd()%4==0) for(volatile int k=0;k<(int)(rnd()%800);k++); } log[t].push_back(r); if(rnd()%3==0) for(volatile int k=0;k<(int)(rnd()%400);k++); } });
    for(auto&x:th)x.join(); std::vector<Req> all; for(auto&l:log) for(auto&r:l) all.push_back(r); reqs+=all.size(); if(plain!=(long)all.size()){ printf("lost update\n"); bad++; }
    // A.enq < B.call  =>  A.acq < B.acq.  Sweep: sort by call; track max acq among requests with enq < call.
    std::vector<Req> bycall=all, byenq=all; std::sort(bycall.begin(),bycall.end(),[](const Req&a,const Req&b){return a.call<b.call;}); std::sort(byenq.begin(),byenq.end(),[](const Req&a,const Req&b){return a.enq<b.enq;}); size_t j=0; long maxacq=0; for(auto&b:bycall){ while(j<byenq.size() && byenq[j].enq<b.call){ if(byenq[j].acq>maxacq) maxacq=byenq[j].acq; j++; pairs++; } if(reverse? false : b.acq<maxacq){ printf("round %ld: a request that entered the queue before this one was even called got the lock later (acq %ld < %ld)\n",rounds,b.acq,maxacq); bad++; break; } } }
  printf("rounds=%ld requests=%ld certain-order pairs=%ld bad=%ld\n",rounds,reqs,pairs,bad); return bad?1:0; }
