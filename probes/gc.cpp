#include <oneapi/tbb.h>
#include <atomic>
#include <cstdio>
#include <cstdlib>
#include <thread>
#include <vector>
#include <chrono>
#include <memory>
static thread_local unsigned rs=1; static unsigned rnd(){ rs=rs*1664525u+1013904223u; return rs>>8; }
static thread_local int tl_depth=0; static thread_local int tl_worker=-1; static thread_local long tl_scope=0; static thread_local int tl_iso_wait=0;
struct Obs: tbb::task_scheduler_observer{ std::atomic<long> entries{0},exits{0},bad{0}; Obs(){ observe(true);} void on_scheduler_entry(bool w) override{ entries++; tl_depth++; if(tl_worker<0) tl_worker=w; } void on_scheduler_exit(bool w) override{ exits++; if(--tl_depth<0){ bad++; printf("observer exit without entry on this thread\n"); } } };
int main(int argc,char**argv){ int secs=atoi(argv[1]); rs=atoi(argv[2]); Obs obs; auto t0=std::chrono::steady_clock::now(); long rounds=0,bad=0; long iso_checked=0;
  while(std::chrono::duration<double>(std::chrono::steady_clock::now()-t0).count()<secs && !bad){ rounds++; int L=1+rnd()%8; { tbb::global_control gc(tbb::global_control::max_allowed_parallelism,L);
      // drain: give workers from the previous regime time to leave (steady regime)
      std::this_thread::sleep_for(std::chrono::milliseconds(3)); std::atomic<int> workers_in{0},maxw{0},all_in{0},maxall{0};
      tbb::parallel_for(0,2000,[&](int){ bool isw = tl_worker==1; int a=++all_in; int ma=maxall; while(a>ma&&!maxall.compare_exchange_weak(ma,a)); if(isw){ int x=++workers_in; int m=maxw; while(x>m&&!maxw.compare_exchange_weak(m,x)); } for(volatile int k=0;k<(int)(rnd()%5000);k++); if(isw) --workers_in; --all_in; },tbb::simple_partitioner());
      if(maxw>L-1 && !(L==1)){ printf("round %ld: %d workers ran bodies at once under max_allowed_parallelism=%d\n",rounds,maxw.load(),L); bad++; } if(maxall>L && L>1){ printf("round %ld: %d threads in bodies at once under limit %d\n",rounds,maxall.load(),L); bad++; } }
    // isolation: thread waiting inside isolate must only run tasks of the same scope
    { std::atomic<long> ibad{0}; static std::atomic<long> scopes{1}; tbb::parallel_for(0,16,[&](int){ long outer_scope=0; // tasks of the outer loop have scope 0
        long my=scopes++; tbb::this_task_arena::isolate([&]{ long prev=tl_scope; int prevw=tl_iso_wait; tl_scope=my; tl_iso_wait=1; tbb::parallel_for(0,64,[&,my](int){ // inner body carries scope 'my'
              if(tl_iso_wait && tl_scope!=my){ ibad++; printf("isolated waiter of scope %ld executed a task of scope %ld\n",tl_scope,my); } for(volatile int k=0;k<(int)(rnd()%2000);k++); },tbb::simple_partitioner()); tl_scope=prev; tl_iso_wait=prevw; }); (void)outer_scope; iso_checked++; },tbb::simple_partitioner()); bad+=ibad; }
  }
  if(obs.bad) bad+=obs.bad; printf("rounds=%ld observer entries=%ld exits=%ld isolate scopes=%ld bad=%ld\n",rounds,obs.entries.load(),obs.exits.load(),iso_checked,bad); return bad?1:0; }
