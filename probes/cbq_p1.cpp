#include <oneapi/tbb/concurrent_queue.h>
#include <atomic>
#include <cstdio>
#include <thread>
#include <chrono>
int main(){
  tbb::concurrent_bounded_queue<long> q; q.set_capacity(1);
  q.push(100);
  std::atomic<bool> aborted{false};
  std::thread p([&]{ try{ q.push(101); printf("push 101 returned?\n"); }catch(tbb::user_abort&){ aborted=true; } });
  std::this_thread::sleep_for(std::chrono::milliseconds(100));
  q.abort(); p.join();
  printf("aborted=%d size=%td\n",(int)aborted.load(),q.size());
  // quiescent now. abort-free phase
  std::atomic<int> pushed{0}, popped{0};
  std::thread prod([&]{ for(long i=0;i<5;i++){ q.push(i); pushed++; } });
  std::this_thread::sleep_for(std::chrono::milliseconds(100));
  std::thread cons([&]{ for(int i=0;i<6;i++){ long v; q.pop(v); printf("popped %ld\n",v); popped++; } });
  for(int i=0;i<20 && popped<6;i++) std::this_thread::sleep_for(std::chrono::milliseconds(100));
  printf("pushed=%d popped=%d size=%td => %s\n",pushed.load(),popped.load(),q.size(), popped==6?"ok":"STUCK"); fflush(stdout); _Exit(popped==6?0:3);
}
