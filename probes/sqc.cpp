#include <oneapi/tbb/flow_graph.h>
#include <atomic>
#include <cstdio>
#include <cstdlib>
#include <thread>
#include <vector>
#include <chrono>
using namespace tbb::flow;
static thread_local unsigned rs=1; static unsigned rnd(){ rs=rs*1664525u+1013904223u; return rs>>8; }
int main(int argc,char**argv){ int secs=atoi(argv[1]); rs=atoi(argv[2]); int dup=atoi(argv[3]); int filler=argc>4?atoi(argv[4]):1; auto t0=std::chrono::steady_clock::now(); long rounds=0;
  while(std::chrono::duration<double>(std::chrono::steady_clock::now()-t0).count()<secs){ rounds++; int N=30+rnd()%200; int np=2+rnd()%3; graph g; std::vector<int> out; sequencer_node<int> sq(g,[](const int&x){return (size_t)(x%100000);}); function_node<int,continue_msg> sink(g,serial,[&](int x){ out.push_back(x); return continue_msg();}); make_edge(sq,sink);
    std::vector<std::vector<std::pair<int,bool>>> logs(np); std::vector<std::thread> ps; for(int p=0;p<np;p++) ps.emplace_back([&,p]{ rs=rounds*5+p; if(dup){ for(int i=0;i<N;i++){ int seq=(int)(rnd()%N); bool ok=sq.try_put((p+1)*100000+seq); logs[p].push_back({seq,ok}); } } else { for(int i=N-1-p;i>=0;i-=np){ bool ok=sq.try_put((p+1)*100000+i); logs[p].push_back({i,ok}); } } }); for(auto&t:ps)t.join();
    if(filler) for(int i=0;i<N;i++) sq.try_put(900000+i); g.wait_for_all();
    bool good=(int)out.size()==N || (!filler && dup); for(size_t i=0;good&&i<out.size();i++) if(out[i]%100000!=(int)i) good=false;
    if(!good){ printf("round %ld: N=%d producers=%d dup=%d: emitted %zu items; first missing seq %zu\n",rounds,N,np,dup,out.size(),out.size()); int missing=(int)out.size(); for(int p=0;p<np;p++){ printf("  producer %d puts of seq %d:",p,missing); for(auto&e:logs[p]) if(e.first==missing) printf(" %s",e.second?"accepted":"rejected"); printf("\n"); } int acc=0; for(int p=0;p<np;p++) for(auto&e:logs[p]) if(e.first==missing&&e.second) acc++; printf("  => seq %d was accepted %d time(s) by try_put yet never forwarded (filler put of it afterwards was %s)\n",missing,acc,"issued"); return 1; } }
  printf("ok rounds=%ld dup=%d\n",rounds,dup); }
