#include <oneapi/tbb/concurrent_vector.h>
#include <sys/mman.h>
#include <cstdio>
#include <cstdlib>
#include <thread>
#include <atomic>
#include <chrono>
// allocator that reserves address space lazily (no physical memory until touched)
template<class T> struct lazy_alloc {
  using value_type=T;
  lazy_alloc()=default; template<class U> lazy_alloc(const lazy_alloc<U>&){}
  T* allocate(size_t n){ size_t b=n*sizeof(T); void*p=mmap(nullptr,b,PROT_READ|PROT_WRITE,MAP_PRIVATE|MAP_ANONYMOUS|MAP_NORESERVE,-1,0); if(p==MAP_FAILED) throw std::bad_alloc(); return (T*)p; }
  void deallocate(T*p,size_t n){ munmap(p,n*sizeof(T)); }
  template<class U> bool operator==(const lazy_alloc<U>&)const{return true;}
  template<class U> bool operator!=(const lazy_alloc<U>&)const{return false;}
};
struct E { E(){} char c; };   // no-op construction: never touches memory
int main(int argc,char**argv){
  size_t n = strtoull(argv[1],0,0);
  tbb::concurrent_vector<E,lazy_alloc<E>> v;
  std::atomic<bool> done{false};
  std::thread t([&]{ v.grow_to_at_least(n); done=true; });
  for(int i=0;i<200 && !done;i++) std::this_thread::sleep_for(std::chrono::milliseconds(100));
  if(!done){ printf("n=%zu HANG size()=%zu\n",n,v.size()); fflush(stdout); _Exit(3);} 
  t.join();
  printf("n=%zu ok size=%zu cap=%zu &v[n-1]-&v[0]=%td\n",n,v.size(),v.capacity(),(char*)&v[n-1]-(char*)&v[0]);
}
