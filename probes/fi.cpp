#include <oneapi/tbb/scalable_allocator.h>
#include <sys/mman.h>
#include <sys/syscall.h>
#include <sys/wait.h>
#include <unistd.h>
#include <cstdio>
#include <cstdlib>
#include <cstring>
#include <cerrno>
#include <cstdint>
#include <vector>
#include <atomic>
static std::atomic<int> calls{0}; static int fail_from=-1, fail_to=-1; static thread_local int in_tbb=0; static std::atomic<int> fired{0};
extern "C" void* mmap(void* a, size_t l, int p, int f, int fd, off_t o){ if(in_tbb){ int c=++calls; if(c>=fail_from && c<=fail_to){ fired++; errno=ENOMEM; return MAP_FAILED; } } return (void*)syscall(SYS_mmap,a,l,p,f,fd,o); }
extern "C" void* mremap(void* a, size_t ol, size_t nl, int fl, ...){ if(in_tbb){ int c=++calls; if(c>=fail_from && c<=fail_to){ fired++; errno=ENOMEM; return MAP_FAILED; } } return (void*)syscall(SYS_mremap,a,ol,nl,fl,0); }
struct Blk{ unsigned char*p; size_t n; unsigned id; };
static unsigned char pat(unsigned id,size_t i){ return (unsigned char)(id*167+i*13+1); }
static void fill(Blk&b){ for(size_t i=0;i<b.n;i+=(b.n>8192?509:1)) b.p[i]=pat(b.id,i);} static bool chk(Blk&b){ for(size_t i=0;i<b.n;i+=(b.n>8192?509:1)) if(b.p[i]!=pat(b.id,i)) return false; return true; }
// deterministic trace; returns number of anomalies
static int trace(unsigned seed,int nops,long* fails_out){ std::vector<Blk> live; unsigned s=seed; auto rnd=[&]{ s=s*1664525u+1013904223u; return s>>8; }; int bad=0; long fails=0; unsigned ids=1;
  static const size_t szs[]={8,24,64,100,256,1000,1024,2000,4000,8128,8129,10000,20000,65536,100000,1<<20,(3<<20)+7,8<<20,(64<<20)+1};
  for(int i=0;i<nops;i++){ unsigned op=rnd()%10; if(op<6||live.empty()){ size_t n=szs[rnd()%(sizeof szs/sizeof*szs)]; unsigned kind=rnd()%4; errno=0; in_tbb=1; void*p= kind==0? scalable_malloc(n): kind==1? scalable_calloc(1,n): kind==2? scalable_aligned_malloc(n,(size_t)1<<(rnd()%14)) : scalable_malloc(n); int e=errno; in_tbb=0; if(!p){ fails++; if(e!=ENOMEM){ printf("alloc(%zu) failed with errno %d\n",n,e); bad++; } } else { Blk b{(unsigned char*)p,n,ids++}; if(kind==1) for(size_t j=0;j<n;j+=(n>8192?509:1)) if(b.p[j]){ printf("calloc dirty\n"); bad++; break;} for(auto&o:live) if(b.p<o.p+o.n && o.p<b.p+b.n){ printf("OVERLAP after faults\n"); bad++; } fill(b); live.push_back(b);} }
    else if(op<8){ size_t j=rnd()%live.size(); Blk b=live[j]; live[j]=live.back(); live.pop_back(); if(!chk(b)){ printf("pattern damaged before free (id %u n %zu)\n",b.id,b.n); bad++; } in_tbb=1; scalable_free(b.p); in_tbb=0; }
    else { size_t j=rnd()%live.size(); Blk b=live[j]; size_t nn=szs[rnd()%(sizeof szs/sizeof*szs)]; errno=0; in_tbb=1; void*q=scalable_realloc(b.p,nn); int e=errno; in_tbb=0; if(!q){ fails++; if(e!=ENOMEM){ printf("realloc errno %d\n",e); bad++; } if(!chk(b)){ printf("failed realloc damaged old block (n %zu -> %zu)\n",b.n,nn); bad++; } } else { size_t keep=b.n<nn?b.n:nn; bool ok=true; for(size_t t=0;t<keep;t+=(b.n>8192?509:1)) if(((unsigned char*)q)[t]!=pat(b.id,t)){ ok=false; break;} if(!ok){ printf("realloc lost content (n %zu -> %zu)\n",b.n,nn); bad++; } Blk nb{(unsigned char*)q,nn,ids++}; fill(nb); live[j]=nb; } }
    if(i%16==0){ for(auto&b:live) if(!chk(b)){ printf("sweep: pattern damaged id %u n %zu at op %d\n",b.id,b.n,i); bad++; } } }
  // after faults stop: memory must be obtainable again
  fail_from=fail_to=-1; in_tbb=1; void* z=scalable_malloc(5<<20); in_tbb=0; if(!z){ printf("allocation still failing after faults stopped\n"); bad++; } else scalable_free(z);
  for(auto&b:live){ if(!chk(b)){ printf("final: pattern damaged\n"); bad++; } scalable_free(b.p);} *fails_out=fails; return bad; }
int main(int argc,char**argv){ unsigned seed=atoi(argv[1]); int nops=atoi(argv[2]); int width=atoi(argv[3]);
  // pass 0: count mappings
  int pfd[2]; pipe(pfd); pid_t c=fork(); if(c==0){ long f; int bad=trace(seed,nops,&f); int m=calls.load(); write(pfd[1],&m,sizeof m); _exit(bad?1:0);} int M=0; read(pfd[0],&M,sizeof M); int st; waitpid(c,&st,0); printf("baseline: %d mapping calls, exit %d\n",M,WEXITSTATUS(st));
  int anomalies=0, crashed=0, firedcases=0; long totfails=0;
  for(int k=1;k<=M;k++){ pid_t p=fork(); if(p==0){ fail_from=k; fail_to=k+width-1; long f=0; int bad=trace(seed,nops,&f); if(bad) printf("  ^ case k=%d width=%d fired=%d api_failures=%ld\n",k,width,fired.load(),f); fflush(stdout); _exit(bad? 1 : (fired.load()? 0: 2)); } int s2; waitpid(p,&s2,0); if(WIFSIGNALED(s2)){ printf("case k=%d width=%d: child died with signal %d\n",k,width,WTERMSIG(s2)); crashed++; } else if(WEXITSTATUS(s2)==1) anomalies++; else if(WEXITSTATUS(s2)==0) firedcases++; }
  printf("seed=%u nops=%d width=%d: cases=%d fired=%d anomalies=%d crashed=%d\n",seed,nops,width,M,firedcases,anomalies,crashed); }
