#include <oneapi/tbb.h>
#include <atomic>
#include <cstdio>
#include <cstdlib>
#include <thread>
#include <vector>
#include <chrono>
#include <mutex>
#include <memory>
static thread_local unsigned rs=1; static unsigned rnd(){ rs=rs*1664525u+1013904223u; return rs>>8; }
static std::atomic<long> progress{0};
struct SP{ std::atomic<int> continued{0}; std::atomic<bool> resume_called{false}; std::atomic<int> running{0}; std::atomic<bool> done{false}; tbb::task::suspend_point sp; };
int main(int argc,char**argv){ int secs=atoi(argv[1]); rs=atoi(argv[2]); std::atomic<bool> stop{false};
  std::thread wd([&]{ long last=-1; int same=0; while(!stop){ std::this_thread::sleep_for(std::chrono::milliseconds(250)); long p=progress; if(p==last){ if(++same>=24){ printf("STUCK after %ld scenarios\n",p); fflush(stdout); _Exit(3);} } else {same=0;last=p;} } });
  // resumer thread pool: receives suspend points and resumes them after a random delay
  std::mutex qm; std::vector<SP*> q; std::atomic<bool> rstop{false}; std::vector<std::thread> resumers; for(int k=0;k<2;k++) resumers.emplace_back([&,k]{ unsigned s=77+k; while(!rstop){ SP* x=nullptr; { std::lock_guard<std::mutex> l(qm); if(!q.empty()){ x=q.back(); q.pop_back(); } } if(x){ s=s*1664525u+1013904223u; if((s>>8)%3==0) for(volatile int i=0;i<(int)((s>>10)%5000);i++); x->resume_called=true; tbb::task::resume(x->sp); } else std::this_thread::yield(); } });
  auto t0=std::chrono::steady_clock::now(); long scen=0,points=0,bad=0,early=0;
  while(std::chrono::duration<double>(std::chrono::steady_clock::now()-t0).count()<secs && !bad){ scen++; int P=1+rnd()%4; int n=1+rnd()%24; tbb::task_arena ar(P); std::vector<std::unique_ptr<SP>> sps; for(int i=0;i<n;i++) sps.emplace_back(new SP); std::atomic<int> other{0};
    ar.execute([&]{ tbb::parallel_for(0,n,[&](int i){ SP& s=*sps[i]; if(s.running.fetch_add(1)!=0){ printf("two threads in task %d\n",i); bad++; } int mode=rnd()%3; 
        s.running--; // leaving the stack
        tbb::task::suspend([&s,mode,&qm,&q](tbb::task::suspend_point sp){ s.sp=sp; if(mode==0){ s.resume_called=true; tbb::task::resume(sp); /* synchronous early resume */ } else { std::lock_guard<std::mutex> l(qm); q.push_back(&s); } });
        if(s.running.fetch_add(1)!=0){ printf("continuation of %d overlaps another execution\n",i); bad++; }
        if(!s.resume_called.load()){ printf("task %d continued before resume was called\n",i); bad++; }
        if(s.continued.fetch_add(1)!=0){ printf("task %d continued twice\n",i); bad++; }
        if(rnd()%4==0){ tbb::parallel_for(0,4,[&](int){ other++; }); }
        s.running--; s.done=true; },tbb::simple_partitioner()); });
    for(int i=0;i<n;i++){ if(!sps[i]->done || sps[i]->continued!=1){ printf("scenario %ld: algorithm returned but task %d done=%d continued=%d\n",scen,i,(int)sps[i]->done,(int)sps[i]->continued); bad++; } } points+=n; progress++; }
  rstop=true; for(auto&t:resumers)t.join(); stop=true; wd.join(); printf("scenarios=%ld suspend_points=%ld bad=%ld\n",scen,points,bad); return bad?1:0; }
