// Reproducer for known finding part.affinity-chunk-below-documented-half-grain (property C05, key
// c05.B.affinity-chunk-below-half-grain). doc/main/tbb_userguide/Partitioner_Summary.rst and Controlling_Chunking_os.rst
// promise "g/2 <= chunksize" for affinity_partitioner ("they never generate chunks with less than [G/2] iterations").
// With an odd number of slots the proportional split is uneven (P=3 -> 2:1), so a barely divisible range is cut into
// pieces of about 2g/3 and g/3:   affinity P=3 n=101 g=100 -> [0,67) and [67,101): 34 < 50.
//   g++ -std=c++17 -O2 -I/repo/include pf_affinity_half_grain.cpp -L<libdir> -Wl,-rpath,<libdir> -ltbb -lpthread
#include <oneapi/tbb.h>
#include <cstdio>
#include <mutex>
#include <vector>
int main() {
    tbb::global_control gc(tbb::global_control::max_allowed_parallelism, 16);
    int bad = 0;
    for (int P : { 3, 5, 7 }) {
        tbb::task_arena a(P); tbb::affinity_partitioner ap; std::mutex m; std::vector<std::pair<int, int>> v;
        a.execute([&] { tbb::parallel_for(tbb::blocked_range<int>(0, 101, 100), [&](const tbb::blocked_range<int>& r) { std::lock_guard<std::mutex> l(m); v.push_back({ r.begin(), r.end() }); }, ap); });
        for (auto& c : v) { int sz = c.second - c.first; printf("affinity_partitioner, arena(%d), blocked_range(0,101,100): chunk [%d,%d) size %d%s\n", P, c.first, c.second, sz, sz < 50 ? "  < g/2" : ""); if (sz < 50) bad++; }
    }
    return bad ? 1 : 0;
}
