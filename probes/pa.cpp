#include <oneapi/tbb/concurrent_queue.h>
#include <atomic>
#include <cstdio>
#include <cstdlib>
#include <thread>
#include <vector>
#include <chrono>
#include <new>
static std::atomic<int> armed{-1}; static std::atomic<long> allocs{0};
template<class T> struct FA{ using value_type=T; FA()=default; template<class U> FA(const FA<U>&){} T* allocate(size_t n){ allocs++; int a=armed.load(); if(a>=0 && armed.fetch_sub(1)==0) throw std::bad_alloc(); return (T*)::operator new(n*sizeof(T)); } void deallocate(T*p,size_t){ ::operator delete(p);} template<class U> bool operator==(const FA<U>&)const{return true;} template<class U> bool operator!=(const FA<U>&)const{return false;} };
static thread_local unsigned rs=1; static unsigned rnd(){ rs=rs*1664525u+1013904223u; return rs>>8; }
static std::atomic<long> progress{0}; static const char* what="";
struct Big{ long v; char pad[120]; };
template<class Q> long round_(bool bounded){ Q q; std::atomic<long> pushed{0},psum{0},exc{0},popped{0},csum{0}; int np=2+rnd()%2; int per=60; armed=rnd()%40; std::atomic<bool> pd{false};
  std::vector<std::thread> th; for(int p=0;p<np;p++) th.emplace_back([&,p]{ for(int i=0;i<per;i++){ Big b; b.v=p*1000+i; try{ q.push(b); pushed++; psum+=b.v; }catch(std::bad_alloc&){ exc++; }catch(tbb::bad_last_alloc&){ exc++; } } });
  std::thread c([&]{ Big x; while(!pd){ if(q.try_pop(x)){ popped++; csum+=x.v; } else std::this_thread::yield(); } while(q.try_pop(x)){ popped++; csum+=x.v; } }); for(auto&t:th)t.join(); pd=true; c.join(); armed=-1; long bad=0; if(popped!=pushed||csum!=psum){ printf("%s: pushed %ld (sum %ld) popped %ld (sum %ld) exceptions %ld\n",what,pushed.load(),psum.load(),popped.load(),csum.load(),exc.load()); bad++; } return bad; }
int main(int argc,char**argv){ int secs=atoi(argv[1]); rs=atoi(argv[2]); std::atomic<bool> stop{false}; std::thread wd([&]{ long last=-1; int same=0; while(!stop){ std::this_thread::sleep_for(std::chrono::milliseconds(500)); long p=progress; if(p==last){ if(++same>=12){ printf("HANG in %s at round %ld\n",what,p); fflush(stdout); _Exit(3);} } else {same=0;last=p;} } });
  auto t0=std::chrono::steady_clock::now(); long rounds=0,bad=0; while(std::chrono::duration<double>(std::chrono::steady_clock::now()-t0).count()<secs && !bad){ rounds++; what="concurrent_queue/page alloc fails"; bad+=round_<tbb::concurrent_queue<Big,FA<Big>>>(false); progress++; what="concurrent_bounded_queue(unbounded cap)/page alloc fails"; bad+=round_<tbb::concurrent_bounded_queue<Big,FA<Big>>>(true); progress++; }
  stop=true; wd.join(); printf("rounds=%ld bad=%ld\n",rounds,bad); return bad?1:0; }
