#include <oneapi/tbb/flow_graph.h>
#include <oneapi/tbb/task_arena.h>
#include <atomic>
#include <cstdio>
#include <cstdlib>
#include <thread>
#include <vector>
#include <memory>
#include <mutex>
#include <chrono>
using namespace tbb::flow;
static thread_local unsigned rs=1; static unsigned rnd(){ rs=rs*1664525u+1013904223u; return rs>>8; }
static std::atomic<long> progress{0};
struct NodeRec{ int kind; std::shared_ptr<graph_node> n, aux, aux2; receiver<int>* in=nullptr; sender<int>* out=nullptr; std::vector<int> succ; int limit=0; std::unique_ptr<std::atomic<int>[]> cnt; std::atomic<int> live{0}, maxlive{0}; long paths=0; bool is_sink=false; };
static const char* kname[]={"fq","fl","fr","queue","buffer","pq","bcast","limiter","mf"};
int main(int argc,char**argv){ int secs=atoi(argv[1]); rs=atoi(argv[2]); std::atomic<bool> stop{false}; std::thread wd([&]{ long last=-1; int same=0; while(!stop){ std::this_thread::sleep_for(std::chrono::milliseconds(500)); long p=progress; if(p==last){ if(++same>=16){ printf("STUCK at round %ld\n",p); fflush(stdout); _Exit(3);} } else {same=0;last=p;} } });
  auto t0=std::chrono::steady_clock::now(); long rounds=0,bad=0,msgs=0;
  while(std::chrono::duration<double>(std::chrono::steady_clock::now()-t0).count()<secs && !bad){ rounds++; int M=20+rnd()%200; int NN=3+rnd()%9; graph g; std::vector<std::unique_ptr<NodeRec>> ns;
    auto body=[&](NodeRec* r){ return [r,M](int x)->int{ int l=++r->live; int m=r->maxlive.load(); while(l>m && !r->maxlive.compare_exchange_weak(m,l)); if(x>=0&&x<M) r->cnt[x]++; if(rnd()%8==0) for(volatile int k=0;k<(int)(rnd()%2000);k++); --r->live; return x; }; };
    for(int i=0;i<NN;i++){ ns.emplace_back(new NodeRec); NodeRec& r=*ns.back(); r.cnt.reset(new std::atomic<int>[M]); for(int k=0;k<M;k++) r.cnt[k]=0; int kind= i==0? (rnd()%2? 0:3) : rnd()%9; r.kind=kind;
      switch(kind){ case 0:{ int c=rnd()%3; r.limit= c==0?1: c==1?2:0; auto p=std::make_shared<function_node<int,int>>(g, r.limit? (size_t)r.limit: unlimited, body(&r)); r.n=p; r.in=p.get(); r.out=p.get(); break; }
        case 1:{ auto p=std::make_shared<function_node<int,int,lightweight>>(g,unlimited,body(&r)); r.n=p; r.in=p.get(); r.out=p.get(); break; }
        case 2:{ r.limit=1+rnd()%2; auto q=std::make_shared<queue_node<int>>(g); auto p=std::make_shared<function_node<int,int,rejecting>>(g,(size_t)r.limit,body(&r)); make_edge(*q,*p); r.aux=q; r.n=p; r.in=q.get(); r.out=p.get(); break; }
        case 3:{ auto p=std::make_shared<queue_node<int>>(g); r.n=p; r.in=p.get(); r.out=p.get(); break; }
        case 4:{ auto p=std::make_shared<buffer_node<int>>(g); r.n=p; r.in=p.get(); r.out=p.get(); break; }
        case 5:{ auto p=std::make_shared<priority_queue_node<int>>(g); r.n=p; r.in=p.get(); r.out=p.get(); break; }
        case 6:{ auto p=std::make_shared<broadcast_node<int>>(g); r.n=p; r.in=p.get(); r.out=p.get(); break; }
        case 7:{ r.limit=1+rnd()%3; auto q=std::make_shared<queue_node<int>>(g); auto l=std::make_shared<limiter_node<int>>(g,(size_t)r.limit); auto p=std::make_shared<function_node<int,int>>(g,serial,body(&r)); auto d=std::make_shared<function_node<int,continue_msg>>(g,unlimited,[](int){return continue_msg();}); make_edge(*q,*l); make_edge(*l,*p); make_edge(*p,*d); make_edge(*d,l->decrementer()); r.aux=q; r.aux2=l; r.n=p; r.in=q.get(); r.out=p.get(); ns.back()->n=p; static std::vector<std::shared_ptr<graph_node>> keep; keep.push_back(d); if(keep.size()>64) keep.erase(keep.begin(),keep.begin()+32); break; }
        default:{ using mfn=multifunction_node<int,std::tuple<int>>; NodeRec* rp=&r; auto p=std::make_shared<mfn>(g,unlimited,[rp,M](const int&x, mfn::output_ports_type& op){ if(x>=0&&x<M) rp->cnt[x]++; std::get<0>(op).try_put(x); }); r.n=p; r.in=p.get(); r.out=&output_port<0>(*p); break; } } }
    // wiring: node i>0 gets 1..2 predecessors among earlier nodes; single-receiver nodes (3,4,5) accept only one successor
    std::vector<int> nsucc(NN,0); for(int i=1;i<NN;i++){ int np=1+(rnd()%4==0); for(int k=0;k<np;k++){ int tries=0; int p; do{ p=rnd()%i; tries++; } while(tries<10 && ((ns[p]->kind>=3&&ns[p]->kind<=5 && nsucc[p]>=1) )); if(ns[p]->kind>=3&&ns[p]->kind<=5 && nsucc[p]>=1) continue; bool dup=false; for(int s:ns[p]->succ) if(s==i) dup=true; if(dup) continue; ns[p]->succ.push_back(i); nsucc[p]++; } }
    // any node without predecessor (other than 0) is fed from node 0? simpler: compute reachability from 0; unreachable nodes expect 0.
    for(int p=0;p<NN;p++) for(int s:ns[p]->succ) make_edge(*ns[p]->out,*ns[s]->in);
    // sinks: every node with no successor gets a counting sink; buffering nodes without successor simply hold items
    ns[0]->paths=1; for(int i=0;i<NN;i++) for(int s:ns[i]->succ) ns[s]->paths+=ns[i]->paths;
    int nthreads=1+rnd()%3; tbb::task_arena ar(2+rnd()%6); std::vector<std::thread> th; std::atomic<int> rejected{0}; for(int t=0;t<nthreads;t++) th.emplace_back([&,t]{ rs=rounds*17+t; for(int x=t;x<M;x+=nthreads){ if(!ns[0]->in->try_put(x)) rejected++; if(rnd()%6==0) std::this_thread::yield(); } }); for(auto&t:th)t.join(); g.wait_for_all();
    if(rejected){ printf("round %ld: entry node rejected %d puts\n",rounds,rejected.load()); bad++; }
    for(int i=0;i<NN && !bad;i++){ NodeRec& r=*ns[i]; bool has_body = r.kind==0||r.kind==1||r.kind==2||r.kind==7||r.kind==8; if(r.live!=0){ printf("round %ld: wait_for_all returned with node %d body live\n",rounds,i); bad++; } if(r.limit && r.maxlive>r.limit){ printf("round %ld: node %d (%s limit %d) ran %d bodies at once\n",rounds,i,kname[r.kind],r.limit,r.maxlive.load()); bad++; } if(!has_body) continue; for(int x=0;x<M;x++) if(r.cnt[x]!=r.paths){ printf("round %ld: node %d (%s) processed message %d %d times, expected %ld [NN=%d M=%d threads=%d]\n",rounds,i,kname[r.kind],x,r.cnt[x].load(),r.paths,NN,M,nthreads); for(int j=0;j<NN;j++){ printf("   node %d %s limit=%d paths=%ld succ:",j,kname[ns[j]->kind],ns[j]->limit,ns[j]->paths); for(int s:ns[j]->succ) printf(" %d",s); printf("\n"); } bad++; break; } }
    msgs+=M; progress++; }
  stop=true; wd.join(); printf("rounds=%ld messages=%ld bad=%ld\n",rounds,msgs,bad); return bad?1:0; }
