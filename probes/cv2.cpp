#include <oneapi/tbb/concurrent_vector.h>
#include <cstdio>
#include <atomic>
static int armed=-1; struct Boom{};
struct Elem{ long v; Elem(long x=0):v(x){} Elem(const Elem&o):v(o.v){ if(armed>=0 && armed--==0) throw Boom(); } };
int main(){ tbb::concurrent_vector<Elem> v; Elem e(7); v.grow_by(1000,e); printf("size=%zu capacity=%zu\n",v.size(),v.capacity());
  armed=5; try{ v.grow_by(5000,e); printf("no throw?\n"); }catch(Boom&){ printf("grow_by threw as injected; size=%zu capacity=%zu\n",v.size(),v.capacity()); }
  armed=-1; size_t ok=0,thr=0; for(size_t i=0;i<v.size();i++){ try{ (void)v.at(i).v; ok++; }catch(...){ thr++; } } printf("at(): ok=%zu threw=%zu\n",ok,thr); }
