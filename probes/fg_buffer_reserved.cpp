// DESIGN 4 / C15 finding (fixed by caad679): buffer_node::try_get handed out the item that was reserved when it was the only item;
// the following try_consume then moved my_head past my_tail and the next put was lost. Expected after the fix: try_get while reserved = 0.
#include <oneapi/tbb/flow_graph.h>
#include <cstdio>
using namespace tbb::flow;
int main(){
  graph g; buffer_node<int> b(g);
  b.try_put(7);
  int r=-1, v=-1, w=-1;
  bool okr=b.try_reserve(r);
  bool okg=b.try_get(v);          // while the only item is reserved
  printf("reserve=%d (%d)  try_get while reserved=%d (%d)\n",okr,r,okg,v);
  b.try_consume();
  b.try_put(8); b.try_put(9);
  int n=0; while(b.try_get(w)){ printf("drain %d\n",w); if(++n>5)break; }
  g.wait_for_all();
  // queue_node and priority for comparison
  { queue_node<int> q(g); q.try_put(1); int a=-1,c=-1; bool x=q.try_reserve(a); bool y=q.try_get(c); printf("queue: reserve=%d get-while-reserved=%d\n",x,y); q.try_release(); g.wait_for_all(); }
  { priority_queue_node<int> q(g); q.try_put(1); int a=-1,c=-1; bool x=q.try_reserve(a); bool y=q.try_get(c); printf("prio: reserve=%d get-while-reserved=%d\n",x,y); q.try_release(); g.wait_for_all(); }
}
