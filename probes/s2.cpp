#include <oneapi/tbb.h>
#include <oneapi/tbb/collaborative_call_once.h>
#include <cstdio>
#include <atomic>
#include <vector>
#include <thread>
#include <numeric>
int main(){
  const int NT=6;
  // containers
  tbb::concurrent_vector<int> cv; tbb::concurrent_unordered_map<int,int> um; tbb::concurrent_map<int,int> om; tbb::concurrent_set<int> os;
  tbb::concurrent_priority_queue<int> pq; tbb::enumerable_thread_specific<int> ets(0); tbb::collaborative_once_flag fl; int once=0;
  tbb::spin_rw_mutex srw; tbb::queuing_rw_mutex qrw; tbb::queuing_mutex qm; tbb::rw_mutex rw; tbb::mutex mx; tbb::spin_mutex sm; long shared[6]={0};
  std::vector<std::thread> th;
  for(int k=0;k<NT;k++) th.emplace_back([&,k]{
    for(int i=0;i<3000;i++){
      cv.push_back(i); if(i%50==0) cv.grow_by(17); um.insert({i*NT+k,i}); um.insert({i,i}); om.insert({i,k}); os.insert(i%100); um.find(i); om.find(i); 
      pq.push(i); int x; pq.try_pop(x); ets.local()++;
      tbb::collaborative_call_once(fl,[&]{once++;});
      { tbb::spin_rw_mutex::scoped_lock l(srw,i%4==0); if(i%4==0) shared[0]++; else { volatile long y=shared[0]; (void)y; if(i%16==1 && l.upgrade_to_writer()) shared[0]++; } }
      { tbb::queuing_rw_mutex::scoped_lock l(qrw,i%4==0); if(i%4==0) shared[1]++; else { volatile long y=shared[1]; (void)y; if(i%16==1){ l.upgrade_to_writer(); shared[1]++; l.downgrade_to_reader(); } } }
      { tbb::queuing_mutex::scoped_lock l(qm); shared[2]++; }
      { tbb::rw_mutex::scoped_lock l(rw,i%4==0); if(i%4==0) shared[3]++; else { volatile long y=shared[3]; (void)y; } }
      { tbb::mutex::scoped_lock l(mx); shared[4]++; }
      { tbb::spin_mutex::scoped_lock l(sm); shared[5]++; }
    }});
  for(auto&x:th)x.join();
  long es=0; for(auto&v:ets) es+=v;
  // algorithms
  std::vector<int> a(200000); std::iota(a.begin(),a.end(),0); std::vector<long> out(a.size());
  long tot=tbb::parallel_scan(tbb::blocked_range<size_t>(0,a.size()),0L,[&](const tbb::blocked_range<size_t>&r,long s,bool fin){for(size_t i=r.begin();i<r.end();++i){s+=a[i]; if(fin) out[i]=s;} return s;},std::plus<long>());
  std::vector<int> b(100000); for(size_t i=0;i<b.size();i++) b[i]=(int)((i*2654435761u)%1000); tbb::parallel_sort(b.begin(),b.end());
  tbb::parallel_for_each(a.begin(),a.begin()+1000,[&](int& x, tbb::feeder<int>& f){ if(x<10) { static int extra[10]; extra[x]=x+100000; f.add(extra[x]); } });
  std::atomic<int> pc{0}; int src=0;
  tbb::parallel_pipeline(4, tbb::make_filter<void,int>(tbb::filter_mode::serial_in_order,[&](tbb::flow_control&fc){ if(src>=5000){fc.stop();return 0;} return src++;}) &
     tbb::make_filter<int,int>(tbb::filter_mode::parallel,[&](int x){return x*2;}) & tbb::make_filter<int,void>(tbb::filter_mode::serial_in_order,[&](int x){pc+=x;}));
  // resumable tasks
  std::atomic<int> rc{0}; std::vector<std::thread> rth; tbb::spin_mutex rm;
  tbb::parallel_for(0,64,[&](int){ tbb::task::suspend([&](tbb::task::suspend_point sp){ tbb::spin_mutex::scoped_lock l(rm); rth.emplace_back([sp,&rc]{ rc++; tbb::task::resume(sp);}); }); });
  for(auto&t:rth)t.join();
  // flow graph
  using namespace tbb::flow; graph g; std::atomic<int> fc{0};
  function_node<int,int> f1(g,2,[&](int x){return x+1;}); function_node<int,int,rejecting> f2(g,1,[&](int x){fc++;return x;});
  queue_node<int> q1(g); limiter_node<int> lim(g,3); join_node<std::tuple<int,int>,queueing> j(g); buffer_node<int> bn(g); sequencer_node<int> sq(g,[](int x){return (size_t)x;});
  function_node<std::tuple<int,int>,continue_msg> sink(g,serial,[&](const std::tuple<int,int>&){fc++; return continue_msg();});
  make_edge(f1,q1); make_edge(q1,f2); make_edge(f2,input_port<0>(j)); make_edge(sq,lim); make_edge(lim,input_port<1>(j)); make_edge(j,sink); make_edge(sink,lim.decrementer());
  std::thread e1([&]{for(int i=0;i<500;i++) f1.try_put(i);}); std::thread e2([&]{for(int i=499;i>=0;i--) sq.try_put(i);});
  e1.join(); e2.join(); g.wait_for_all();
  printf("%zu %zu %zu %ld once=%d sh=%ld %ld %ld tot=%ld pc=%d rc=%d fc=%d\n",cv.size(),um.size(),om.size(),es,once,shared[0],shared[1],shared[2],tot,pc.load(),rc.load(),fc.load());
}
