#include <oneapi/tbb/scalable_allocator.h>
#include <atomic>
#include <cstdio>
#include <cstdlib>
#include <cstring>
#include <cstdint>
#include <thread>
#include <vector>
#include <mutex>
#include <map>
#include <chrono>
struct Blk{ unsigned char* p; size_t ext; unsigned id; size_t req; size_t al; };
static std::mutex mapm[64]; static std::map<uintptr_t,Blk> live[64]; // shard by addr>>20 .. blocks may span shards: keep one global map for simplicity of overlap check
static std::mutex gm; static std::map<uintptr_t,Blk> gl; static std::atomic<long> bad{0}, ops{0}, foreign{0};
static inline unsigned char pat(unsigned id,size_t i){ return (unsigned char)((id*2654435761u>>8) ^ (i*31)); }
static void fill(Blk&b){ for(size_t i=0;i<b.ext;i+= (b.ext>4096? 61:1)) b.p[i]=pat(b.id,i); }
static bool check(const Blk&b,const char*where){ for(size_t i=0;i<b.ext;i+=(b.ext>4096?61:1)) if(b.p[i]!=pat(b.id,i)){ printf("PATTERN damaged %s id=%u p=%p ext=%zu at %zu req=%zu al=%zu\n",where,b.id,b.p,b.ext,i,b.req,b.al); bad++; return false;} return true; }
static void reg(Blk&b){ std::lock_guard<std::mutex> l(gm); auto it=gl.lower_bound((uintptr_t)b.p); if(it!=gl.end() && it->first < (uintptr_t)b.p+b.ext){ printf("OVERLAP new [%p,+%zu) with live [%p,+%zu)\n",b.p,b.ext,it->second.p,it->second.ext); bad++; } if(it!=gl.begin()){ auto pr=std::prev(it); if(pr->first+pr->second.ext > (uintptr_t)b.p){ printf("OVERLAP new [%p,+%zu) with live [%p,+%zu)\n",b.p,b.ext,pr->second.p,pr->second.ext); bad++; } } gl[(uintptr_t)b.p]=b; }
static void unreg(Blk&b){ std::lock_guard<std::mutex> l(gm); gl.erase((uintptr_t)b.p); }
static std::mutex qm; static std::vector<Blk> handoff;
static const size_t bounds[]={1,7,8,9,15,16,17,24,32,40,48,56,63,64,65,79,80,81,96,112,128,129,160,192,224,256,257,320,384,448,512,513,640,768,896,1024,1025,1792,1793,2688,2689,4032,4033,5376,5377,8128,8129,8192,16384,16385,65536,1<<20,(1<<20)+1};
int main(int argc,char**argv){ int nt=atoi(argv[1]); int secs=atoi(argv[2]); unsigned seed=atoi(argv[3]); std::atomic<bool> stop{false}; std::atomic<unsigned> ids{1};
  auto worker=[&](int k,int lifetime_ops){ unsigned s=seed*977+k*131; auto rnd=[&]{ s=s*1664525u+1013904223u; return s>>8; }; std::vector<Blk> mine; int n=0;
    while(!stop && (lifetime_ops<0 || n<lifetime_ops)){ n++; ops++; unsigned op=rnd()%100;
      if(op<45 || mine.empty()){ size_t sz = rnd()%3? bounds[rnd()%(sizeof bounds/sizeof*bounds)] + (rnd()%5==0? rnd()%9:0) : 1+rnd()%20000; if(rnd()%50==0) sz=(size_t)1<<(20+rnd()%5); size_t al=0; unsigned char*p; unsigned kind=rnd()%10; if(kind<6) p=(unsigned char*)scalable_malloc(sz); else if(kind<8){ al=(size_t)1<<(rnd()%13); p=(unsigned char*)scalable_aligned_malloc(sz,al);} else { p=(unsigned char*)scalable_calloc(1,sz); if(p) for(size_t i=0;i<sz;i+= (sz>4096?61:1)) if(p[i]){ printf("calloc nonzero\n"); bad++; break;} }
        if(!p){ printf("alloc failed %zu\n",sz); bad++; continue;} size_t need= al? al : (sz<=8? 8:16); if((uintptr_t)p & (need-1)){ printf("MISALIGNED p=%p sz=%zu al=%zu\n",p,sz,al); bad++; } size_t ms=scalable_msize(p); if(ms<sz){ printf("msize %zu < %zu\n",ms,sz); bad++; }
        Blk b{p,ms,ids++,sz,al}; reg(b); fill(b); mine.push_back(b); }
      else if(op<75){ size_t i=rnd()%mine.size(); Blk b=mine[i]; mine[i]=mine.back(); mine.pop_back(); check(b,"at free"); unreg(b); if(b.al) scalable_aligned_free(b.p); else scalable_free(b.p); }
      else if(op<85){ size_t i=rnd()%mine.size(); Blk b=mine[i]; size_t ns=1+rnd()%30000; check(b,"before realloc"); unreg(b); unsigned char* q=(unsigned char*)(b.al? scalable_aligned_realloc(b.p,ns,b.al): scalable_realloc(b.p,ns)); if(!q){ printf("realloc failed\n"); bad++; reg(b); continue;} size_t keep= b.req<ns? b.req:ns; for(size_t j=0;j<keep;j+=(keep>4096?61:1)) if(j% (b.ext>4096?61:1)==0 && q[j]!=pat(b.id,j)){ /* stride mismatch tolerant */ if(b.ext<=4096){ printf("REALLOC lost content id=%u at %zu (old req %zu new %zu)\n",b.id,j,b.req,ns); bad++; break; } }
        if(b.al && ((uintptr_t)q&(b.al-1))){ printf("aligned_realloc misaligned\n"); bad++; } Blk nb{q,scalable_msize(q),ids++,ns,b.al}; if(nb.ext<ns){printf("realloc msize small\n");bad++;} reg(nb); fill(nb); mine[i]=nb; }
      else if(op<95){ if(!mine.empty()){ size_t i=rnd()%mine.size(); Blk b=mine[i]; mine[i]=mine.back(); mine.pop_back(); std::lock_guard<std::mutex> l(qm); handoff.push_back(b);} { Blk b; bool got=false; { std::lock_guard<std::mutex> l(qm); if(!handoff.empty()){ size_t j=rnd()%handoff.size(); b=handoff[j]; handoff[j]=handoff.back(); handoff.pop_back(); got=true; } } if(got){ foreign++; check(b,"foreign free"); unreg(b); if(b.al) scalable_aligned_free(b.p); else scalable_free(b.p);} } }
      else if(op<97){ scalable_allocation_command(rnd()%2? TBBMALLOC_CLEAN_ALL_BUFFERS: TBBMALLOC_CLEAN_THREAD_BUFFERS,0); }
      else { for(auto&b:mine) check(b,"sweep"); } }
    // thread exits with live blocks: hand them all off (orphaned slabs)
    std::lock_guard<std::mutex> l(qm); for(auto&b:mine) handoff.push_back(b); };
  std::vector<std::thread> th; for(int k=0;k<nt;k++) th.emplace_back(worker,k,-1);
  std::thread spawner([&]{ int k=100; while(!stop){ std::thread t(worker,k++,300+k%500); t.join(); } });
  std::this_thread::sleep_for(std::chrono::seconds(secs)); stop=true; for(auto&t:th)t.join(); spawner.join();
  for(auto&b:handoff){ check(b,"final"); unreg(b); if(b.al) scalable_aligned_free(b.p); else scalable_free(b.p);} 
  printf("ops=%ld foreign_frees=%ld bad=%ld live_left=%zu\n",ops.load(),foreign.load(),bad.load(),gl.size()); return bad?1:0; }
