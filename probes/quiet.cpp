#include <oneapi/tbb.h>
#include <atomic>
#include <cstdio>
#include <cstdlib>
#include <cstring>
#include <chrono>
#include <thread>
#include <vector>
#include <string>
#include <dirent.h>
#include <unistd.h>
#include <sys/syscall.h>
#include <mutex>
#include <condition_variable>
struct TS { int tid; char st; unsigned long cpu; };
static std::vector<TS> sample(int self){
  std::vector<TS> v; DIR* d=opendir("/proc/self/task"); if(!d) return v; dirent* e;
  while((e=readdir(d))){ if(e->d_name[0]=='.') continue; int tid=atoi(e->d_name); if(tid==self) continue;
    char p[64]; snprintf(p,sizeof p,"/proc/self/task/%d/stat",tid); FILE* f=fopen(p,"r"); if(!f) continue; char buf[1024]; size_t n=fread(buf,1,sizeof buf-1,f); fclose(f); buf[n]=0;
    char* r=strrchr(buf,')'); if(!r) continue; char st; unsigned long ut,stt; // fields after ')': state(3) ... utime(14) stime(15)
    int k=sscanf(r+2,"%c %*d %*d %*d %*d %*d %*u %*u %*u %*u %*u %lu %lu",&st,&ut,&stt); if(k==3) v.push_back({tid,st,ut+stt}); }
  closedir(d); return v; }
int main(int argc,char**argv){
  int mode=atoi(argv[1]);
  std::atomic<bool> go{false}; std::mutex m; std::condition_variable cv;
  std::thread wd([&]{ int self=syscall(SYS_gettid); std::vector<TS> prev; int stable=0; auto t0=std::chrono::steady_clock::now();
    for(int i=0;i<400;i++){ std::this_thread::sleep_for(std::chrono::milliseconds(100)); auto cur=sample(self); bool q=!cur.empty();
      for(auto&c:cur){ if(c.st!='S') q=false; bool found=false; for(auto&p:prev) if(p.tid==c.tid){found=true; if(p.cpu!=c.cpu) q=false;} if(!found) q=false; }
      stable = q? stable+1 : 0; prev=cur;
      if(i%10==0||stable==15){ double el=std::chrono::duration<double>(std::chrono::steady_clock::now()-t0).count(); std::string s; int nR=0; unsigned long maxcpu=0; for(auto&c:cur){ s+=c.st; if(c.st=='R')nR++; if(c.cpu>maxcpu)maxcpu=c.cpu;} printf("t=%.1f threads=%zu states=%s stable=%d maxcpu_ticks=%lu\n",el,cur.size(),s.c_str(),stable,maxcpu); fflush(stdout);} 
      if(stable>=15){ printf("QUIESCENT after %.1fs\n",std::chrono::duration<double>(std::chrono::steady_clock::now()-t0).count()); fflush(stdout); _Exit(0);} }
    printf("NOT QUIESCENT in 40s\n"); fflush(stdout); _Exit(1); });
  if(mode==0){ // healthy: parallel work then main blocks forever outside TBB
    std::atomic<long> c{0}; tbb::parallel_for(0,1000000,[&](int){c++;}); tbb::task_arena a(4); a.enqueue([&]{c++;});
    std::unique_lock<std::mutex> l(m); cv.wait(l,[&]{return go.load();});
  } else if(mode==1){ // simulated lost task: wait on a group whose ref is never released => waiter must end asleep
    tbb::task_group g; std::atomic<long> c{0}; tbb::parallel_for(0,100000,[&](int){c++;});
    tbb::task_handle h=g.defer([&]{c++;}); // never run: group has outstanding ref
    g.wait();
  } else { // spinning hang: concurrent_vector defect
    tbb::concurrent_vector<char> v; v.grow_to_at_least(size_t(1)<<31);
  }
  wd.join();
}
