#include <oneapi/tbb.h>
#include <atomic>
#include <cstdio>
#include <cstdlib>
#include <thread>
#include <vector>
#include <chrono>
#include <algorithm>
static thread_local unsigned rs=1; static unsigned rnd(){ rs=rs*1664525u+1013904223u; return rs>>8; }
static std::atomic<int> armed{-1}; struct Boom{}; static void maybe_throw(){ int a=armed.load(); if(a>=0 && armed.fetch_sub(1)==0) throw Boom(); }
static std::atomic<long> progress{0}; static const char* what=""; static std::atomic<int> live{0};
struct G{ G(){live++;} ~G(){live--;} };
struct TR{ int b,e; TR(int b,int e):b(b),e(e){} TR(const TR&o):b(o.b),e(o.e){ maybe_throw(); } TR(TR&r,tbb::split):b((r.b+r.e)/2),e(r.e){ maybe_throw(); r.e=b; } bool empty()const{return b>=e;} bool is_divisible()const{return e-b>4;} };
int main(int argc,char**argv){ int secs=atoi(argv[1]); rs=atoi(argv[2]); std::atomic<bool> stop{false}; std::thread wd([&]{ long last=-1; int same=0; while(!stop){ std::this_thread::sleep_for(std::chrono::milliseconds(500)); long p=progress; if(p==last){ if(++same>=12){ printf("HANG in %s at round %ld (throw fired: %s)\n",what,p,armed.load()<0?"yes":"no"); fflush(stdout); _Exit(3);} } else {same=0;last=p;} } });
  auto t0=std::chrono::steady_clock::now(); long rounds=0,bad=0,thrown=0; static tbb::affinity_partitioner ap;
  while(std::chrono::duration<double>(std::chrono::steady_clock::now()-t0).count()<secs && !bad){ rounds++; int kind=rnd()%8; int n=100+rnd()%3000; armed=rnd()%(kind==0? 20000: 300); bool threw=false;
    try{ switch(kind){
      case 0: { what="parallel_sort comparator throws"; std::vector<int> v(n); for(auto&x:v)x=rnd()%1000; tbb::parallel_sort(v.begin(),v.end(),[](int a,int b){ maybe_throw(); return a<b; }); break; }
      case 1: { what="parallel_scan body throws"; std::vector<long> out(n); tbb::parallel_scan(tbb::blocked_range<int>(0,n,8),0L,[&](const tbb::blocked_range<int>&r,long s,bool f){ G g; maybe_throw(); for(int i=r.begin();i<r.end();++i){ s+=i; if(f) out[i]=s; } return s; },[](long a,long b){return a+b;}); break; }
      case 2: { what="parallel_for Range ctor/split throws"; tbb::parallel_for(TR(0,n),[&](const TR&r){ G g; for(volatile int i=r.b;i<r.e;i++); }); break; }
      case 3: { what="parallel_for Range throws (affinity)"; tbb::parallel_for(TR(0,n),[&](const TR&r){ G g; for(volatile int i=r.b;i<r.e;i++); },ap); break; }
      case 4: { what="pipeline first/any filter throws"; int src=0; auto m=[&](int k){ return k%3==0? tbb::filter_mode::parallel: k%3==1? tbb::filter_mode::serial_in_order: tbb::filter_mode::serial_out_of_order; }; int k0=rnd(); tbb::parallel_pipeline(1+rnd()%5, tbb::make_filter<void,int>(m(k0),[&](tbb::flow_control&fc)->int{ G g; static std::atomic<int> s; int it= (m(k0)==tbb::filter_mode::parallel)? s++ : src++; maybe_throw(); if(it>=n/4 || src>n/4){ fc.stop(); return 0;} return it; }) & tbb::make_filter<int,int>(m(k0/3),[&](int x){ G g; maybe_throw(); return x;}) & tbb::make_filter<int,void>(m(k0/9),[&](int){ G g; maybe_throw(); })); break; }
      case 5: { what="parallel_invoke functor throws"; tbb::parallel_invoke([&]{ G g; maybe_throw(); },[&]{ G g; maybe_throw(); },[&]{ G g; maybe_throw(); tbb::parallel_for(0,50,[&](int){ G g2; maybe_throw(); }); },[&]{ G g; maybe_throw(); }); armed=-1; break; }
      case 6: { what="arena.execute (delegated) throws"; tbb::task_arena a(1,1); std::atomic<int> in{0}; std::thread other([&]{ try{ a.execute([&]{ G g; in=1; for(volatile int i=0;i<200000;i++); }); }catch(...){} }); while(!in) std::this_thread::yield(); armed=0; struct J{ std::thread&t; ~J(){ t.join(); } } j{other}; a.execute([&]{ G g; maybe_throw(); }); break; }
      case 7: { what="nested task_group throws"; tbb::task_group g; for(int i=0;i<20;i++) g.run([&]{ G gg; tbb::task_group inner; for(int j=0;j<5;j++) inner.run([&]{ G g3; maybe_throw(); }); inner.wait(); }); g.wait(); break; }
    } }catch(Boom&){ threw=true; thrown++; }catch(...){ printf("%s: foreign exception\n",what); bad++; }
    if(kind==6){ /* other thread may still be inside until joined: joined above only on non-throw path */ }
    int l=live.load(); if(l!=0 && kind!=6){ printf("%s: call %s with %d bodies live\n",what,threw?"threw":"returned",l); bad++; } if(armed.load()<0 && armed.load()!=-1 && !threw && kind!=5){ /* fired but not delivered */ printf("%s: round %ld an exception was thrown inside but the call returned normally\n",what,rounds); bad++; } armed=-1; progress++; }
  stop=true; wd.join(); printf("rounds=%ld thrown=%ld bad=%ld\n",rounds,thrown,bad); return bad?1:0; }
