// known_findings cv.alloc-failure-leaves-raw-slots-in-size: after a segment allocation failure in grow_by the slots of the failed
// range that lie in allocated segments are neither constructed nor zero-filled, yet size() covers them and ~concurrent_vector destroys them.
#include <oneapi/tbb/concurrent_vector.h>
#include <cstdio>
#include <cstring>
#include <new>
#include <string>
static int armed=-1;
template<class T> struct FA{ using value_type=T; FA()=default; template<class U> FA(const FA<U>&){} T* allocate(size_t n){ if(armed>=0 && armed--==0) throw std::bad_alloc(); void* p=::operator new(n*sizeof(T)); memset(p,0xA5,n*sizeof(T)); return (T*)p; } void deallocate(T*p,size_t){ ::operator delete(p);} template<class U> bool operator==(const FA<U>&)const{return true;} template<class U> bool operator!=(const FA<U>&)const{return false;} };
static long garbage_dtors=0, zero_dtors=0, good_dtors=0;
struct E { unsigned long magic; E():magic(0x600D){} E(const E&):magic(0x600D){} ~E(){ if(magic==0x600D) good_dtors++; else if(magic==0) zero_dtors++; else garbage_dtors++; } };
int main(){ { tbb::concurrent_vector<E,FA<E>> v; E e; v.grow_by(10,e); armed=0; try{ v.grow_by(5000,e);}catch(std::bad_alloc&){ printf("bad_alloc; size()=%zu capacity()=%zu; at(12).magic=%lx\n",v.size(),v.capacity(),v.at(12).magic);} armed=-1; }
  printf("destructors: good=%ld zero=%ld garbage=%ld\n",good_dtors,zero_dtors,garbage_dtors);
  // the same with std::string
  { tbb::concurrent_vector<std::string,FA<std::string>> v; v.grow_by(10,std::string(100,'x')); armed=0; try{ v.grow_by(5000,std::string("y")); }catch(std::bad_alloc&){ puts("string: bad_alloc"); } armed=-1; fflush(stdout);} puts("string vector destroyed"); }
