#include <oneapi/tbb.h>
#include <atomic>
#include <cstdio>
#include <cstdlib>
#include <chrono>
#include <thread>
#include <vector>
#include <memory>
using clk=std::chrono::steady_clock;
int main(int argc,char**argv){
  int cfg=atoi(argv[1]); int iters=atoi(argv[2]); unsigned seed=argc>3?atoi(argv[3]):1;
  std::unique_ptr<tbb::global_control> gc;
  if(cfg&1) gc.reset(new tbb::global_control(tbb::global_control::max_allowed_parallelism,1));
  double maxlat=0; long hangs=0;
  auto rnd=[&]{ seed=seed*1664525u+1013904223u; return seed>>8; };
  std::vector<std::unique_ptr<tbb::task_arena>> arenas;
  int na = (cfg&2)?4:1;
  for(int i=0;i<na;i++){ int mc = (cfg&4)? 1 : 1+rnd()%3; int res = (cfg&8)? 0 : (mc>1? rnd()%2:1); if(res>mc)res=mc; arenas.emplace_back(new tbb::task_arena(mc,res)); }
  for(int it=0;it<iters;it++){
    int k=1+rnd()%3; std::atomic<int> done{0};
    for(int j=0;j<k;j++){ auto& a=*arenas[rnd()%na]; a.enqueue([&]{ done++; }); }
    auto t0=clk::now();
    while(done.load()<k){ double el=std::chrono::duration<double>(clk::now()-t0).count(); if(el>10){ hangs++; printf("cfg=%d it=%d HANG done=%d/%d\n",cfg,it,done.load(),k); fflush(stdout); _Exit(3);} if(el>0.001) std::this_thread::sleep_for(std::chrono::microseconds(50)); }
    double el=std::chrono::duration<double>(clk::now()-t0).count(); if(el>maxlat)maxlat=el;
    if(rnd()%4==0) std::this_thread::sleep_for(std::chrono::microseconds(rnd()%3000)); // let workers go to sleep
  }
  printf("cfg=%d ok iters=%d maxlat=%.4fs\n",cfg,iters,maxlat);
}
