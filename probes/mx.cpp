#include <oneapi/tbb.h>
#include <atomic>
#include <cstdio>
#include <cstdlib>
#include <thread>
#include <vector>
#include <chrono>
static thread_local unsigned rs=1; static unsigned rnd(){ rs=rs*1664525u+1013904223u; return rs>>8; }
static std::atomic<long> progress{0}; static const char* cur="";
template<class M,bool RW> long run(const char* name,int nt,double secs){ cur=name; M m; std::atomic<int> w{0},r{0}; long plain=0; long version=0; std::atomic<long> bad{0}; std::atomic<bool> done{false}; std::atomic<long> ops{0},ups_true{0},ups_false{0},tries_ok{0},tries_fail{0};
  std::vector<std::thread> th; for(int t=0;t<nt;t++) th.emplace_back([&,t]{ rs=t*7919+13; while(!done){ unsigned op=rnd()%100; bool hold = rnd()%16==0; auto crit_w=[&]{ if(w.fetch_add(1)!=0||r.load()!=0){ printf("%s: writer not exclusive\n",name); bad++; } plain++; version++; if(hold) std::this_thread::sleep_for(std::chrono::microseconds(rnd()%400)); w--; }; auto crit_r=[&]{ r++; if(w.load()!=0){ printf("%s: reader with writer\n",name); bad++; } volatile long x=plain; (void)x; if(hold) std::this_thread::sleep_for(std::chrono::microseconds(rnd()%400)); r--; };
        if(!RW || op<30){ typename M::scoped_lock l; if(op%5==0){ if(l.try_acquire(m)){ tries_ok++; crit_w(); l.release(); } else tries_fail++; } else { l.acquire(m); crit_w(); l.release(); } }
        else if constexpr (RW){ typename M::scoped_lock l; if(op%7==0){ if(!l.try_acquire(m,false)){ tries_fail++; ops++; progress++; continue;} tries_ok++; } else l.acquire(m,false); crit_r(); if(op<60){ long v0=version; bool ok=l.upgrade_to_writer(); if(ok){ ups_true++; if(version!=v0){ printf("%s: upgrade_to_writer returned true but a writer intervened\n",name); bad++; } } else ups_false++; crit_w(); if(op<45){ long v1=version; l.downgrade_to_reader(); crit_r(); if(version!=v1){ printf("%s: writer got in across downgrade\n",name); bad++; } } } l.release(); }
        ops++; progress++; } });
  std::this_thread::sleep_for(std::chrono::milliseconds((int)(secs*1000))); done=true; for(auto&x:th)x.join(); printf("%-28s ops=%ld try ok/fail=%ld/%ld upgrade true/false=%ld/%ld bad=%ld\n",name,ops.load(),tries_ok.load(),tries_fail.load(),ups_true.load(),ups_false.load(),bad.load()); return bad; }
int main(int argc,char**argv){ double secs=atof(argv[1]); int nt=atoi(argv[2]); std::atomic<bool> stop{false}; std::thread wd([&]{ long last=-1; int same=0; while(!stop){ std::this_thread::sleep_for(std::chrono::milliseconds(500)); long p=progress; if(p==last){ if(++same>=20){ printf("STUCK in %s progress=%ld\n",cur,p); fflush(stdout); _Exit(3);} } else {same=0;last=p;} } }); long bad=0;
  bad+=run<tbb::spin_mutex,false>("spin_mutex",nt,secs); bad+=run<tbb::queuing_mutex,false>("queuing_mutex",nt,secs); bad+=run<tbb::mutex,false>("mutex",nt,secs); bad+=run<tbb::speculative_spin_mutex,false>("speculative_spin_mutex",nt,secs);
  bad+=run<tbb::spin_rw_mutex,true>("spin_rw_mutex",nt,secs); bad+=run<tbb::queuing_rw_mutex,true>("queuing_rw_mutex",nt,secs); bad+=run<tbb::rw_mutex,true>("rw_mutex",nt,secs); bad+=run<tbb::speculative_spin_rw_mutex,true>("speculative_spin_rw_mutex",nt,secs);
  stop=true; wd.join(); return bad?1:0; }
