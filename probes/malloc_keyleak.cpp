// C18 defect (repaired by 252356a): every scalable_malloc whose library initialisation failed (first mapping refused) leaked one pthread key;
// after 1024 such calls the allocator never initialised again. Build: g++ -std=c++17 -I/repo/include malloc_keyleak.cpp -rdynamic -L<dir of libtbbmalloc> -Wl,-rpath,<dir> -ltbbmalloc -lpthread
#include <oneapi/tbb/scalable_allocator.h>
#include <sys/mman.h>
#include <sys/syscall.h>
#include <unistd.h>
#include <pthread.h>
#include <cstdio>
#include <cerrno>
static int refuse = 1; static long maps = 0, refused = 0;
extern "C" void* mmap(void* a, size_t l, int p, int f, int fd, off_t o) { maps++; if (refuse) { refused++; errno = ENOMEM; return MAP_FAILED; } return (void*)syscall(SYS_mmap, a, l, p, f, fd, o); }
int main() {
    int first_without_attempt = -1;
    for (int i = 1; i <= 1100; i++) { long m0 = maps; void* p = scalable_malloc(100); if (p) { printf("unexpected success\n"); return 1; } if (maps == m0 && first_without_attempt < 0) first_without_attempt = i; }
    printf("1100 failing calls; first call that did not even ask the OS: #%d (mmap calls %ld)\n", first_without_attempt, maps);
    pthread_key_t k; int rc = pthread_key_create(&k, nullptr); printf("pthread_key_create in the application now returns %d (EAGAIN=%d)\n", rc, EAGAIN);
    refuse = 0; errno = 0; long m0 = maps; void* p = scalable_malloc(100);
    printf("memory available again: scalable_malloc(100) = %p errno=%d, mmap attempts during the call: %ld\n", p, errno, maps - m0);
    return p ? 0 : 2;
}
