#include <oneapi/tbb/flow_graph.h>
#include <atomic>
#include <cstdio>
#include <cstdlib>
#include <thread>
#include <vector>
#include <set>
#include <mutex>
#include <chrono>
using namespace tbb::flow;
static thread_local unsigned rs=1; static unsigned rnd(){ rs=rs*1664525u+1013904223u; return rs>>8; }
static std::atomic<long> progress{0}; static std::atomic<int> phase{0};
int main(int argc,char**argv){ int secs=atoi(argv[1]); rs=atoi(argv[2]); std::atomic<bool> stop{false}; std::thread wd([&]{ long last=-1; int same=0; while(!stop){ std::this_thread::sleep_for(std::chrono::milliseconds(500)); long p=progress; if(p==last){ if(++same>=16){ printf("STUCK phase=%d progress=%ld\n",phase.load(),p); fflush(stdout); _Exit(3);} } else {same=0;last=p;} } });
  auto t0=std::chrono::steady_clock::now(); long rounds=0,bad=0;
  while(std::chrono::duration<double>(std::chrono::steady_clock::now()-t0).count()<secs && !bad){ rounds++; int N=30+rnd()%200; int np=1+rnd()%3;
    { phase=1; // single-receiver nodes with two competing rejecting successors
      for(int kind=0;kind<3 && !bad;kind++){ graph g; std::vector<std::atomic<int>> cnt(N*np); for(auto&c:cnt)c=0; std::atomic<int> live1{0},live2{0}; auto mk=[&](std::atomic<int>&live){ return [&](int x){ if(++live>1) printf("serial violated\n"); cnt[x]++; if(rnd()%4==0) for(volatile int k=0;k<(int)(rnd()%2000);k++); --live; return continue_msg(); }; };
        function_node<int,continue_msg,rejecting> a(g,serial,mk(live1)), b(g,serial,mk(live2)); buffer_node<int> bn(g); queue_node<int> qn(g); priority_queue_node<int> pn(g); sender<int>* s= kind==0? (sender<int>*)&bn : kind==1? (sender<int>*)&qn : (sender<int>*)&pn; receiver<int>* r= kind==0? (receiver<int>*)&bn : kind==1? (receiver<int>*)&qn : (receiver<int>*)&pn; make_edge(*s,a); make_edge(*s,b);
        std::vector<std::thread> ps; for(int p=0;p<np;p++) ps.emplace_back([&,p]{ for(int i=0;i<N;i++) r->try_put(p*N+i); }); for(auto&t:ps)t.join(); g.wait_for_all(); for(int i=0;i<N*np;i++) if(cnt[i]!=1){ printf("round %ld: %s with two rejecting successors: item %d consumed %d times\n",rounds,kind==0?"buffer_node":kind==1?"queue_node":"priority_queue_node",i,cnt[i].load()); bad++; break; } } progress++; }
    { phase=2; // overwrite / write_once under concurrent puts
      graph g; overwrite_node<int> ow(g); write_once_node<int> wo(g); std::mutex m; std::vector<int> seen_wo; function_node<int,continue_msg> s1(g,serial,[&](int x){ std::lock_guard<std::mutex> l(m); seen_wo.push_back(x); return continue_msg();}); make_edge(wo,s1); std::set<int> lasts,firsts; std::vector<std::thread> ps; for(int p=0;p<np;p++){ firsts.insert(p*1000); lasts.insert(p*1000+N-1); ps.emplace_back([&,p]{ for(int i=0;i<N;i++){ ow.try_put(p*1000+i); wo.try_put(p*1000+i); } }); } for(auto&t:ps)t.join(); g.wait_for_all(); int v=-1; if(!ow.try_get(v)||!lasts.count(v)){ printf("round %ld: overwrite_node ends with %d, not the last put of any producer\n",rounds,v); bad++; } int w=-1; if(!wo.try_get(w)||!firsts.count(w)){ printf("round %ld: write_once_node holds %d, not the first put of any producer\n",rounds,w); bad++; } if(seen_wo.size()!=1||seen_wo[0]!=w){ printf("round %ld: write_once successor saw %zu values\n",rounds,seen_wo.size()); bad++; } std::atomic<int> late{-1}; function_node<int,continue_msg> s2(g,serial,[&](int x){ late=x; return continue_msg();}); make_edge(ow,s2); g.wait_for_all(); if(late!=v){ printf("late successor got %d not %d\n",late.load(),v); bad++; } progress++; }
    { phase=3; // sequencer duplicates and gaps
      graph g; std::vector<int> out; sequencer_node<int> sq(g,[](const int&x){return (size_t)(x%100000);}); function_node<int,continue_msg> sink(g,serial,[&](int x){ out.push_back(x); return continue_msg();}); make_edge(sq,sink); std::atomic<int> accepted{0}; std::vector<std::thread> ps; for(int p=0;p<np+1;p++) ps.emplace_back([&,p]{ rs=rounds*5+p; for(int i=0;i<N;i++){ int seq=(int)(rnd()%N); if(sq.try_put(p*100000+seq)) accepted++; } }); for(auto&t:ps)t.join(); for(int i=0;i<N;i++) sq.try_put(900000+i); g.wait_for_all(); if((int)out.size()!=N){ printf("round %ld: sequencer emitted %zu of %d\n",rounds,out.size(),N); bad++; } for(size_t i=0;i<out.size();i++) if(out[i]%100000!=(int)i){ printf("round %ld: sequencer position %zu has seq %d\n",rounds,i,out[i]%100000); bad++; break; } progress++; }
  }
  stop=true; wd.join(); printf("rounds=%ld bad=%ld\n",rounds,bad); return bad?1:0; }
