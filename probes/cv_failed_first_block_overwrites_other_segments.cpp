// Observation (outside the letter of C11): on the unmodified tree a failed first-block allocation also tags the embedded table entries 1 and 2,
// although with first_block == 1 they are ordinary segments that another thread may already have allocated and filled.
#include <oneapi/tbb/concurrent_vector.h>
#include <thread>
#include <atomic>
#include <cstdio>
#include <chrono>
static std::atomic<int> fail_next{0}; static std::atomic<bool> failing{false}, go_on{false};
template <class T> struct A {
    using value_type = T; A() = default; template <class U> A(const A<U>&) {}
    T* allocate(size_t n) {
        if (sizeof(T) == sizeof(int) && fail_next.exchange(0)) { failing = true; while (!go_on) std::this_thread::yield(); throw std::bad_alloc(); }
        return static_cast<T*>(::operator new(n * sizeof(T)));
    }
    void deallocate(T* p, size_t) { ::operator delete(p); }
    template <class U> bool operator==(const A<U>&) const { return true; } template <class U> bool operator!=(const A<U>&) const { return false; }
};
int main() {
    int lost = 0;
    for (int round = 0; round < 200; ++round) {
        tbb::concurrent_vector<int, A<int>> v; fail_next = 1; failing = false; go_on = false;
        std::thread a([&] { try { v.grow_by(2, 7); } catch (std::bad_alloc&) {} });       // claims [0,2): first block, its allocation fails (slowly)
        while (!failing) std::this_thread::yield();
        bool ok = false; size_t idx = 0;
        try { auto it = v.push_back(42); idx = it - v.begin(); ok = true; } catch (std::bad_alloc&) {}      // index 2: segment 1, an ordinary segment
        go_on = true; a.join();
        if (ok) { try { if (v.at(idx) != 42) ++lost; } catch (std::exception&) { ++lost; } }
    }
    printf("%d of 200 rounds: push_back returned normally and its element is no longer reachable through at()\n", lost);
    return lost ? 1 : 0;
}
