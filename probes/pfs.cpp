#include <oneapi/tbb.h>
#include <atomic>
#include <cstdio>
#include <cstdlib>
#include <cstdint>
#include <vector>
#include <mutex>
#include <algorithm>
#include <limits>
static thread_local unsigned rs=1; static unsigned rnd(){ rs=rs*1664525u+1013904223u; return rs>>8; }
static long bad=0,cases=0;
template<class I> void one(I first,I last,I step,const char* tn,int part){ cases++; std::mutex m; std::vector<I> seen; auto body=[&](I i){ std::lock_guard<std::mutex> l(m); seen.push_back(i); };
  switch(part){ case 0: tbb::parallel_for(first,last,step,body); break; case 1: tbb::parallel_for(first,last,step,body,tbb::simple_partitioner()); break; case 2: tbb::parallel_for(first,last,step,body,tbb::static_partitioner()); break; default: { static tbb::affinity_partitioner ap; tbb::parallel_for(first,last,step,body,ap);} }
  std::vector<I> exp; if(first<last){ I i=first; for(;;){ exp.push_back(i); if(last-i<=step) break; i=(I)(i+step); } } std::sort(seen.begin(),seen.end()); if(seen!=exp){ printf("parallel_for<%s>(%lld,%lld,%lld) part=%d: visited %zu indices, expected %zu",tn,(long long)first,(long long)last,(long long)step,part,seen.size(),exp.size()); if(!seen.empty()) printf(" (first seen %lld last seen %lld)",(long long)seen.front(),(long long)seen.back()); printf("\n"); bad++; } }
template<class I> void sweep(const char*tn){ I mx=std::numeric_limits<I>::max(), mn=std::numeric_limits<I>::min(); for(int rep=0;rep<300 && bad<5;rep++){ int part=rnd()%4; I n=(I)(rnd()%2000); I step=(I)(1+rnd()%50); I first= rnd()%3==0? (I)(mx-n) : rnd()%2? (I)(rnd()%100) : (std::numeric_limits<I>::is_signed? (I)(mn+ (I)(rnd()%100)) : (I)0); I last= (first> (I)(mx-n))? mx : (I)(first+n); one<I>(first,last,step,tn,part); if(rnd()%5==0) one<I>(first,last,(I)(mx/2+1),tn,part); if(rnd()%7==0) one<I>(first,first,step,tn,part); } }
int main(int argc,char**argv){ rs=atoi(argv[1]); sweep<int>("int"); sweep<unsigned>("unsigned"); sweep<long>("long"); sweep<size_t>("size_t"); sweep<short>("short"); sweep<unsigned short>("ushort"); sweep<long long>("long long");
  // whole-type spans with a huge step
  one<int>(std::numeric_limits<int>::min(),std::numeric_limits<int>::max(),1<<28,"int/full",0); one<unsigned>(0u,~0u,1u<<28,"unsigned/full",1); one<size_t>(0,~(size_t)0,(size_t)1<<60,"size_t/full",2); one<long>(std::numeric_limits<long>::min(),std::numeric_limits<long>::max(),1L<<60,"long/full",0);
  printf("cases=%ld bad=%ld\n",cases,bad); return bad?1:0; }
