#include <oneapi/tbb/concurrent_priority_queue.h>
#include <atomic>
#include <cstdio>
#include <thread>
#include <vector>
#include <chrono>
static std::atomic<int> throw_assign{0}, throw_copy{0};
struct T { int p; T(int x=0):p(x){} T(const T&o):p(o.p){ if(throw_copy.load()>0 && throw_copy.fetch_sub(1)==1) throw 42; } T(T&&o) noexcept :p(o.p){}
  T& operator=(const T&o){ p=o.p; return *this;} T& operator=(T&&o){ if(throw_assign.load()>0 && throw_assign.fetch_sub(1)==1) throw 43; p=o.p; return *this;} bool operator<(const T&o)const{return p<o.p;} };
int main(int argc,char**argv){ int mode=atoi(argv[1]);
  tbb::concurrent_priority_queue<T> q; for(int i=0;i<100;i++) q.push(T(i));
  if(mode==1) throw_copy=5000; if(mode==2) throw_assign=5000; std::atomic<long> ok{0}, exc{0}; std::atomic<bool> stop{false}; std::atomic<long> progress{0};
  std::vector<std::thread> th; for(int k=0;k<4;k++) th.emplace_back([&,k]{ for(int i=0;i<20000 && !stop;i++){ try{ T v(i); if(i%2) q.push(v); else { T o; q.try_pop(o);} ok++; }catch(...){ exc++; } progress++; } });
  
  long last=-1; int same=0; for(;;){ std::this_thread::sleep_for(std::chrono::milliseconds(200)); long p=progress; if(p>=80000) break; if(p==last){ if(++same>25){ printf("mode %d: HANG progress=%ld ok=%ld exc=%ld\n",mode,p,ok.load(),exc.load()); fflush(stdout); _Exit(3);} } else {same=0;last=p;} }
  for(auto&t:th)t.join(); printf("mode %d: done ok=%ld exc=%ld size=%zu\n",mode,ok.load(),exc.load(),q.size()); }
