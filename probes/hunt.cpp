#include <oneapi/tbb.h>
#include <oneapi/tbb/collaborative_call_once.h>
#include <atomic>
#include <cstdio>
#include <cstdlib>
#include <chrono>
#include <thread>
#include <vector>
#include <memory>
#include <stdexcept>
using clk=std::chrono::steady_clock;
static std::atomic<long> progress{0}; static const char* phase="";
static unsigned rs=1; 
struct Rnd{ unsigned s; unsigned operator()(){ s=s*1664525u+1013904223u; return s>>8; } };
static void watchdog(std::atomic<bool>& stop){ long last=-1; int same=0; while(!stop){ std::this_thread::sleep_for(std::chrono::milliseconds(500)); long p=progress.load(); if(p==last){ if(++same>=40){ printf("HANG in phase %s progress=%ld\n",phase,p); fflush(stdout); _Exit(3);} } else {same=0; last=p;} } }
int main(int argc,char**argv){
  int which=atoi(argv[1]); int secs=atoi(argv[2]); unsigned seed=atoi(argv[3]);
  std::atomic<bool> stop{false}; std::thread wd(watchdog,std::ref(stop)); auto t0=clk::now(); auto timeup=[&]{ return std::chrono::duration<double>(clk::now()-t0).count()>secs; };
  long iters=0;
  if(which==0){ phase="enqueue+gc toggling";
    std::atomic<bool> done{false};
    std::thread tog([&]{ Rnd r{seed*7+1}; while(!done){ { tbb::global_control gc(tbb::global_control::max_allowed_parallelism, 1+r()%3); std::this_thread::sleep_for(std::chrono::microseconds(r()%2000)); } std::this_thread::sleep_for(std::chrono::microseconds(r()%2000)); } });
    std::vector<std::thread> th; for(int k=0;k<3;k++) th.emplace_back([&,k]{ Rnd r{seed*13+k}; std::vector<std::unique_ptr<tbb::task_arena>> as; for(int i=0;i<3;i++){ int mc=1+r()%3; as.emplace_back(new tbb::task_arena(mc, r()%2? 0: 1>mc?mc:1)); }
      while(!done){ int n=1+r()%3; std::atomic<int> c{0}; for(int j=0;j<n;j++) as[r()%3]->enqueue([&]{c++;}); while(c.load()<n){ std::this_thread::sleep_for(std::chrono::microseconds(20)); } progress++; if(r()%8==0) std::this_thread::sleep_for(std::chrono::microseconds(r()%4000)); } });
    while(!timeup()) std::this_thread::sleep_for(std::chrono::milliseconds(100)); done=true; for(auto&t:th)t.join(); tog.join(); iters=progress; }
  if(which==1){ phase="rw_mutex/mutex sleeps"; tbb::rw_mutex rw; tbb::mutex mx; long shared=0; std::atomic<bool> done{false};
    std::vector<std::thread> th; for(int k=0;k<6;k++) th.emplace_back([&,k]{ Rnd r{seed*17+k}; while(!done){ unsigned op=r()%10; if(op<3){ tbb::rw_mutex::scoped_lock l(rw,true); shared++; if(r()%4==0) std::this_thread::sleep_for(std::chrono::microseconds(r()%300)); } else if(op<8){ tbb::rw_mutex::scoped_lock l(rw,false); volatile long x=shared;(void)x; if(r()%4==0) std::this_thread::sleep_for(std::chrono::microseconds(r()%300)); if(r()%5==0){ l.upgrade_to_writer(); shared++; if(r()%2) l.downgrade_to_reader(); } } else { tbb::mutex::scoped_lock l(mx); if(r()%2) std::this_thread::sleep_for(std::chrono::microseconds(r()%200)); } progress++; } });
    while(!timeup()) std::this_thread::sleep_for(std::chrono::milliseconds(100)); done=true; for(auto&t:th)t.join(); iters=progress; }
  if(which==2){ phase="bounded queue cap1 + abort"; 
    Rnd r{seed}; while(!timeup()){ tbb::concurrent_bounded_queue<long> q; q.set_capacity(1+r()%2); int np=1+r()%3,nc=1+r()%3; int per=50; std::atomic<long> pushed{0},popped{0},aborted{0}; std::atomic<bool> fin{false};
      std::vector<std::thread> th; for(int p=0;p<np;p++) th.emplace_back([&,p]{ for(int i=0;i<per;i++){ try{ q.push(p*1000+i); pushed++; }catch(tbb::user_abort&){ aborted++; } } });
      for(int c=0;c<nc;c++) th.emplace_back([&]{ long v; while(!fin){ try{ q.pop(v); popped++; }catch(tbb::user_abort&){ aborted++; } } });
      bool do_abort=r()%3==0; if(do_abort){ std::this_thread::sleep_for(std::chrono::microseconds(r()%300)); q.abort(); }
      for(int p=0;p<np;p++) th[p].join();
      // drain: wait until popped == pushed, then stop consumers via abort loop
      while(popped.load()+ (long)q.size() < pushed.load() && popped.load()<pushed.load()) std::this_thread::yield();
      while(popped.load()<pushed.load()) std::this_thread::yield();
      fin=true; for(int c=0;c<nc;c++){ while(true){ q.abort(); std::this_thread::sleep_for(std::chrono::microseconds(50)); bool all=true; (void)all; break; } }
      // keep aborting until consumers exit
      std::atomic<bool> joined{false}; std::thread ab([&]{ while(!joined){ q.abort(); std::this_thread::sleep_for(std::chrono::microseconds(100)); } }); for(int c=0;c<nc;c++) th[np+c].join(); joined=true; ab.join();
      if(popped!=pushed){ printf("MISMATCH pushed=%ld popped=%ld\n",pushed.load(),popped.load()); fflush(stdout);} progress++; iters++; } }
  if(which==3){ phase="arena execute saturation"; tbb::task_arena a(2,1); std::atomic<bool> done{false}; std::vector<std::thread> th; for(int k=0;k<6;k++) th.emplace_back([&,k]{ Rnd r{seed*19+k}; while(!done){ int x=0; a.execute([&]{ x=1; if(r()%4==0) tbb::parallel_for(0,10,[&](int){}); if(r()%8==0) std::this_thread::sleep_for(std::chrono::microseconds(r()%200)); }); if(x!=1){printf("execute did not run\n");} progress++; } });
    while(!timeup()) std::this_thread::sleep_for(std::chrono::milliseconds(100)); done=true; for(auto&t:th)t.join(); iters=progress; }
  if(which==4){ phase="queuing_rw upgrade storms"; tbb::queuing_rw_mutex m; long ver=0; std::atomic<int> writers{0},readers{0}; std::atomic<bool> done{false}; std::atomic<long> bad{0};
    std::vector<std::thread> th; for(int k=0;k<6;k++) th.emplace_back([&,k]{ Rnd r{seed*23+k}; while(!done){ bool w=r()%4==0; tbb::queuing_rw_mutex::scoped_lock l; if(r()%5==0){ if(!l.try_acquire(m,w)) { progress++; continue; } } else l.acquire(m,w);
        if(w){ if(writers.fetch_add(1)!=0||readers.load()!=0) bad++; ver++; if(r()%3==0){ writers--; l.downgrade_to_reader(); readers++; if(writers.load()!=0) bad++; readers--; } else writers--; }
        else { readers++; if(writers.load()!=0) bad++; long v0=ver; if(r()%3==0){ readers--; bool ok=l.upgrade_to_writer(); if(writers.fetch_add(1)!=0||readers.load()!=0) bad++; if(ok && ver!=v0) bad++; ver++; writers--; } else readers--; }
        l.release(); progress++; } });
    while(!timeup()) std::this_thread::sleep_for(std::chrono::milliseconds(100)); done=true; for(auto&t:th)t.join(); iters=progress; if(bad) printf("BAD=%ld\n",bad.load()); }
  if(which==5){ phase="call_once with throws"; Rnd r{seed}; while(!timeup()){ auto fl=std::make_unique<tbb::collaborative_once_flag>(); std::atomic<int> attempts{0},succ{0},caught{0}; int throws=r()%3; int nt=2+r()%6; std::vector<std::thread> th; std::atomic<int> ready{0};
      for(int k=0;k<nt;k++) th.emplace_back([&]{ ready++; while(ready.load()<nt); try{ tbb::collaborative_call_once(*fl,[&]{ int a=attempts++; tbb::parallel_for(0,50,[&](int){}); if(a<throws) throw std::runtime_error("x"); succ++; }); if(succ.load()!=1) printf("returned before success\n"); }catch(std::runtime_error&){ caught++; } });
      for(auto&t:th)t.join(); int exp_throw = throws<nt? throws: nt; if(succ!=(throws<nt?1:0) || caught!=exp_throw || attempts!=exp_throw+succ) { printf("ONCE mismatch nt=%d throws=%d attempts=%d succ=%d caught=%d\n",nt,throws,attempts.load(),succ.load(),caught.load()); fflush(stdout);} progress++; iters++; } }
  stop=true; wd.join(); printf("which=%d ok iters=%ld\n",which,iters);
}
