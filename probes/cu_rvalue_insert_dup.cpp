#include <oneapi/tbb/concurrent_unordered_set.h>
#include <oneapi/tbb/concurrent_set.h>
#include <thread>
#include <vector>
#include <string>
#include <atomic>
#include <cstdio>
template <class S> int run(const char* name) {
    int dup_rounds = 0, multi_true = 0;
    for (int round = 0; round < 3000; round++) {
        S s; std::atomic<int> go{0}, wins{0};
        std::vector<std::thread> th;
        for (int t = 0; t < 4; t++) th.emplace_back([&] {
            std::string k = "a-key-long-enough-to-live-on-the-heap-0123456789";
            while (!go.load()) {}
            auto r = s.insert(std::move(k));
            if (r.second) wins++;
        });
        go = 1; for (auto& t : th) t.join();
        size_t n = 0; for (auto& e : s) { (void)e; n++; }
        if (n != 1 || s.size() != 1) dup_rounds++;
        if (wins.load() != 1) multi_true++;
    }
    printf("%s: rounds with duplicates %d, rounds with !=1 winner %d of 3000\n", name, dup_rounds, multi_true);
    return dup_rounds + multi_true;
}
int main() {
    int bad = run<tbb::concurrent_unordered_set<std::string>>("concurrent_unordered_set<string>::insert(&&)");
    bad += run<tbb::concurrent_set<std::string>>("concurrent_set<string>::insert(&&)");
    return bad ? 1 : 0;
}
