#include <oneapi/tbb.h>
#include <atomic>
#include <cstdio>
#include <cstdlib>
#include <thread>
#include <chrono>
static thread_local unsigned rs=1; static unsigned rnd(){ rs=rs*1664525u+1013904223u; return rs>>8; }
static std::atomic<int> armed{-1}; static std::atomic<long> cur_round{0}; static std::atomic<long> late{0}, live{0}; static std::atomic<bool> in_call{false};
struct Boom{}; static int sites=31; static void maybe_throw(int site){ if(!(sites&site)) return; int a=armed.load(); if(a>=0 && armed.fetch_sub(1)==0) throw Boom(); }
struct Tag{ long born; Tag():born(cur_round.load()){ live++; } Tag(const Tag&):born(cur_round.load()){ live++; } ~Tag(){ live--; if(!in_call.load() || born!=cur_round.load()){ late++; } } };
struct TRange{ int b,e,g; Tag t; TRange(int b,int e,int g):b(b),e(e),g(g){} TRange(const TRange&o):b(o.b),e(o.e),g(o.g){ maybe_throw(1); } TRange(TRange&r,tbb::split):b((r.b+r.e)/2),e(r.e),g(r.g){ maybe_throw(2); r.e=b; } bool empty()const{return b>=e;} bool is_divisible()const{return e-b>g;} };
struct TBody{ long s=0; Tag t; TBody(){} TBody(TBody&,tbb::split){ maybe_throw(4); } void operator()(const TRange&r){ for(int i=r.b;i<r.e;i++) s+=i; maybe_throw(8); for(volatile int k=0;k<(int)(rnd()%500);k++); } void join(TBody&o){ maybe_throw(16); s+=o.s; } };
static std::atomic<long> progress{0};
int main(int argc,char**argv){ int secs=atoi(argv[1]); rs=atoi(argv[2]); int which=argc>3?atoi(argv[3]):-1; if(argc>4) sites=atoi(argv[4]); std::atomic<bool> stop{false}; std::thread wd([&]{ long last=-1; int same=0; while(!stop){ std::this_thread::sleep_for(std::chrono::milliseconds(500)); long p=progress; if(p==last){ if(++same>=16){ printf("STUCK at round %ld (armed=%d live=%ld sites=%d)\n",p,armed.load(),live.load(),sites); fflush(stdout); _Exit(3); } } else {same=0;last=p;} } });
  auto t0=std::chrono::steady_clock::now(); long rounds=0,thrown=0,bad=0;
  while(std::chrono::duration<double>(std::chrono::steady_clock::now()-t0).count()<secs && !bad){ rounds++; cur_round=rounds; int n=50+rnd()%2000; int g=1+rnd()%16; int k=rnd()%400; bool threw=false; { TBody body; TRange r(0,n,g); in_call=true; armed=k; try{ switch(which<0? rnd()%3: which){ case 0: tbb::parallel_reduce(r,body); break; case 1: tbb::parallel_reduce(r,body,tbb::simple_partitioner()); break; default: { static tbb::affinity_partitioner ap; tbb::parallel_reduce(r,body,ap);} } }catch(Boom&){ threw=true; thrown++; } armed=-1; long l=live.load(); if(l!=2){ printf("round %ld: %ld library-created Range/Body copies still alive when the call %s (n=%d g=%d k=%d)\n",rounds,l-2,threw?"threw":"returned",n,g,k); bad++; } } in_call=false; if(late.load()){ printf("round %ld: %ld objects were destroyed after their call had ended\n",rounds,late.load()); bad++; } progress++; }
  stop=true; wd.detach(); printf("rounds=%ld thrown=%ld bad=%ld\n",rounds,thrown,bad); fflush(stdout); _Exit(bad?1:0); }
