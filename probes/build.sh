#!/bin/bash
# usage: build.sh <name> <extra-flags...> ; expects /tmp/vb/mut/<name>/repo prepared
set -e
N=$1; shift; R=/tmp/vb/mut/$N/repo; mkdir -p /tmp/vb/mut/$N/lib; cd /tmp/vb/mut/$N/lib
SRCS=$(sed -n '/add_library(tbb$/,/)/p' $R/src/tbb/CMakeLists.txt | grep -o '[a-z_]*\.cpp')
for f in $SRCS; do echo $f; done | xargs -P16 -I{} g++ -std=c++17 -O2 -g -fPIC "$@" -D__TBB_BUILD -D__TBB_USE_ITT_NOTIFY -I$R/include -I$R/src -mrtm -mwaitpkg -c $R/src/tbb/{} -o {}.o 2>/dev/null
g++ -shared "$@" -o libtbb.so.12 -Wl,-soname,libtbb.so.12 *.o -ldl -lpthread -Wl,--version-script=$R/src/tbb/def/lin64-tbb.def; ln -sf libtbb.so.12 libtbb.so
