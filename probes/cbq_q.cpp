#include <oneapi/tbb/concurrent_queue.h>
#include <atomic>
#include <cstdio>
#include <cstdlib>
#include <chrono>
#include <thread>
#include <vector>
#include <mutex>
using clk=std::chrono::steady_clock;
int main(int argc,char**argv){
  int rounds=atoi(argv[1]); int nc=atoi(argv[2]); long cap=atol(argv[3]);
  for(int rd=0;rd<rounds;rd++){
    tbb::concurrent_bounded_queue<long> q; if(cap>0) q.set_capacity(cap);
    std::atomic<bool> fin{false}; std::atomic<long> popped{0}, aborted{0}; std::mutex m; std::vector<long> got; std::atomic<long> progress{0};
    std::vector<std::thread> cs; for(int c=0;c<nc;c++) cs.emplace_back([&]{ long v; while(!fin){ try{ q.pop(v); { std::lock_guard<std::mutex> l(m); got.push_back(v);} popped++; progress++; }catch(tbb::user_abort&){ long a=++aborted; progress++; long gen=(a+nc-1)/nc; while(!fin && aborted.load()<gen*nc) std::this_thread::yield(); } } });
    // phase 1: consumers block on empty queue; issue a few aborts while they keep retrying
    for(int a=0;a<5;a++){ std::this_thread::sleep_for(std::chrono::milliseconds(3)); q.abort(); while(aborted.load()<(a+1)*nc) std::this_thread::yield(); }
    std::this_thread::sleep_for(std::chrono::milliseconds(2));
    // phase 2: NO more aborts. push N items sequentially from one thread; every item must come out, in order
    const long N=20; std::atomic<bool> pushed_all{false};
    std::thread prod([&]{ for(long i=0;i<N;i++){ q.push(i); progress++; } pushed_all=true; });
    auto t0=clk::now(); bool hang=false;
    while(popped.load()<N){ std::this_thread::sleep_for(std::chrono::milliseconds(1)); if(std::chrono::duration<double>(clk::now()-t0).count()>5){ hang=true; break; } }
    if(hang){ std::lock_guard<std::mutex> l(m); printf("round %d: STUCK popped=%ld/%ld pushed_all=%d size()=%td aborts_seen=%ld got:",rd,popped.load(),N,(int)pushed_all.load(),q.size(),aborted.load()); for(long v:got) printf(" %ld",v); printf("\n"); fflush(stdout); _Exit(3); }
    fin=true; std::atomic<bool> j{false}; std::thread ab([&]{ while(!j){ q.abort(); std::this_thread::sleep_for(std::chrono::microseconds(200)); } }); for(auto&t:cs)t.join(); j=true; ab.join(); prod.join();
    // single producer => values must be popped in increasing order per linearization; with several consumers 'got' order may interleave slightly, so check only set equality here
    std::vector<int> seen(N,0); for(long v:got) if(v>=0&&v<N) seen[v]++; for(long i=0;i<N;i++) if(seen[i]!=1){ printf("round %d: value %ld seen %d times\n",rd,i,seen[i]); fflush(stdout); _Exit(4);} 
  }
  printf("ok rounds=%d nc=%d cap=%ld\n",rounds,nc,cap);
}
