#include <oneapi/tbb.h>
#include <atomic>
#include <cstdio>
#include <cstdlib>
#include <cstdint>
#include <vector>
#include <algorithm>
#include <mutex>
#include <string>
static thread_local unsigned rs=1; static unsigned rnd(){ rs=rs*1664525u+1013904223u; return rs>>8; }
template<class V> struct Chunks{ std::mutex m; std::vector<std::pair<V,V>> v; void add(V b,V e){ std::lock_guard<std::mutex> l(m); v.push_back({b,e}); } };
static long bad=0; static long cases=0;
template<class V,class Part> void one(V b,V e,size_t g,Part&& part,const char* pn,int P,bool simple){ cases++; Chunks<V> ch; std::vector<std::atomic<unsigned char>> cnt; size_t n= e>b? (size_t)(e-b):0; bool small=n<=(1u<<22); if(small){ cnt=std::vector<std::atomic<unsigned char>>(n); }
  tbb::task_arena a(P); a.execute([&]{ tbb::parallel_for(tbb::blocked_range<V>(b,e,g),[&](const tbb::blocked_range<V>&r){ ch.add(r.begin(),r.end()); if(small) for(V i=r.begin();i<r.end();++i) cnt[(size_t)(i-b)]++; if(rnd()%8==0) for(volatile int k=0;k<(int)(rnd()%3000);k++); },part); });
  auto& v=ch.v; std::sort(v.begin(),v.end()); V cur=b; bool ok=true; for(auto&c:v){ if(!(c.first<c.second)){ printf("%s n=%zu g=%zu P=%d: empty chunk\n",pn,n,g,P); ok=false; } if(c.first!=cur){ printf("%s n=%zu g=%zu P=%d: gap/overlap at %lld (expected %lld)\n",pn,n,g,P,(long long)c.first,(long long)cur); ok=false; break;} cur=c.second; size_t sz=(size_t)(c.second-c.first); if(simple && n>g && (sz>g || sz<(g+1)/2)){ printf("%s n=%zu g=%zu: chunk size %zu outside [%zu,%zu]\n",pn,n,g,sz,(g+1)/2,g); ok=false; } if(n<=g && v.size()!=1){ printf("%s n=%zu g=%zu: non-divisible range split into %zu\n",pn,n,g,v.size()); ok=false; } }
  if(ok && n>0 && cur!=e){ printf("%s n=%zu g=%zu P=%d: cover ends at %lld not %lld\n",pn,n,g,P,(long long)cur,(long long)e); ok=false; } if(n==0 && !v.empty()){ printf("%s: body called on empty range\n",pn); ok=false; }
  if(small) for(size_t i=0;i<n;i++) if(cnt[i]!=1){ printf("%s n=%zu g=%zu P=%d: element %zu visited %d times\n",pn,n,g,P,i,(int)cnt[i]); ok=false; break; } if(!ok) bad++; }
int main(int argc,char**argv){ unsigned seed=atoi(argv[1]); rs=seed; int reps=atoi(argv[2]);
  std::vector<size_t> ns={0,1,2,3,4,5,7,8,9,15,16,17,31,33,63,64,65,97,127,128,129,255,257,499,500,501,1000,1023,1025,4099,65535,65536,65537,1000003,(1u<<24)-1,(1u<<24)+1,(1u<<24)+3};
  static tbb::affinity_partitioner ap;
  for(int rep=0;rep<reps;rep++) for(size_t n:ns){ std::vector<size_t> gs={1,2,3,7, n>1?n-1:1, n?n:1, n+1, (size_t)1<<40}; if(n>1000) gs={ (n/1000)|1, n/7+1, n/2, n/2+1, n-1, n, n+1}; if(n>(1u<<20)) gs={n/300+1,n/64,n/2+1};
    for(size_t g:gs){ int P= 1+rnd()%16; long long off= (long long)(rnd()%3? 0 : (rnd()%2? -(long long)(n/2) : 1000000007LL));
      one<long long>(off,off+(long long)n,g,tbb::simple_partitioner(),"simple",P,true); one<long long>(off,off+(long long)n,g,tbb::auto_partitioner(),"auto",P,false); one<long long>(off,off+(long long)n,g,tbb::static_partitioner(),"static",P,false); one<long long>(off,off+(long long)n,g,ap,"affinity",P,false);
      if(n<(1u<<20)) { one<int>(INT32_MAX-(int)n,INT32_MAX,g,tbb::auto_partitioner(),"auto/int@max",P,false); one<unsigned>(UINT32_MAX-(unsigned)n,UINT32_MAX,g,tbb::static_partitioner(),"static/u32@max",P,false); one<size_t>(SIZE_MAX-n,SIZE_MAX,g,ap,"affinity/size_t@max",P,false); one<short>((short)(n<30000? 32767-(short)n: 0),32767,g? (g>30000?30000:g):1,tbb::simple_partitioner(),"simple/short",P,false); } } }
  // huge ranges: chunk list only
  for(size_t n: {(size_t)1<<33, ((size_t)1<<33)+12345, ((size_t)1<<40)+7}){ for(size_t g: {n/5000+1, n/4097}){ one<size_t>(5,5+n,g,tbb::simple_partitioner(),"simple/huge",8,true); one<size_t>(5,5+n,g,tbb::static_partitioner(),"static/huge",16,false); one<size_t>(SIZE_MAX-n,SIZE_MAX,g,tbb::auto_partitioner(),"auto/huge@max",16,false); one<size_t>(0,n,g,ap,"affinity/huge",7,false);} }
  printf("cases=%ld bad=%ld\n",cases,bad); return bad?1:0; }
