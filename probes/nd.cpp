#include <oneapi/tbb.h>
#include <oneapi/tbb/blocked_nd_range.h>
#include <atomic>
#include <cstdio>
#include <cstdlib>
#include <vector>
#include <list>
#include <forward_list>
#include <thread>
#include <memory>
#include <chrono>
static thread_local unsigned rs=1; static unsigned rnd(){ rs=rs*1664525u+1013904223u; return rs>>8; }
static long bad=0,cases=0;
int main(int argc,char**argv){ rs=atoi(argv[1]); int secs=atoi(argv[2]); tbb::task_arena ar(8); std::atomic<bool> kstop{false}; std::thread keeper([&]{ while(!kstop){ for(int i=0;i<4;i++) ar.enqueue([]{ for(volatile int k=0;k<1000;k++); }); std::this_thread::sleep_for(std::chrono::microseconds(50)); } }); static tbb::affinity_partitioner ap;
  auto t0=std::chrono::steady_clock::now();
  while(std::chrono::duration<double>(std::chrono::steady_clock::now()-t0).count()<secs && !bad){
    { cases++; int R=rnd()%40, C=rnd()%40; int gr=1+rnd()%6, gc=1+rnd()%6; int r0=(int)(rnd()%7)-3, c0=(int)(rnd()%7)-3; std::vector<std::atomic<unsigned char>> cnt((size_t)R*C+1); for(auto&x:cnt)x=0; std::atomic<long> emp{0}; int part=rnd()%4;
      auto body=[&](const tbb::blocked_range2d<int>&r){ if(r.rows().empty()||r.cols().empty()) emp++; for(int i=r.rows().begin();i<r.rows().end();++i) for(int j=r.cols().begin();j<r.cols().end();++j){ if(i<r0||i>=r0+R||j<c0||j>=c0+C){ emp+=1000; continue;} cnt[(size_t)(i-r0)*C+(j-c0)]++; } };
      ar.execute([&]{ tbb::blocked_range2d<int> rg(r0,r0+R,gr,c0,c0+C,gc); if(part==0) tbb::parallel_for(rg,body,tbb::simple_partitioner()); else if(part==1) tbb::parallel_for(rg,body); else if(part==2) tbb::parallel_for(rg,body,tbb::static_partitioner()); else tbb::parallel_for(rg,body,ap); });
      if(emp){ printf("2d: empty or out-of-range subrange (code %ld) R=%d C=%d g=%d,%d part=%d\n",emp.load(),R,C,gr,gc,part); bad++; } for(size_t k=0;k<(size_t)R*C;k++) if(cnt[k]!=1){ printf("2d: cell %zu visited %d times R=%d C=%d g=%d,%d part=%d\n",k,(int)cnt[k],R,C,gr,gc,part); bad++; break; } }
    { cases++; int P=rnd()%12,R=rnd()%12,C=rnd()%12; std::vector<std::atomic<unsigned char>> cnt((size_t)P*R*C+1); for(auto&x:cnt)x=0; std::atomic<long> emp{0}; int gp=1+rnd()%3,gr=1+rnd()%3,gc=1+rnd()%3;
      ar.execute([&]{ tbb::parallel_for(tbb::blocked_range3d<int>(0,P,gp,0,R,gr,0,C,gc),[&](const tbb::blocked_range3d<int>&r){ if(r.pages().empty()||r.rows().empty()||r.cols().empty()) emp++; for(int p=r.pages().begin();p<r.pages().end();++p) for(int i=r.rows().begin();i<r.rows().end();++i) for(int j=r.cols().begin();j<r.cols().end();++j) cnt[((size_t)p*R+i)*C+j]++; }, rnd()%2? tbb::auto_partitioner(): tbb::auto_partitioner()); });
      if(emp){ printf("3d: empty subrange\n"); bad++; } for(size_t k=0;k<(size_t)P*R*C;k++) if(cnt[k]!=1){ printf("3d: cell visited %d times (%d,%d,%d)\n",(int)cnt[k],P,R,C); bad++; break; } }
    { cases++; int d0=rnd()%9,d1=rnd()%9,d2=rnd()%9,d3=rnd()%5; std::vector<std::atomic<unsigned char>> cnt((size_t)d0*d1*d2*d3+1); for(auto&x:cnt)x=0; std::atomic<long> emp{0};
      ar.execute([&]{ tbb::parallel_for(tbb::blocked_nd_range<int,4>({0,d0,(size_t)(1+rnd()%3)},{0,d1,(size_t)(1+rnd()%3)},{0,d2,(size_t)(1+rnd()%2)},{0,d3,(size_t)1}),[&](const tbb::blocked_nd_range<int,4>&r){ if(r.empty()) emp++; for(int a=r.dim(0).begin();a<r.dim(0).end();++a) for(int b=r.dim(1).begin();b<r.dim(1).end();++b) for(int c=r.dim(2).begin();c<r.dim(2).end();++c) for(int d=r.dim(3).begin();d<r.dim(3).end();++d) cnt[(((size_t)a*d1+b)*d2+c)*d3+d]++; },tbb::simple_partitioner()); });
      if(emp){ printf("nd: empty subrange\n"); bad++; } for(size_t k=0;k<(size_t)d0*d1*d2*d3;k++) if(cnt[k]!=1){ printf("nd: cell visited %d times\n",(int)cnt[k]); bad++; break; } }
    { cases++; int n=rnd()%300; int extra_budget=rnd()%200; std::vector<std::unique_ptr<std::atomic<int>>> items; std::forward_list<int> fl; std::list<int> ll; for(int i=n-1;i>=0;i--){ fl.push_front(i); } for(int i=0;i<n;i++) ll.push_back(i); std::vector<std::atomic<unsigned char>> cnt(n+extra_budget+1); for(auto&x:cnt)x=0; std::atomic<int> next{n}; int lim=n+extra_budget; bool use_fwd=rnd()%2;
      auto body=[&](int x, tbb::feeder<int>& f){ cnt[x]++; if(rnd()%3==0){ int id=next++; if(id<lim) f.add(id); else next--; } };
      ar.execute([&]{ if(use_fwd) tbb::parallel_for_each(fl.begin(),fl.end(),body); else tbb::parallel_for_each(ll.begin(),ll.end(),body); }); int total=next.load(); if(total>lim) total=lim; for(int i=0;i<total;i++) if(cnt[i]!=1){ printf("for_each: item %d (of %d, %d original) processed %d times\n",i,total,n,(int)cnt[i]); bad++; break; } for(int i=total;i<lim;i++) if(cnt[i]!=0){ printf("for_each: phantom item\n"); bad++; break; } }
    { cases++; std::atomic<int> c[10]; for(auto&x:c)x=0; ar.execute([&]{ tbb::parallel_invoke([&]{c[0]++;},[&]{c[1]++;},[&]{c[2]++;},[&]{c[3]++;},[&]{c[4]++;},[&]{c[5]++;},[&]{c[6]++;},[&]{c[7]++;},[&]{c[8]++;},[&]{c[9]++;}); tbb::parallel_invoke([&]{c[0]++;},[&]{c[1]++;}); tbb::parallel_invoke([&]{c[2]++;},[&]{c[3]++;},[&]{c[4]++;}); }); int exp[10]={2,2,2,2,2,1,1,1,1,1}; for(int i=0;i<10;i++) if(c[i]!=exp[i]){ printf("parallel_invoke functor %d ran %d times\n",i,c[i].load()); bad++; } }
  }
  kstop=true; keeper.join(); printf("cases=%ld bad=%ld\n",cases,bad); return bad?1:0; }
