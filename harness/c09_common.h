// C09 shared pieces: element types of every page-size class, fault injection (throwing constructor, failing page
// allocator), operation log with two clock modes, sequential FIFO models for the WGL checker, worker pool, hang context.
#pragma once
#include "vrt_tbb.h"
#include "wgl.h"
#include <oneapi/tbb/concurrent_queue.h>
#include <deque>
#include <memory>
#include <new>

namespace c09 {
using namespace vrt;

// ------------------------------------------------------------------------------------------------ operations
enum Kind { K_PUSH = 0, K_EMPLACE, K_TRY_PUSH, K_POP, K_TRY_POP, K_NKINDS };
static const char* const kind_names[] = { "push", "emplace", "try_push", "pop", "try_pop" };
// results: pushes 1 = stored, 0 = try_push said full, negative = exception; pops: value >= 0, or RS_EMPTY / RS_ABORT
constexpr long RS_OK = 1, RS_FULL = 0, RS_EMPTY = -1, RS_THREW = -2, RS_BADALLOC = -3, RS_BADLAST = -4, RS_ABORT = -5, RS_CORRUPT = -6;
inline bool is_push(int k) { return k <= K_TRY_PUSH; }

// ------------------------------------------------------------------------------------------------ fault injection
struct Boom {};
// Global call counter of in-queue element constructions; throws when it reaches an armed index.
struct Injector {
    std::atomic<long> calls{0};
    std::atomic<long> armed[3];
    std::atomic<long> thrown{0};
    Injector() { disarm(); }
    void disarm() { for (auto& a : armed) a.store(-1, std::memory_order_relaxed); calls.store(0, std::memory_order_relaxed); thrown.store(0, std::memory_order_relaxed); }
    void arm(int slot, long idx) { armed[slot].store(idx, std::memory_order_relaxed); }
    void on_call() {
        long c = calls.fetch_add(1, std::memory_order_relaxed);
        for (auto& a : armed) if (a.load(std::memory_order_relaxed) == c) { thrown.fetch_add(1, std::memory_order_relaxed); throw Boom(); }
    }
};
inline Injector& ctor_inj() { static Injector i; return i; }
inline Injector& alloc_inj() { static Injector i; return i; }

struct InQ {};   // tag: this construction happens inside the queue (emplace)

// ------------------------------------------------------------------------------------------------ element types
// SZ = sizeof: 8,16,32,64,128,200 => 32,16,8,4,2,1 items per page. The padding carries a pattern derived from the value so that
// a torn or invented element is recognised. THROWS: copy construction and InQ construction go through the injector.
template <int SZ, bool THROWS> struct El {
    long v;
    unsigned char pad[SZ - 8];
    void fill() { for (int i = 0; i < SZ - 8; i++) pad[i] = (unsigned char)(v * 31 + i * 7 + 1); }
    El() : v(-7) { fill(); }
    explicit El(long x) : v(x) { fill(); }
    El(long x, InQ) : v(x) { if (THROWS) ctor_inj().on_call(); fill(); }
    El(const El& o) : v(o.v) { if (THROWS) ctor_inj().on_call(); memcpy(pad, o.pad, sizeof pad); }
    El(El&& o) noexcept : v(o.v) { memcpy(pad, o.pad, sizeof pad); }
    El& operator=(const El& o) { v = o.v; memcpy(pad, o.pad, sizeof pad); return *this; }
    El& operator=(El&& o) noexcept { v = o.v; memcpy(pad, o.pad, sizeof pad); return *this; }
    bool ok() const { for (int i = 0; i < SZ - 8; i++) if (pad[i] != (unsigned char)(v * 31 + i * 7 + 1)) return false; return true; }
};
template <bool THROWS> struct El<8, THROWS> {
    long v;
    El() : v(-7) {}
    explicit El(long x) : v(x) {}
    El(long x, InQ) : v(x) { if (THROWS) ctor_inj().on_call(); }
    El(const El& o) : v(o.v) { if (THROWS) ctor_inj().on_call(); }
    El(El&& o) noexcept : v(o.v) {}
    El& operator=(const El& o) { v = o.v; return *this; }
    El& operator=(El&& o) noexcept { v = o.v; return *this; }
    bool ok() const { return true; }
};

// Page allocator that fails at an armed allocation index. Live blocks are tracked so that pages the queue leaks after a
// failed allocation (see DESIGN 4.3b, outside C09's wording) are counted and released by the harness, not by LeakSanitizer.
struct AllocBook {
    std::mutex m; std::set<void*> live; long leaked = 0;
    void add(void* p) { std::lock_guard<std::mutex> l(m); live.insert(p); }
    void del(void* p) { std::lock_guard<std::mutex> l(m); live.erase(p); }
    long sweep() { std::lock_guard<std::mutex> l(m); long n = (long)live.size(); for (void* p : live) ::operator delete(p, std::align_val_t(128)); live.clear(); leaked += n; return n; }
};
inline AllocBook& alloc_book() { static AllocBook b; return b; }
template <class T> struct FailAlloc {
    using value_type = T;
    FailAlloc() = default;
    template <class U> FailAlloc(const FailAlloc<U>&) {}
    T* allocate(size_t n) {
        try { alloc_inj().on_call(); } catch (Boom&) { throw std::bad_alloc(); }
        static_assert(alignof(T) <= 128, "alignment");
        void* p = ::operator new(n * sizeof(T), std::align_val_t(128));
        alloc_book().add(p);
        return (T*)p;
    }
    void deallocate(T* p, size_t) { alloc_book().del(p); ::operator delete((void*)p, std::align_val_t(128)); }
    template <class U> bool operator==(const FailAlloc<U>&) const { return true; }
    template <class U> bool operator!=(const FailAlloc<U>&) const { return false; }
};

// ------------------------------------------------------------------------------------------------ clocks and logs
// Clock mode 0: one global seq_cst counter (exact real-time order, but a fence between operations).
// Clock mode 1: CLOCK_MONOTONIC; A precedes B only if A.ret + 2 us < B.call (returns are stamped 2 us late): weaker order, so
// it can only make the checkers more permissive, and the recorder does not drain store buffers. Always used in the tsan build.
struct Clock {
    std::atomic<uint64_t> c{1};
    bool wall = false;
    uint64_t call() { return wall ? now_ns() : c.fetch_add(1); }
    uint64_t ret() { return wall ? now_ns() + 2000 : c.fetch_add(1); }
};
struct Log {
    std::vector<Op> ops; int thread = 0;
    void reset(int t) { ops.clear(); thread = t; }
    size_t begin(Clock& clk, int kind, long arg) { Op o; o.thread = thread; o.kind = kind; o.arg = arg; o.ret = ~0ull; o.open = true; ops.push_back(o); ops.back().call = clk.call(); return ops.size() - 1; }
    void end(Clock& clk, size_t i, long res) { uint64_t r = clk.ret(); ops[i].res = res; ops[i].ret = r; ops[i].open = false; }
};

// ------------------------------------------------------------------------------------------------ sequential models
// FIFO queue, optionally bounded. A push that ended with an exception and an aborted call are no-ops.
struct FifoModel {
    long cap = -1;                     // < 0: unbounded
    std::vector<long> initial;
    using State = std::deque<long>;
    State init() const { return State(initial.begin(), initial.end()); }
    bool apply(State& s, const Op& o) const {
        if (o.open) {                  // never returned: may or may not have taken effect; only used for hang witnesses
            if (is_push(o.kind)) { s.push_back(o.arg); return true; }
            if (!s.empty()) s.pop_front();
            return true;
        }
        switch (o.kind) {
        case K_PUSH: case K_EMPLACE: case K_TRY_PUSH:
            if (o.res == RS_OK) { if (cap >= 0 && (long)s.size() >= cap) return false; s.push_back(o.arg); return true; }
            if (o.res == RS_FULL) return cap >= 0 && (long)s.size() >= cap;
            return true;               // exception: no effect
        default:
            if (o.res == RS_EMPTY) return s.empty();
            if (o.res == RS_ABORT) return true;
            if (s.empty() || s.front() != o.res) return false;
            s.pop_front(); return true;
        }
    }
    uint64_t hash(const State& s) const { uint64_t h = s.size(); for (long v : s) h = mix(h, (uint64_t)v); return h; }
};

// ------------------------------------------------------------------------------------------------ worker pool
// Persistent threads; a round hands the first n of them a job. Start is a spin barrier so that the (very short) operation
// sequences of a history really overlap; all waiting is yield-spinning (a wedged round is then decided by the watchdog's
// spin-stall / quiescence rules, never by a timeout here).
inline void relax(int& spins) { if (++spins < 64) _mm_pause(); else { sched_yield(); } }
struct Pool {
    static constexpr int kMax = 8;
    std::vector<std::thread> th;
    std::atomic<uint64_t> word{0};   // (round << 8) | active workers
    uint64_t round_no = 0;
    std::atomic<uint32_t> gen{0}; std::atomic<int> sleepers{0};
    void wake() { gen.fetch_add(1); if (sleepers.load() > 0) syscall(SYS_futex, (uint32_t*)&gen, 1 /*FUTEX_WAKE*/, 1 << 30, nullptr, nullptr, 0); }
    std::atomic<int> arrived{0}, finished{0};
    std::atomic<bool> quit{false};
    int n_active = 0;
    std::function<void(int)> job;
    std::atomic<HookThread*> hts[kMax];
    explicit Pool(int n) {
        for (auto& h : hts) h.store(nullptr);
        for (int t = 0; t < n; t++) th.emplace_back([this, t] {
            hts[t].store(&hook_thread(), std::memory_order_release);
            uint64_t seen = 0;
            for (;;) {
                int sp = 0; uint64_t w;
                // round number and number of active workers travel in one word: a late, inactive worker can never pair an old
                // round with a newer round's thread count
                while (((w = word.load()) >> 8) == seen) {
                    if (quit.load(std::memory_order_relaxed)) return;
                    if (++sp < 2000) _mm_pause(); else if (sp < 3000) sched_yield();
                    else {      // really block (an idle poller would keep the watchdog from ever seeing quiescence or a spin-stall)
                        uint32_t g = gen.load(); sleepers.fetch_add(1);
                        if ((word.load() >> 8) == seen && !quit.load()) syscall(SYS_futex, (uint32_t*)&gen, 0 /*FUTEX_WAIT*/, g, nullptr, nullptr, 0);
                        sleepers.fetch_sub(1);
                    }
                }
                seen = w >> 8;
                int na = (int)(w & 0xff);
                if (t < na) {
                    arrived.fetch_add(1);
                    int s2 = 0; while (arrived.load(std::memory_order_acquire) < na) relax(s2);
                    job(t);
                    finished.fetch_add(1, std::memory_order_release);
                }
            }
        });
    }
    void start(int n, std::function<void(int)> f) { job = std::move(f); n_active = n; arrived.store(0); finished.store(0); word.store((++round_no << 8) | (uint64_t)n); wake(); }
    bool done() const { return finished.load(std::memory_order_acquire) >= n_active; }
    void wait() { int s = 0; while (!done()) relax(s); }
    ~Pool() { quit.store(true); wake(); for (auto& t : th) t.join(); }
    bool asleep(int t) const { HookThread* h = hts[t].load(std::memory_order_acquire); return h && h->sleeping_on.load(std::memory_order_relaxed) != nullptr; }
};

// ------------------------------------------------------------------------------------------------ hang context
// What the watchdog callback needs to turn "nobody can make progress" into a verdict about the queue.
struct HangCtx {
    std::atomic<int> cls{'L'};             // scenario class letter: L lin, S stress, Q R P, U B G
    std::atomic<int> phase{0};             // class specific
    std::atomic<long> pushed{0}, popped{0};// completed successful pushes / pops of the current scenario (harness side)
    std::atomic<long> cap{-1};
    std::atomic<int> blocked_pop{0}, blocked_push{0};  // threads currently inside a blocking pop / push
    std::atomic<long> max_delivered{-1}, delivered{0}, expect{0};   // abort-free phase bookkeeping
    std::mutex m; std::string scenario = "{}";
    void begin(int c, long capacity, const std::string& scen) {
        cls.store(c); phase.store(0); pushed.store(0); popped.store(0); cap.store(capacity); blocked_pop.store(0); blocked_push.store(0);
        max_delivered.store(-1); delivered.store(0); expect.store(0);
        std::lock_guard<std::mutex> l(m); scenario = scen;
    }
    std::string scen() { std::lock_guard<std::mutex> l(m); return scenario; }
};
inline HangCtx& hang_ctx() { static HangCtx h; return h; }

struct BlockMark {            // RAII: "this thread is inside a blocking pop/push"
    std::atomic<int>& a;
    explicit BlockMark(std::atomic<int>& x) : a(x) { a.fetch_add(1, std::memory_order_relaxed); }
    ~BlockMark() { a.fetch_sub(1, std::memory_order_relaxed); }
};

inline std::string cls_key(int cls, const std::string& what) { return std::string("c09.") + (char)cls + "." + what; }

// hooks of interest: queue tickets/pages/waits + monitor protocol steps
inline const std::vector<int>& hook_ids() { static std::vector<int> v = { 130, 131, 132, 133, 134, 135, 136, 65, 66, 67, 50, 51, 52, 53, 54, 55 }; return v; }

} // namespace c09
