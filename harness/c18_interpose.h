// C18: interposition of the OS mapping calls made by libtbbmalloc, index-based fault injection, ownership log of the
// address ranges the allocator obtained from the OS.
//
// The harness executable defines mmap / munmap / mremap itself; libtbbmalloc.so calls them through its PLT, so the calls
// land here (glibc's own internal mappings - thread stacks, its malloc - do not use the PLT and are not seen). A call is
// *counted* (and can be refused with MAP_FAILED / ENOMEM exactly like the kernel would) only while the calling thread is
// inside a scalable_* / rml::pool_* call made by the harness (thread-local depth counter).
#pragma once
#include "vrt.h"
#include <sys/mman.h>
#include <sys/syscall.h>
#include <dlfcn.h>
#include <cerrno>
#include <cstdarg>
#include <climits>
#include <map>

namespace c18 {

// ------------------------------------------------------------------------------------------------ fault plans
struct FaultPlan {
    enum Kind { NONE = 0, RANGE = 1, MASK = 2, PROB = 3 };
    int kind = NONE;
    long from = 0, to = 0;          // RANGE: 1-based call indices, inclusive (to == LONG_MAX: everything from `from` on)
    uint64_t mask = 0;              // MASK: bit (c-1) set => the c-th call fails (c <= 64)
    uint32_t prob = 0;              // PROB: every counted call fails with probability prob/65536 (multi-threaded classes)
    bool hits(long c, uint32_t rnd) const {
        switch (kind) {
        case RANGE: return c >= from && c <= to;
        case MASK: return c >= 1 && c <= 64 && ((mask >> (c - 1)) & 1);
        case PROB: return (rnd & 0xffff) < prob;
        default: return false;
        }
    }
    std::string str() const {
        char b[96];
        switch (kind) {
        case RANGE: if (to == LONG_MAX) snprintf(b, sizeof b, "fail %ld..inf", from); else if (to == from) snprintf(b, sizeof b, "fail %ld", from); else snprintf(b, sizeof b, "fail %ld..%ld", from, to); break;
        case MASK: snprintf(b, sizeof b, "fail subset 0x%llx", (unsigned long long)mask); break;
        case PROB: snprintf(b, sizeof b, "fail each with p=%u/65536", prob); break;
        default: snprintf(b, sizeof b, "no faults");
        }
        return b;
    }
};

struct FiredRec { int thread; long index; int others_inside; };

// One injection point (OS mappings, or raw-memory callbacks of pools)
struct Injector {
    std::atomic<long> calls{0}, fired{0}, fired_concurrent{0};
    std::atomic<bool> armed{false};
    FaultPlan plan;                                  // written only while no allocator call is in flight
    static constexpr int kLog = 64;
    FiredRec log[kLog]; std::atomic<int> nlog{0};    // first refusals, in order (thread ordinal, call index)
    void arm(const FaultPlan& p) { plan = p; armed.store(p.kind != FaultPlan::NONE, std::memory_order_release); }
    void disarm() { armed.store(false, std::memory_order_release); }
    void reset_counts() { calls.store(0); fired.store(0); fired_concurrent.store(0); nlog.store(0); }
    // returns true when this call must be refused
    bool on_call(int others_inside);
};

inline thread_local int t_in_call = 0;               // depth inside allocator entry points (set by the harness wrappers)
inline std::atomic<int> g_threads_inside{0};         // threads currently inside an allocator entry point
inline Injector g_map_inj, g_raw_inj;

struct InCall {                                      // RAII marker around every allocator entry point the harness calls
    InCall() { if (t_in_call++ == 0) g_threads_inside.fetch_add(1, std::memory_order_relaxed); }
    ~InCall() { if (--t_in_call == 0) g_threads_inside.fetch_sub(1, std::memory_order_relaxed); }
};

inline bool Injector::on_call(int others_inside) {
    long c = calls.fetch_add(1, std::memory_order_relaxed) + 1;
    if (!armed.load(std::memory_order_acquire)) return false;
    uint32_t rnd = plan.kind == FaultPlan::PROB ? vrt::trng().u32() : 0;
    if (!plan.hits(c, rnd)) return false;
    fired.fetch_add(1, std::memory_order_relaxed);
    if (others_inside > 0) fired_concurrent.fetch_add(1, std::memory_order_relaxed);
    int i = nlog.fetch_add(1, std::memory_order_relaxed);
    if (i < kLog) log[i] = FiredRec{ vrt::hook_thread().ordinal, c, others_inside };
    return true;
}

// ------------------------------------------------------------------------------------------------ real system calls
inline void* sys_mmap(void* a, size_t l, int p, int f, int fd, off_t o) {
#if VRT_ASAN || VRT_TSAN
    // keep the sanitizer's own interceptor in the chain (it maintains shadow state for new mappings)
    using fn_t = void* (*)(void*, size_t, int, int, int, off_t);
    static fn_t next = (fn_t)dlsym(RTLD_NEXT, "mmap");
    if (next) return next(a, l, p, f, fd, o);
#endif
    return (void*)syscall(SYS_mmap, a, l, p, f, fd, o);
}
inline int sys_munmap(void* a, size_t l) {
#if VRT_TSAN
    using fn_t = int (*)(void*, size_t);
    static fn_t next = (fn_t)dlsym(RTLD_NEXT, "munmap");
    if (next) return next(a, l);
#endif
    return (int)syscall(SYS_munmap, a, l);
}
inline void* sys_mremap(void* a, size_t ol, size_t nl, int fl, void* na) {
#if VRT_TSAN
    if (!(fl & MREMAP_FIXED)) return vrt::tsan_mremap(a, ol, nl, fl);   // see vrt.h: TSan does not intercept mremap
#endif
    return (void*)syscall(SYS_mremap, a, ol, nl, fl, na);
}
// anonymous private mapping for the harness itself (raw memory of pools, buffers): never counted, never refused
inline void* os_map(size_t bytes) { void* p = sys_mmap(nullptr, bytes, PROT_READ | PROT_WRITE, MAP_PRIVATE | MAP_ANONYMOUS, -1, 0); return p == MAP_FAILED ? nullptr : p; }
inline void os_unmap(void* p, size_t bytes) { sys_munmap(p, bytes); }

// ------------------------------------------------------------------------------------------------ ownership log
// Address ranges that libtbbmalloc currently holds from the OS (default pool). Partial unmaps are legal (huge-page trimming).
struct SpinLock {
    std::atomic<bool> f{false};
    void lock() { while (f.exchange(true, std::memory_order_acquire)) { while (f.load(std::memory_order_relaxed)) _mm_pause(); } }
    void unlock() { f.store(false, std::memory_order_release); }
};
using ProblemFn = void (*)(const char* key, const std::string& detail);
using LiveOverlapFn = bool (*)(uintptr_t lo, uintptr_t hi, std::string* what);   // does a block the harness still owns intersect [lo,hi)?

struct OsRanges {
    SpinLock mu;
    std::map<uintptr_t, uintptr_t> r;       // start -> end, disjoint, coalesced
    std::atomic<long> maps{0}, unmaps{0}, remaps{0}, bytes{0};
    void add(uintptr_t lo, uintptr_t hi) {
        auto it = r.lower_bound(lo);
        if (it != r.begin()) { auto p = std::prev(it); if (p->second >= lo) { lo = p->first; hi = std::max(hi, p->second); it = r.erase(p); } }
        while (it != r.end() && it->first <= hi) { hi = std::max(hi, it->second); it = r.erase(it); }
        r[lo] = hi;
    }
    bool covered(uintptr_t lo, uintptr_t hi) const {
        auto it = r.upper_bound(lo); if (it == r.begin()) return false; --it;
        return it->first <= lo && hi <= it->second;
    }
    bool intersects(uintptr_t lo, uintptr_t hi) const {
        auto it = r.lower_bound(lo);
        if (it != r.end() && it->first < hi) return true;
        if (it != r.begin()) { --it; if (it->second > lo) return true; }
        return false;
    }
    void remove(uintptr_t lo, uintptr_t hi) {       // precondition: covered(lo,hi)
        auto it = r.upper_bound(lo); --it;
        uintptr_t a = it->first, b = it->second; r.erase(it);
        if (a < lo) r[a] = lo;
        if (hi < b) r[hi] = b;
    }
};
inline OsRanges g_os;
inline ProblemFn g_problem = nullptr;             // installed by the harness (child side): records a violation
inline LiveOverlapFn g_live_overlap = nullptr;    // installed by single-threaded classes that keep a global shadow of live blocks
inline std::atomic<bool> g_track_os{true};

inline void problem(const char* key, const std::string& d) { if (g_problem) g_problem(key, d); }
inline std::string hexs(uintptr_t v) { char b[24]; snprintf(b, sizeof b, "0x%llx", (unsigned long long)v); return b; }

} // namespace c18

// ------------------------------------------------------------------------------------------------ the interposers
#ifdef C18_DEFINE_INTERPOSERS
extern "C" __attribute__((visibility("default"))) void* mmap(void* a, size_t l, int p, int f, int fd, off_t o) {
    using namespace c18;
    if (!t_in_call) return sys_mmap(a, l, p, f, fd, o);
    if (g_map_inj.on_call(g_threads_inside.load(std::memory_order_relaxed) - 1)) { errno = ENOMEM; return MAP_FAILED; }
    void* r = sys_mmap(a, l, p, f, fd, o);
    if (r != MAP_FAILED && g_track_os.load(std::memory_order_relaxed)) {
        int e = errno;
        g_os.mu.lock();
        bool clash = g_os.intersects((uintptr_t)r, (uintptr_t)r + l);
        g_os.add((uintptr_t)r, (uintptr_t)r + l); g_os.mu.unlock();
        g_os.maps.fetch_add(1, std::memory_order_relaxed); g_os.bytes.fetch_add((long)l, std::memory_order_relaxed);
        if (clash) problem("os.mmap-returned-owned-range", "the kernel returned " + hexs((uintptr_t)r) + "+" + std::to_string(l) + " which the log still lists as owned by the allocator (an munmap bypassed the log?)");
        errno = e;
    }
    return r;
}
extern "C" __attribute__((visibility("default"))) void* mmap64(void* a, size_t l, int p, int f, int fd, off_t o) { return mmap(a, l, p, f, fd, o); }
extern "C" __attribute__((visibility("default"))) int munmap(void* a, size_t l) {
    using namespace c18;
    if (!t_in_call || !g_track_os.load(std::memory_order_relaxed)) return sys_munmap(a, l);
    uintptr_t lo = (uintptr_t)a, hi = lo + l;
    int e = errno;
    g_os.mu.lock();
    bool ok = g_os.covered(lo, hi);
    if (ok) g_os.remove(lo, hi);
    g_os.mu.unlock();
    if (!ok) problem("os.munmap-of-range-not-owned", "munmap(" + hexs(lo) + ", " + std::to_string(l) + ") is not inside the ranges the allocator mapped (double release or wrong size)");
    std::string what;
    if (g_live_overlap && g_live_overlap(lo, hi, &what)) problem("os.munmap-of-live-block", "munmap(" + hexs(lo) + ", " + std::to_string(l) + ") while a block that was never freed lies inside: " + what);
    g_os.unmaps.fetch_add(1, std::memory_order_relaxed); g_os.bytes.fetch_sub((long)l, std::memory_order_relaxed);
    errno = e;
    return sys_munmap(a, l);
}
extern "C" __attribute__((visibility("default"))) void* mremap(void* a, size_t ol, size_t nl, int fl, ...) {
    using namespace c18;
    void* na = nullptr;
    if (fl & MREMAP_FIXED) { va_list ap; va_start(ap, fl); na = va_arg(ap, void*); va_end(ap); }
    if (!t_in_call) return sys_mremap(a, ol, nl, fl, na);
    if (g_map_inj.on_call(g_threads_inside.load(std::memory_order_relaxed) - 1)) { errno = ENOMEM; return MAP_FAILED; }
    void* r = sys_mremap(a, ol, nl, fl, na);
    if (r != MAP_FAILED && g_track_os.load(std::memory_order_relaxed)) {
        int e = errno;
        uintptr_t lo = (uintptr_t)a, hi = lo + ol;
        g_os.mu.lock();
        bool ok = g_os.covered(lo, hi);
        if (ok) g_os.remove(lo, hi);
        g_os.add((uintptr_t)r, (uintptr_t)r + nl);
        g_os.mu.unlock();
        g_os.remaps.fetch_add(1, std::memory_order_relaxed); g_os.bytes.fetch_add((long)nl - (long)ol, std::memory_order_relaxed);
        if (!ok) problem("os.mremap-of-range-not-owned", "mremap(" + hexs(lo) + ", " + std::to_string(ol) + " -> " + std::to_string(nl) + ") moved a range the allocator does not own");
        errno = e;
    }
    return r;
}
#endif
