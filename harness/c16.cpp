// C16: arenas bound concurrency, give unique slot indices, keep workers out of reserved slots, balance observer
// callbacks, isolate work, respect the worker budget; the market's allotment and the request serializer keep their
// arithmetic invariants (checked through read-only report hooks under the code's own mutexes).
#define VRT_IMPL
#include "vrt_tbb.h"
#include <oneapi/tbb.h>
#include <memory>

using namespace vrt;

static thread_local bool tl_external = false;       // threads created by the harness (everything else is a TBB worker)
static thread_local long tl_exec_scope = 0;         // isolation scope of the code this thread is executing (0 = none)
static std::atomic<long> g_scope_ids{1};
static std::atomic<long> g_fails{0};
static std::mutex g_fm; static std::map<std::string, std::pair<std::string, long>> g_failmap;   // key -> (first detail, count)
static void fail(const std::string& key, const std::string& what) { g_fails.fetch_add(1); std::lock_guard<std::mutex> l(g_fm); auto& e = g_failmap[key]; if (e.second++ == 0) e.first = what; }

struct ArenaMon {
    tbb::task_arena arena; int conc, reserved; int prio;
    std::atomic<uint64_t> inflight_bits{0};
    std::atomic<int> inflight{0}, max_inflight{0}, max_index{-1};
    std::atomic<long> bodies{0}, reserved_entries{0}, enq_pending{0}; std::atomic<bool> ever_enqueued{false}; long enq_events_at_creation = 0;
    ArenaMon(int c, int r, tbb::task_arena::priority p);
};
static thread_local ArenaMon* tl_in = nullptr;
static std::atomic<long>& enqueue_events();
ArenaMon::ArenaMon(int c, int r, tbb::task_arena::priority p) : arena(c, r, p), conc(c), reserved(r), prio((int)p) { enq_events_at_creation = enqueue_events().load(std::memory_order_acquire); arena.initialize(); }     // arena whose body this thread is inside (outermost body only)

// body instrumentation: call at the start of every unit of work known to run in arena m
// set while a scenario runs under max_allowed_parallelism = 1 and never enqueues anything: no worker may run user work then (the one
// mandatory worker is granted only for enqueued work); likewise a one-thread arena that never had enqueued work gets no worker
static std::atomic<int> g_no_worker_expected{0};
// every arena::enqueue_task of the process (user enqueue, and execute() delegating to a full arena - that is enqueued work too); hook 74
// fires before the task is pushed, so a worker that was requested for it can never be seen before the count moved
static std::atomic<long> g_enqueue_events{0}, g_enq_at_scenario_start{0};
static std::atomic<long>& enqueue_events() { return g_enqueue_events; }
struct InBody {
    ArenaMon* m; int idx; bool outer; long saved_scope;
    InBody(ArenaMon* mon, long task_scope) : m(mon), idx(-1), outer(false), saved_scope(tl_exec_scope) {
        // isolation: a thread that is waiting inside an isolated scope W may only run tasks of scope W
        if (tl_exec_scope != 0 && tl_exec_scope != task_scope) fail("c16.isolation-breach", "a thread waiting in isolation scope " + std::to_string(tl_exec_scope) + " executed a task of scope " + std::to_string(task_scope));
        tl_exec_scope = task_scope;
        if (!tl_external) {
            long ev = g_enqueue_events.load(std::memory_order_acquire);
            if (g_no_worker_expected.load(std::memory_order_relaxed) && ev == g_enq_at_scenario_start.load(std::memory_order_relaxed)) fail("c16.worker-budget.worker-without-enqueued-work-under-limit-1", "a worker thread executes a body although max_allowed_parallelism is 1 and nothing has been enqueued (by the user or by a delegating execute) since the limit was set");
            if (m->conc == 1 && m->reserved == 1 && ev == m->enq_events_at_creation) fail("c16.worker-in-one-thread-arena-without-enqueued-work", "a worker thread executes a body in a workerless one-thread arena although nothing has been enqueued anywhere since the arena was created");
        }
        if (tl_in == m) return;                      // nested body on the same thread in the same arena
        if (tl_in != nullptr) return;                // nested into another arena: outer accounting stays with the outer arena
        outer = true; tl_in = m;
        idx = tbb::this_task_arena::current_thread_index();
        int mc = tbb::this_task_arena::max_concurrency();
        m->bodies.fetch_add(1, std::memory_order_relaxed);
        int bound = m->conc + ((m->conc == 1) ? 1 : 0);   // a one-thread arena is granted one extra worker while it has enqueued work
        if (mc != m->conc && !(m->conc == 1 && mc == 2)) fail("c16.max_concurrency", "this_task_arena::max_concurrency() = " + std::to_string(mc) + " inside an arena created with " + std::to_string(m->conc));
        if (idx < 0 || idx >= std::max(bound, 2)) fail("c16.index-out-of-range", "current_thread_index() = " + std::to_string(idx) + " in an arena of " + std::to_string(m->conc) + " slots");
        if (idx >= 0 && idx < 64) {
            uint64_t bit = 1ull << idx;
            if (m->inflight_bits.fetch_or(bit) & bit) fail("c16.index-shared", "two threads inside arena bodies at once with current_thread_index() = " + std::to_string(idx));
        }
        int n = m->inflight.fetch_add(1) + 1;
        int mx = m->max_inflight.load(); while (n > mx && !m->max_inflight.compare_exchange_weak(mx, n)) {}
        int mi = m->max_index.load(); while (idx > mi && !m->max_index.compare_exchange_weak(mi, idx)) {}
        if (n > bound) fail("c16.concurrency-exceeded", std::to_string(n) + " threads inside bodies of an arena with max_concurrency " + std::to_string(m->conc));
        if (!tl_external && idx >= 0 && idx < m->reserved) fail("c16.worker-in-reserved-slot", "a worker thread holds index " + std::to_string(idx) + " < reserved " + std::to_string(m->reserved));
        if (tl_external && idx >= 0 && idx < m->reserved) m->reserved_entries.fetch_add(1, std::memory_order_relaxed);
    }
    ~InBody() {
        tl_exec_scope = saved_scope;
        if (!outer) return;
        if (idx >= 0 && idx < 64) m->inflight_bits.fetch_and(~(1ull << idx));
        m->inflight.fetch_sub(1);
        tl_in = nullptr;
    }
};

// observer: balanced entry/exit per thread, exit on the entering thread
struct Obs : tbb::task_scheduler_observer {
    std::atomic<long> entries{0}, exits{0};
    static thread_local int depth;
    explicit Obs(tbb::task_arena& a) : tbb::task_scheduler_observer(a) { observe(true); }
    void on_scheduler_entry(bool is_worker) override {
        entries.fetch_add(1, std::memory_order_relaxed);
        // a worker entering a nested arena through execute() is announced with is_worker=false (it acts as an external
        // thread there); the converse - an application thread announced as a worker - must never happen
        if (is_worker && tl_external) fail("c16.observer-worker-flag", "on_scheduler_entry(is_worker=true) on an application thread");
        depth++;
    }
    void on_scheduler_exit(bool) override {
        exits.fetch_add(1, std::memory_order_relaxed);
        if (--depth < 0) { fail("c16.observer-exit-without-entry", "on_scheduler_exit on a thread with no matching on_scheduler_entry"); depth = 0; }
    }
    ~Obs() { observe(false); }
};
thread_local int Obs::depth = 0;

// ---------------------------------------------------------------------------------------------- report hooks
static std::atomic<long> g_allot_reports{0}, g_serial_reports{0};
static std::mutex g_sig_m; static std::set<uint64_t> g_allot_sigs;
static std::mutex g_ser_m; static std::map<const void*, long> g_ser_sum;
static std::atomic<int> g_market_undergrant_known_shape{0};
static std::atomic<long> g_enqueued_not_run{0};          // enqueued tasks of the current scenario that have not run yet
static std::atomic<const char*> g_phase{"start"};
static void on_report(int id, const void* obj, const long* v, int n) {
    if (id == 100 /*vr_market_allotment*/) {
        g_allot_reports.fetch_add(1, std::memory_order_relaxed);
        long soft = v[0], demand = v[1], mandatory = v[2], nc = v[3];
        if (n < 4 + 4 * nc) return;
        long eff = (mandatory > 0 && soft == 0) ? 1 : soft;
        long expect = std::min(demand, eff), sum = 0, sum_max = 0;
        uint64_t h = mix(soft, demand);
        long unsat_higher = 0;        // unsatisfied demand at higher priority levels seen so far (levels are reported in priority order)
        int cur_level = -1; long level_unsat = 0;
        for (long i = 0; i < nc; i++) {
            long lvl = v[4 + 4 * i], mn = v[5 + 4 * i], mx = v[6 + 4 * i], al = v[7 + 4 * i];
            if (lvl != cur_level) { unsat_higher += level_unsat; level_unsat = 0; cur_level = (int)lvl; }
            sum += al; sum_max += mx;
            if (al > mx) fail("c16.allotment-exceeds-request", "client allotted " + std::to_string(al) + " > requested " + std::to_string(mx));
            if (al < 0) fail("c16.allotment-negative", "negative allotment");
            if (al > 0 && unsat_higher > 0 && soft != 0) fail("c16.priority-inversion", "priority level " + std::to_string(lvl) + " got " + std::to_string(al) + " workers while " + std::to_string(unsat_higher) + " requested workers of a higher level are unsatisfied");
            level_unsat += mx - al;
            h = mix(h, (uint64_t)(lvl * 1000003 + mx * 101 + mn));
        }
        if (sum_max != demand) {
            std::string cl; for (long i = 0; i < nc && i < 14; i++) cl += " [lvl " + std::to_string(v[4 + 4 * i]) + " min " + std::to_string(v[5 + 4 * i]) + " max " + std::to_string(v[6 + 4 * i]) + " allot " + std::to_string(v[7 + 4 * i]) + "]";
            fail("c16.demand-accounting", "sum of client requests " + std::to_string(sum_max) + " != total demand " + std::to_string(demand) + "; soft limit " + std::to_string(soft) + ", mandatory " + std::to_string(mandatory) + ", " + std::to_string(nc) + " clients:" + cl);
        }
        {   // state of the market after its latest allotment, for the hang verdict: is it currently granting nothing in the known shape?
            bool mcm = false; for (long i = 0; i < nc; i++) if (v[5 + 4 * i] > 0 && v[6 + 4 * i] > 0) mcm = true;
            g_market_undergrant_known_shape.store(sum != expect && soft == 0 && mandatory > 0 && !mcm && sum == 0 ? 1 : 0, std::memory_order_relaxed);
        }
        if (sum != expect) {
            std::string cl; for (long i = 0; i < nc && i < 12; i++) cl += " [lvl " + std::to_string(v[4 + 4 * i]) + " min " + std::to_string(v[5 + 4 * i]) + " max " + std::to_string(v[6 + 4 * i]) + " allot " + std::to_string(v[7 + 4 * i]) + "]";
            // known-defect signature: zero-worker mode, the market counts a mandatory request, but no client asks for a worker
            // on behalf of it (a client with min>0,max==0, or a mandatory request leaked by a destroyed client)
            bool mand_client_with_max = false; for (long i = 0; i < nc; i++) if (v[5 + 4 * i] > 0 && v[6 + 4 * i] > 0) mand_client_with_max = true;
            bool known_shape = soft == 0 && mandatory > 0 && !mand_client_with_max && sum == 0;
            fail(known_shape ? "c16.allotment-sum.mandatory-request-without-worker-request" : "c16.allotment-sum", "workers allotted " + std::to_string(sum) + " != min(total demand " + std::to_string(demand) + ", limit " + std::to_string(eff) + "); soft limit " + std::to_string(soft) + ", mandatory requests " + std::to_string(mandatory) + ", clients:" + cl);
        }
        std::lock_guard<std::mutex> l(g_sig_m); if (g_allot_sigs.size() < 100000) g_allot_sigs.insert(h);
    } else if (id == 103 /*vr_market_unregister*/) {
        if (v[0] != 0 || v[1] != 0) fail(v[0] == 1 && v[1] == 0 ? "c16.client-destroyed-with-demand.mandatory-only" : "c16.client-destroyed-with-demand", "an arena's market client is destroyed while it still requests min " + std::to_string(v[0]) + " / max " + std::to_string(v[1]) + " workers (the market keeps counting that demand)");
    } else if (id == 101 /*vr_serializer_update*/) {
        g_serial_reports.fetch_add(1, std::memory_order_relaxed);
        std::lock_guard<std::mutex> l(g_ser_m);          // reports of one serializer arrive under its own mutex; this lock only protects the map
        long& cum = g_ser_sum[obj]; cum += v[0];
        long expect = std::min(v[1], v[2]);   // the total may be transiently negative: deltas reach the serializer out of order
        if (cum != expect) fail("c16.serializer-estimate", "cumulative job-count estimate " + std::to_string(cum) + " != min(soft limit " + std::to_string(v[1]) + ", total request " + std::to_string(v[2]) + ")");
    }
}

// worker sleep registry (hooks 61/62 sit around the semaphore wait of a worker thread)
static std::atomic<long> g_workers_asleep{0}, g_workers_known{0};
static thread_local bool tl_worker_known = false;
static std::atomic<int> g_quiet_active{0}; static std::atomic<long> g_quiet_wakeups{0}, g_quiet_resumes{0};
static void on_point(int id, const void*, long arg) {
    if (id == 58) { if (arg == 1 && g_quiet_active.load(std::memory_order_relaxed)) g_quiet_wakeups.fetch_add(1, std::memory_order_relaxed); return; }
    if (id == 74) { g_enqueue_events.fetch_add(1, std::memory_order_release); return; }
    if (id == 61) { if (!tl_worker_known) { tl_worker_known = true; g_workers_known.fetch_add(1); } g_workers_asleep.fetch_add(1); }
    else if (id == 62) g_workers_asleep.fetch_sub(1);
}
// steady regime: wait until every worker thread that exists has gone back to sleep (bounded); false => skip the regime
static bool drain_workers() {
    for (int i = 0; i < 400; i++) { if (g_workers_known.load() > 0 && g_workers_asleep.load() >= g_workers_known.load()) return true; sleep_us(1000); }
    return g_workers_known.load() == 0;
}

static void spin_some(Rng& r) { spin_iters((unsigned)r.below(r.chance(1, 8) ? 20000 : 1500)); }

int main(int argc, char** argv) {
    Args a = standard_init(argc, argv, "c16");
    Result& R = result();
    long cases = a.num("cases", 300);
    bool do_perturb = a.num("perturb", 1) != 0;
    tl_external = true;
    set_report_handler(on_report);
    set_point_observer(on_point);
    std::vector<int> ids = { 70, 71, 72, 73, 74, 58, 59, 60, 102, 61, 62, 1, 3 };
    Rng top(mix(R.seed, 0xC16));
    tbb::global_control gc(tbb::global_control::max_allowed_parallelism, 16);
    watchdog_start(WatchdogCfg{}, [&](const HangInfo& hi) {
        std::string d = "no progress for " + std::to_string(hi.stalled_for) + "s; threads: " + hi.threads.substr(0, 700);
        if (!hi.quiescent && !hi.spin_stall) { R.inconclusive++; fprintf(stderr, "[c16] inconclusive stall: %s\n", d.c_str()); R.finish_and_exit(4); }
        d += "; phase: " + std::string(g_phase.load()) + "; enqueued tasks not run: " + std::to_string(g_enqueued_not_run.load()) + "; latest market allotment grants nothing although a mandatory request is counted (known shape): " + std::to_string(g_market_undergrant_known_shape.load());
        // A scenario that only waits for its enqueued tasks while the market, by its own latest report, grants no worker in the shape of the
        // known accounting defect (mandatory request counted, no client able to use it) is that defect's consequence, not a new one.
        std::string key = hi.quiescent ? "c16.hang.quiescent" : "c16.hang.spin-stall";
        if (g_enqueued_not_run.load() > 0 && g_market_undergrant_known_shape.load()) key += ".enqueue-starved.market-grants-nothing-for-mandatory-request";
        R.violation(key, d, "{}");
        R.finish_and_exit(3);
    });
    for (long k = 0; k < cases; k++) {
        Rng r(top.next());
        if (do_perturb) perturb_random(r, ids);
        unsigned kind = (unsigned)r.below(10);
        if (kind < 6) {
            // ---- several arenas, external threads entering/leaving through execute / enqueue / nested arenas, isolation
            int na = 1 + (int)r.below(4);
            // "quiet" flavours (nothing is enqueued and no execute() can meet a full arena, i.e. no arena::enqueue_task at all - hook 74 stays
            // silent): 1 = limit 1 with at most as many application threads as the smallest arena has slots: no worker may execute anything;
            // 2 = one application thread and only (1,1) arenas: no worker may enter any of them. Isolated nested loops, whose waits skip the
            // outer level's tasks and re-advertise them ("wakeup" advertisements), are the work in both.
            int quiet = (int)r.pick(std::vector<int>{ 0, 0, 0, 0, 0, 0, 0, 1, 1, 2 });
            std::vector<std::unique_ptr<ArenaMon>> am; std::vector<std::unique_ptr<Obs>> obs; std::string shp;
            for (int i = 0; i < na; i++) {
                int c = (int)r.pick(std::vector<int>{ 1, 2, 2, 3, 4, 6, 8, 16 }); int rs = c == 1 ? (int)r.below(2) : (int)r.below(std::min(c - 1, 2) + 1);   // never (n,n), n>=2: no worker slot, enqueued work would legitimately wait
                if (quiet == 2) { c = 1; rs = 1; }
                if (quiet == 1) { c = (int)r.pick(std::vector<int>{ 2, 2, 3, 4, 8 }); rs = (int)r.below(2); }      // room for two or more application threads that steal from each other
                auto p = r.chance(1, 4) ? tbb::task_arena::priority::high : r.chance(1, 3) ? tbb::task_arena::priority::low : tbb::task_arena::priority::normal;
                am.emplace_back(new ArenaMon(c, rs, p)); obs.emplace_back(new Obs(am.back()->arena));
                shp += "(" + std::to_string(c) + "," + std::to_string(rs) + ")";
            }
            int nt = 1 + (int)r.below(8), ops = 3 + (int)r.below(10);
            size_t limv = 1 + r.below(8); if (r.chance(1, 3) || quiet == 1) limv = 1;
            std::unique_ptr<tbb::global_control> lim; if (r.chance(1, 4) || quiet == 1) lim.reset(new tbb::global_control(tbb::global_control::max_allowed_parallelism, limv));
            // under a limit of 1, half of the scenarios enqueue nothing: then no worker may take part at all
            bool no_enqueue = quiet || (lim && limv == 1 && r.chance(1, 2));
            if (quiet == 2) nt = 1;
            else if (no_enqueue) { if (quiet && nt < 2) nt = 2; for (auto& m : am) nt = std::min(nt, m->conc); }
            if (quiet) ops += 6;
            if (quiet) R.stat(quiet == 1 ? "quiet_scenarios_limit_1" : "quiet_scenarios_one_thread_arenas");
            const long ev0 = g_enqueue_events.load(); const long wk0 = g_quiet_wakeups.load(); if (quiet) g_quiet_active.store(1);
            if (no_enqueue && lim && limv == 1) { sleep_us(300); g_enq_at_scenario_start.store(g_enqueue_events.load()); g_no_worker_expected.store(1); R.stat("scenarios_under_limit_1_without_enqueue"); }
            struct NoW { bool on; ~NoW() { if (on) g_no_worker_expected.store(0); } } now_guard{ no_enqueue && lim && limv == 1 };
            std::vector<std::thread> th; uint64_t s0 = r.next(); std::atomic<long> enq_left{0};
            for (int t = 0; t < nt; t++) th.emplace_back([&, t] {
                tl_external = true; Rng tr(mix(s0, t));
                for (int i = 0; i < ops; i++) {
                    size_t mi = tr.below(am.size());
                    ArenaMon* m = am[mi].get();
                    unsigned what = (unsigned)tr.below(10); if (no_enqueue && what >= 5 && what < 7) what = 0;
                    uint64_t sd = tr.next();
                    if (what < 5) {
                        m->arena.execute([&, m, sd] {
                            // one application thread and (1,1) arenas: suspend and resume at once (the resume re-advertises the arena's work: a "wakeup"
                            // advertisement with nothing enqueued). Only there: nobody else can pick the stack up, and no monitor state is live across it.
                            if (quiet == 2 && (sd & 1)) { tbb::task::suspend([](tbb::task::suspend_point sp) { tbb::task::resume(sp); }); g_quiet_resumes.fetch_add(1, std::memory_order_relaxed); }
                            InBody ib(m, 0); Rng br(sd);
                            int n = 1 + (int)br.below(40); if (quiet) n += 24;
                            tbb::parallel_for(0, n, [&, m, sd](int j) { InBody b2(m, 0); Rng b(mix(sd, j)); spin_some(b);
                                if (b.chance(1, quiet ? 3 : 12)) {
                                    // isolated nested loop: the waiting thread may only pick up tasks of this scope
                                    long scope = g_scope_ids.fetch_add(1);
                                    tbb::this_task_arena::isolate([&, m, scope] { long prev = tl_exec_scope; tl_exec_scope = scope;
                                        tbb::parallel_for(0, 8 + (int)b.below(24), [m, scope](int) { InBody b3(m, scope); spin_iters(300); }, tbb::simple_partitioner());
                                        tl_exec_scope = prev; });
                                }
                            }, tbb::simple_partitioner());
                        });
                    } else if (what < 7) {
                        enq_left++; m->enq_pending++; g_enqueued_not_run++; m->ever_enqueued.store(true, std::memory_order_relaxed);
                        m->arena.enqueue([&, m, sd] { g_enqueued_not_run--; { InBody ib(m, 0); Rng br(sd); spin_some(br); } m->enq_pending--; enq_left--; });
                    } else if (what < 9 && mi + 1 < am.size()) {
                        // nested arenas only in increasing order: holding a slot of A while waiting for a slot of B and vice versa
                        // would be a lock-order inversion made by the harness
                        ArenaMon* m2 = am[mi + 1 + tr.below(am.size() - mi - 1)].get();
                        m->arena.execute([&, m, m2, sd] { InBody ib(m, 0); m2->arena.execute([&, m2, sd] { Rng br(sd); tbb::parallel_for(0, 6, [&, m2](int) { spin_iters(400); }, tbb::simple_partitioner()); }); });
                    } else {
                        tbb::affinity_partitioner ap;
                        m->arena.execute([&, m] { InBody ib(m, 0); for (int rep = 0; rep < 2; rep++) tbb::parallel_for(0, 32, [m](int) { InBody b2(m, 0); spin_iters(500); }, ap); });
                    }
                    progress();
                }
            });
            g_phase.store("arena scenario: application threads running");
            for (auto& t : th) t.join();
            g_phase.store("arena scenario: application threads joined, waiting for the enqueued tasks");
            while (enq_left.load() > 0) sched_yield();
            g_phase.store("between scenarios");
            R.scenarios++;
            if (quiet) { g_quiet_active.store(0); R.stat("wakeup_advertisements_in_quiet_scenarios", g_quiet_wakeups.load() - wk0); R.stat("suspend_resume_in_quiet_scenarios", g_quiet_resumes.exchange(0)); }
            if (quiet && g_enqueue_events.load() == ev0) { R.stat("quiet_scenarios_in_which_no_enqueue_task_happened"); long qb = 0; for (auto& m : am) qb += m->bodies.load(); R.stat("bodies_judged_by_the_no_worker_oracles", qb); }
            long bodies = 0; uint64_t h = std::hash<std::string>{}(shp); bool par = false;
            for (auto& m : am) { bodies += m->bodies.load(); h = mix(h, (uint64_t)m->max_inflight.load() * 64 + (uint64_t)(m->max_index.load() + 1)); if (m->max_inflight.load() >= 2) par = true; R.stat_max("max_inflight_vs_bound_pct", m->max_inflight.load() * 100 / m->conc); R.stat("reserved_slot_entries_by_external_threads", m->reserved_entries.load()); }
            R.stat("bodies", bodies);
            for (auto& o : obs) { R.stat("observer_entries", o->entries.load()); R.stat("observer_exits", o->exits.load()); }
            if (par) { R.nontrivial++; R.signature(h); }
            if (par && R.want_sample()) {
                Json j; j.obj(); j.kv("arenas(max_concurrency,reserved)", shp); j.kv("application_threads", nt); j.kv("ops_per_thread", ops);
                j.key("per_arena[max_in_flight,max_index,bodies,reserved_slot_entries]").arr(); for (auto& m : am) { j.arr(); j.val(m->max_inflight.load()); j.val(m->max_index.load()); j.val((long long)m->bodies.load()); j.val((long long)m->reserved_entries.load()); j.end_arr(); } j.end_arr();
                j.end_obj(); R.sample(j.s);
            }
            obs.clear(); am.clear();
        } else {
            // ---- steady regime under max_allowed_parallelism = L: at most L-1 workers inside bodies at once
            int L = 1 + (int)r.below(8);
            g_phase.store("steady budget regime");
            // Half of the regimes are set up by 2-4 threads that construct their global_control objects at the same moment (values
            // L..L+3, the smallest wins); the objects stay alive until the regime has been judged. The limit in force is L either way.
            int setters = r.chance(1, 2) ? 2 + (int)r.below(3) : 0;
            std::atomic<int> arrived{0}, constructed{0}; std::atomic<bool> go{false}, release{false};
            std::vector<std::thread> set_threads; uint64_t sseed = r.next();
            for (int k = 0; k < setters; k++) set_threads.emplace_back([&, k] {
                Rng sr(mix(sseed, k)); int v = k == (int)(sseed % (uint64_t)setters) ? L : L + 1 + (int)sr.below(3);
                arrived++; while (!go.load(std::memory_order_acquire)) { _mm_pause(); }
                spin_iters((unsigned)sr.below(300));
                tbb::global_control gk(tbb::global_control::max_allowed_parallelism, (size_t)v);
                constructed++;
                while (!release.load(std::memory_order_acquire)) sleep_us(200);
            });
            struct Rel { std::atomic<bool>& rel; std::vector<std::thread>& th; ~Rel() { rel.store(true); for (auto& t : th) t.join(); } } rel_guard{ release, set_threads };
            if (setters) { while (arrived.load() < setters) sched_yield(); go.store(true, std::memory_order_release); while (constructed.load() < setters) sched_yield(); R.stat("budget_regimes_set_up_by_concurrent_global_control_constructors"); }
            std::unique_ptr<tbb::global_control> g_single; if (!setters) g_single.reset(new tbb::global_control(tbb::global_control::max_allowed_parallelism, L));
            if (tbb::global_control::active_value(tbb::global_control::max_allowed_parallelism) != (size_t)L) fail("c16.global-control-active-value", "active_value(max_allowed_parallelism) is " + std::to_string(tbb::global_control::active_value(tbb::global_control::max_allowed_parallelism)) + " while the smallest live limit is " + std::to_string(L));
            sleep_us(1000);
            if (!drain_workers()) { R.stat("budget_regimes_skipped_not_drained"); R.scenarios++; progress(); continue; }   // not a steady regime: no verdict
            std::atomic<int> workers_in{0}, maxw{0}, all_in{0}, maxall{0};
            bool use_arena = r.chance(1, 2); tbb::task_arena A2(1 + (int)r.below(12));
            auto work = [&] { tbb::parallel_for(0, 600, [&](int) {
                bool isw = !tl_external; int x = all_in.fetch_add(1) + 1; int m = maxall.load(); while (x > m && !maxall.compare_exchange_weak(m, x)) {}
                if (isw) { int w = workers_in.fetch_add(1) + 1; int mw = maxw.load(); while (w > mw && !maxw.compare_exchange_weak(mw, w)) {} }
                spin_iters(500 + (unsigned)trng().below(4000));
                if (isw) workers_in.fetch_sub(1); all_in.fetch_sub(1); }, tbb::simple_partitioner()); };
            if (use_arena) A2.execute(work); else work();
            if (maxw.load() > std::max(L - 1, 0)) fail("c16.worker-budget", std::to_string(maxw.load()) + " workers ran bodies at once under max_allowed_parallelism=" + std::to_string(L));
            R.scenarios++; R.stat("budget_regimes"); R.stat_max("max_workers_minus_budget", maxw.load() - (L - 1));
            if (maxw.load() >= 1) { R.nontrivial++; R.signature(mix(0xB0D6, (uint64_t)L * 64 + maxw.load())); }
        }
        if (g_fails.load() > 5000) break;
        perturb().clear();
        progress();
    }
    watchdog_stop();
    {
        std::lock_guard<std::mutex> l(g_fm);
        for (auto& kv : g_failmap) R.violation(kv.first, kv.second.first + " (" + std::to_string(kv.second.second) + " occurrences in this process)", "{\"seed\":" + std::to_string(R.seed) + "}");
    }
    R.stat("allotment_reports_checked", g_allot_reports.load()); R.stat("serializer_reports_checked", g_serial_reports.load());
    { std::lock_guard<std::mutex> l(g_sig_m); R.stat("distinct_limit_demand_vectors", (long long)g_allot_sigs.size()); for (auto h : g_allot_sigs) R.signature(h); }
    // worker threads keep calling the report hooks while static objects (the checkers' maps) would be destroyed: leave
    // without running static destructors
    R.finish_and_exit(0);
}
