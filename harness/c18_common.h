// C18: block shadow (fill patterns, overlap map), wrappers around the allocator entry points, size tables.
#pragma once
#define TBB_PREVIEW_MEMORY_POOL 1
#include "c18_proc.h"
#include <oneapi/tbb/scalable_allocator.h>
#include <oneapi/tbb/memory_pool.h>
#include <climits>
#include <new>

namespace c18 {
using vrt::Rng; using vrt::mix; using vrt::Json;

constexpr size_t KB = 1024, MB = 1024 * 1024;
constexpr size_t kUnmappable = (size_t)1 << 47;     // no user mapping of this size exists on x86-64 Linux: a non-null result is wrong

// ------------------------------------------------------------------------------------------------ patterns
inline unsigned char pat(uint32_t id, size_t i) { return (unsigned char)(id * 167u + (uint32_t)i * 13u + 1u + (uint32_t)(i >> 8) * 7u); }
// positions of a block that carry its pattern: everything for small blocks, head + tail + scattered probes for big ones
// (big blocks are not touched page by page: the cases are about failure handling, not about bandwidth)
template <class F> inline void for_positions(size_t n, uint32_t id, F&& f) {
    if (n <= 16 * KB) { for (size_t i = 0; i < n; i++) f(i); return; }
    for (size_t i = 0; i < 4 * KB; i++) f(i);
    for (size_t i = n - 512; i < n; i++) f(i);
    uint64_t h = mix(id, n);
    int probes = n > 4 * MB ? 24 : 64;
    for (int k = 0; k < probes; k++) { h = mix(h, k); size_t i = 4 * KB + (size_t)(h % (n - 4 * KB - 512)); f(i); }
}
inline void fill(void* p, size_t n, uint32_t id) { unsigned char* b = (unsigned char*)p; for_positions(n, id, [&](size_t i) { b[i] = pat(id, i); }); }
// returns -1 if intact, else the first damaged offset; limit: only offsets < limit are compared (realloc keeps a prefix)
inline long first_damage(const void* p, size_t n, uint32_t id, size_t limit = SIZE_MAX) {
    const unsigned char* b = (const unsigned char*)p; long bad = -1;
    for_positions(n, id, [&](size_t i) { if (bad < 0 && i < limit && b[i] != pat(id, i)) bad = (long)i; });
    return bad;
}

// ------------------------------------------------------------------------------------------------ shadow of live blocks
struct Blk { unsigned char* p = nullptr; size_t n = 0; uint32_t id = 0; size_t align = 0; int pool = -1; /* -1: default allocator, else pool slot */ };

struct Shadow {                        // single-threaded classes: every block the harness owns, keyed by address
    std::map<uintptr_t, Blk> by_addr;
    std::vector<uintptr_t> order;      // for index-based random choice (swap-remove)
    uint32_t next_id = 1;
    size_t size() const { return order.size(); }
    // returns a description of a block overlapping [p,p+n), or ""
    std::string overlap(uintptr_t lo, uintptr_t hi) const {
        auto it = by_addr.lower_bound(lo);
        if (it != by_addr.end() && it->first < hi) return "block #" + std::to_string(it->second.id) + " at " + hexs(it->first) + "+" + std::to_string(it->second.n);
        if (it != by_addr.begin()) { --it; if (it->first + it->second.n > lo) return "block #" + std::to_string(it->second.id) + " at " + hexs(it->first) + "+" + std::to_string(it->second.n); }
        return "";
    }
    Blk& add(void* p, size_t n, size_t align, int pool) {
        Blk b; b.p = (unsigned char*)p; b.n = n; b.id = next_id++; b.align = align; b.pool = pool;
        order.push_back((uintptr_t)p);
        return by_addr[(uintptr_t)p] = b;
    }
    Blk take(size_t idx) {             // removes and returns the idx-th block
        uintptr_t a = order[idx]; order[idx] = order.back(); order.pop_back();
        Blk b = by_addr[a]; by_addr.erase(a); return b;
    }
    Blk& at(size_t idx) { return by_addr[order[idx]]; }
    void forget_pool(int pool) {       // pool_reset / pool_destroy: every block of that pool is gone by contract
        for (size_t i = 0; i < order.size();) { if (by_addr[order[i]].pool == pool) { by_addr.erase(order[i]); order[i] = order.back(); order.pop_back(); } else i++; }
    }
};
inline Shadow* g_shadow = nullptr;
inline uintptr_t g_exempt_block = 0;     // the block handed to a realloc in flight: the library may release its memory before it returns
struct Exempt { explicit Exempt(const void* p) { g_exempt_block = (uintptr_t)p; } ~Exempt() { g_exempt_block = 0; } };
inline bool shadow_overlap_cb(uintptr_t lo, uintptr_t hi, std::string* what) {
    if (!g_shadow) return false;
    // only blocks of the default allocator live in OS mappings made by libtbbmalloc itself
    auto it = g_shadow->by_addr.lower_bound(lo);
    for (int step = 0; step < 2; step++) {
        if (step == 1) { if (it == g_shadow->by_addr.begin()) break; --it; }
        if (it == g_shadow->by_addr.end()) continue;
        const Blk& b = it->second;
        if (b.pool < 0 && (uintptr_t)b.p != g_exempt_block && (uintptr_t)b.p < hi && (uintptr_t)b.p + b.n > lo) { *what = "block #" + std::to_string(b.id) + " at " + hexs((uintptr_t)b.p) + "+" + std::to_string(b.n); return true; }
    }
    return false;
}

// ------------------------------------------------------------------------------------------------ entry-point wrappers
// Each wrapper marks the thread as "inside the allocator" (mapping calls are counted / refused only then), starts from
// errno == 0 and reports what the call said.
struct Out { void* p = nullptr; int err = 0; int rc = 0; bool threw_bad_alloc = false, threw_other = false; };

#define C18_CALL(expr) ([&] { Out o_; errno = 0; { InCall ic_; o_.p = (expr); } o_.err = errno; return o_; }())
inline Out x_malloc(size_t n) { return C18_CALL(scalable_malloc(n)); }
inline Out x_calloc(size_t a, size_t b) { return C18_CALL(scalable_calloc(a, b)); }
inline Out x_realloc(void* p, size_t n) { return C18_CALL(scalable_realloc(p, n)); }
inline Out x_aligned_malloc(size_t n, size_t al) { return C18_CALL(scalable_aligned_malloc(n, al)); }
inline Out x_aligned_realloc(void* p, size_t n, size_t al) { return C18_CALL(scalable_aligned_realloc(p, n, al)); }
inline Out x_posix_memalign(size_t al, size_t n) { Out o; void* q = (void*)0x5A5A; errno = 0; { InCall ic; o.rc = scalable_posix_memalign(&q, al, n); } o.err = errno; o.p = o.rc == 0 ? q : nullptr; if (o.rc != 0 && q != (void*)0x5A5A) o.rc = -1000 - o.rc; /* wrote *memptr although it failed */ return o; }
inline void x_free(void* p) { InCall ic; scalable_free(p); }
inline void x_aligned_free(void* p) { InCall ic; scalable_aligned_free(p); }
inline size_t x_msize(void* p) { InCall ic; return scalable_msize(p); }
inline int x_command(int cmd) { InCall ic; return scalable_allocation_command(cmd, nullptr); }
template <class T> inline Out x_allocator(size_t n) {
    Out o; errno = 0;
    try { InCall ic; o.p = tbb::scalable_allocator<T>().allocate(n); }
    catch (const std::bad_alloc&) { o.threw_bad_alloc = true; }
    catch (...) { o.threw_other = true; }
    o.err = errno; return o;
}
inline Out x_pmr(size_t bytes, size_t al) {
    Out o; errno = 0;
    try { InCall ic; o.p = tbb::scalable_memory_resource()->allocate(bytes, al); }
    catch (const std::bad_alloc&) { o.threw_bad_alloc = true; }
    catch (...) { o.threw_other = true; }
    o.err = errno; return o;
}
inline Out xp_malloc(rml::MemoryPool* P, size_t n) { return C18_CALL(rml::pool_malloc(P, n)); }
inline Out xp_aligned_malloc(rml::MemoryPool* P, size_t n, size_t al) { return C18_CALL(rml::pool_aligned_malloc(P, n, al)); }
inline Out xp_realloc(rml::MemoryPool* P, void* p, size_t n) { return C18_CALL(rml::pool_realloc(P, p, n)); }
inline Out xp_aligned_realloc(rml::MemoryPool* P, void* p, size_t n, size_t al) { return C18_CALL(rml::pool_aligned_realloc(P, p, n, al)); }
inline bool xp_free(rml::MemoryPool* P, void* p) { InCall ic; return rml::pool_free(P, p); }
inline size_t xp_msize(rml::MemoryPool* P, void* p) { InCall ic; return rml::pool_msize(P, p); }
inline rml::MemoryPool* xp_identify(void* p) { InCall ic; return rml::pool_identify(p); }

inline bool pow2(size_t a) { return a && !(a & (a - 1)); }
inline std::string szs(size_t v) {                      // readable size: exact, with 2^k / SIZE_MAX-d forms
    char b[48];
    if (v > SIZE_MAX - 70000) snprintf(b, sizeof b, "SIZE_MAX-%zu", SIZE_MAX - v);
    else if (v >= ((size_t)1 << 20) && pow2(v)) snprintf(b, sizeof b, "2^%d", __builtin_ctzl(v));
    else if (v >= ((size_t)1 << 20) && pow2(v - 1)) snprintf(b, sizeof b, "2^%d+1", __builtin_ctzl(v - 1));
    else if (v >= ((size_t)1 << 20) && pow2(v + 1)) snprintf(b, sizeof b, "2^%d-1", __builtin_ctzl(v + 1));
    else snprintf(b, sizeof b, "%zu", v);
    return b;
}

} // namespace c18
