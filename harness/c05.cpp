// C05: parallel loops apply the body exactly once to every element, in legal chunks.
//
// Scenario classes (the letter is the class part of the violation keys c05.<class>.<what>):
//   R  parallel_for over blocked_range<V> (V = int, unsigned, long long, size_t, short, unsigned char, pointer), all four
//      partitioners + the default, with and without a user context; sizes 0..2^16 with per-element counters, and "huge"
//      ranges (> 2^24, > 2^32, up to 2^63, ending at the type's maximum) checked by the chunk list alone
//   T  parallel_for over a user-defined Range that records every split request (with / without proportional splitting)
//   N  blocked_range2d / blocked_range3d / blocked_nd_range (cell counters for small shapes, box oracle for large ones)
//   S  the (first,last[,step],f) overloads over seven integer types incl. the type edges
//   E  parallel_for_each over random-access / forward / input iterators and containers, with feeder-added items
//      (copyable and move-only)
//   I  parallel_invoke with 2..10 functors
//   B  documented chunk-size bounds (simple: [ceil(g/2), g]; auto, affinity: >= g/2; static: >= g/3)
// Every loop runs inside a hot arena of concurrency 1..16 shared by 1-3 driving threads (and optionally nested in an
// outer loop); chunks are logged per thread and swept after the call returned.
#define VRT_IMPL
#include "vrt_tbb.h"
#include <oneapi/tbb.h>
#include <oneapi/tbb/blocked_nd_range.h>
#include <memory>
#include <list>
#include <forward_list>
#include <limits>
#include <stdexcept>
#include <condition_variable>
#if VRT_ASAN
#include <sanitizer/lsan_interface.h>
#endif

using namespace vrt;
typedef __int128 i128;
typedef unsigned __int128 u128;

// ------------------------------------------------------------------------------------------------ small helpers
static std::string s128(i128 v) {
    if (v == 0) return "0";
    bool neg = v < 0; u128 u = neg ? (u128)(-(v + 1)) + 1 : (u128)v; std::string s;
    while (u) { s += (char)('0' + (int)(u % 10)); u /= 10; }
    if (neg) s += '-';
    std::reverse(s.begin(), s.end()); return s;
}

// dense ids for the threads that run bodies (per-thread chunk logs are indexed by them); ids of exited threads are re-used
struct TidPool { std::mutex m; std::vector<int> free_; int next = 0; };
static TidPool* g_tids = new TidPool();          // leaked on purpose: worker threads may outlive static destructors
struct TidHolder {
    int id;
    TidHolder() { std::lock_guard<std::mutex> l(g_tids->m); if (!g_tids->free_.empty()) { id = g_tids->free_.back(); g_tids->free_.pop_back(); } else id = g_tids->next++; }
    ~TidHolder() { std::lock_guard<std::mutex> l(g_tids->m); g_tids->free_.push_back(id); }
};
static inline int body_tid() { static thread_local TidHolder h; return h.id; }

struct Chunk { i128 lo, hi; int thr; };           // offsets relative to the begin of the iteration space
struct Box { long long lo[4], hi[4]; int thr; };

template <class Rec> struct Logs {
    static const int MAXT = 64;
    std::vector<Rec> per[MAXT];
    std::mutex om; std::vector<Rec> overflow;
    void add(Rec r) {
        static thread_local unsigned calls = 0; if ((++calls & 63) == 0) progress();     // a body ran: the loop is alive
        int t = body_tid(); r.thr = t;
        if (t < MAXT) per[t].push_back(r); else { std::lock_guard<std::mutex> l(om); overflow.push_back(r); }
    }
    std::vector<Rec> merged() {
        size_t n = overflow.size(); for (auto& p : per) n += p.size();
        std::vector<Rec> v; v.reserve(n);
        for (auto& p : per) v.insert(v.end(), p.begin(), p.end());
        v.insert(v.end(), overflow.begin(), overflow.end());
        return v;
    }
};
struct ThreadSet {                                 // which threads ran bodies (for constructs without a chunk log)
    std::atomic<uint64_t> bits{0};
    void mark() { static thread_local unsigned calls = 0; if ((++calls & 63) == 0) progress(); int t = body_tid(); uint64_t b = 1ull << (t & 63); if (!(bits.load(std::memory_order_relaxed) & b)) bits.fetch_or(b, std::memory_order_relaxed); }
    int count() const { return __builtin_popcountll(bits.load()); }
};

enum { P_SIMPLE = 0, P_AUTO = 1, P_STATIC = 2, P_AFFINITY = 3, P_DEFAULT = 4 };
static const char* part_name[] = { "simple", "auto", "static", "affinity", "default(auto)" };

struct PartPool {            // affinity partitioners are re-used across loops (and arenas) but never by two loops at once
    static const int N = 12;
    tbb::affinity_partitioner ap[N]; std::atomic<bool> busy[N];
    PartPool() { for (auto& b : busy) b.store(false); }
    int acquire(uint64_t h) { for (int i = 0; i < N; i++) { int j = (int)((h + i) % N); bool e = false; if (busy[j].compare_exchange_strong(e, true)) return j; } return -1; }
    void release(int j) { busy[j].store(false); }
};
static PartPool* g_pool;

// runs parallel_for with the requested partitioner; returns the partitioner actually used
template <class Range, class Body>
static int pfor(const Range& rg, const Body& body, int part, bool with_ctx, uint64_t h) {
    tbb::task_group_context ctx;
    switch (part) {
    case P_SIMPLE: if (with_ctx) tbb::parallel_for(rg, body, tbb::simple_partitioner(), ctx); else tbb::parallel_for(rg, body, tbb::simple_partitioner()); return P_SIMPLE;
    case P_AUTO: if (with_ctx) tbb::parallel_for(rg, body, tbb::auto_partitioner(), ctx); else tbb::parallel_for(rg, body, tbb::auto_partitioner()); return P_AUTO;
    case P_STATIC: if (with_ctx) tbb::parallel_for(rg, body, tbb::static_partitioner(), ctx); else tbb::parallel_for(rg, body, tbb::static_partitioner()); return P_STATIC;
    case P_AFFINITY: {
        int slot = g_pool->acquire(h);
        if (slot >= 0) {
            struct Rel { int s; ~Rel() { g_pool->release(s); } } rel{ slot };
            if (with_ctx) tbb::parallel_for(rg, body, g_pool->ap[slot], ctx); else tbb::parallel_for(rg, body, g_pool->ap[slot]);
            return P_AFFINITY;
        }
    }   // fall through: no free affinity partitioner
    default: if (with_ctx) tbb::parallel_for(rg, body, ctx); else tbb::parallel_for(rg, body); return P_DEFAULT;
    }
}

// ------------------------------------------------------------------------------------------------ scenario description
struct Tally {
    std::atomic<long long> by_class[8], chunks{0}, elements{0}, multi_thread{0}, nested{0}, huge{0}, edge{0}, feeder_items{0}, axis_collision_cases{0}, affinity_below_half{0};
    std::atomic<long long> by_part[5], by_part_multi[5];
    std::atomic<long long> max_chunks{0}, max_depth{0}, max_threads{0};
    Tally() { for (auto& c : by_class) c = 0; for (auto& c : by_part) c = 0; for (auto& c : by_part_multi) c = 0; }
    static void amax(std::atomic<long long>& a, long long v) { long long c = a.load(std::memory_order_relaxed); while (v > c && !a.compare_exchange_weak(c, v)) {} }
};
static Tally g_t;
enum { C_R = 0, C_T, C_N, C_S, C_E, C_I, C_NEST };
static const char* class_name[] = { "R", "T", "N", "S", "E", "I", "nest" };

struct Scn {
    uint64_t seed = 0; int cls = 0; int part = 0; bool ctx = false; int work = 0; int P = 0; bool nested = false; bool asan = false, edges = true, axis_edge = false;
    Rng r{1};
    // filled by the runner for reporting
    std::string what; Json desc;
    // outcome
    bool failed = false; int threads = 0; uint64_t sig = 0; size_t nchunks = 0;
    std::string sample;
    int caller = -1; mutable std::atomic<int> slow_calls{0};     // work mode 5: the thread that called the algorithm is slow in its first leaves
    explicit Scn(uint64_t sd) : seed(sd), r(sd) { desc.obj(); }
    std::string describe() { Json j = desc; j.kv("seed", (unsigned long long)seed); j.kv("class", class_name[cls]); j.kv("partitioner", part_name[part]); j.kv("arena_concurrency", P); j.kv("with_context", ctx); j.kv("nested", nested); j.kv("work", work); j.end_obj(); return j.s; }
    void fail(const std::string& key, const std::string& detail) {
        if (failed) return; failed = true;
        result().violation(key, what + ": " + detail, describe());
    }
    // a recorded finding that fires in many scenarios: list the first few per process, count the rest (the result file
    // keeps at most 40 violations and must not fill up with repeats); checking of the scenario goes on
    void repeated_finding(const std::string& key, const std::string& detail, std::atomic<long long>& counter) {
        if (counter.fetch_add(1, std::memory_order_relaxed) < 3) result().violation(key, what + ": " + detail, describe());
    }
};

// per-chunk body work: makes the owner slow / the thieves slow in different patterns so that the steal pattern varies
static inline void chunk_work(const Scn& s, uint64_t salt) {
    if (!s.work) return;
    uint64_t h = mix(s.seed, salt);
    switch (s.work) {
    case 1: if ((h & 7) == 0) spin_iters((unsigned)((h >> 8) % 3000)); break;
    case 2: if (salt == 0) spin_iters(2000 + (unsigned)((h >> 8) % 20000)); break;       // whoever gets the first chunk is slow
    case 3: if ((h & 15) == 0) sched_yield(); else if ((h & 15) == 1) spin_iters((unsigned)((h >> 8) % 1500)); break;
    case 5:
        // the calling thread dawdles in its first leaves while everybody else is fast and hungry: every piece it offers is stolen before it
        // finishes the next leaf, so its task keeps answering steal demands and its range pool (8 slots, circular) fills, wraps and deepens
        if (body_tid() == s.caller && s.slow_calls.fetch_add(1, std::memory_order_relaxed) < 28) sleep_us(40 + (unsigned)((h >> 8) % 260));
        break;
    default: spin_iters((unsigned)((h >> 8) % 200)); break;
    }
}

// ------------------------------------------------------------------------------------------------ 1-d oracle
// v: all chunks the body was given, as offsets into [0,n). g: grainsize. part: partitioner actually used.
static void check_1d(Scn& s, std::vector<Chunk>& v, u128 n, u128 g, int part, const char* K) {
    std::string k = std::string("c05.") + K + ".";
    s.nchunks = v.size();
    if (n == 0) { if (!v.empty()) s.fail(k + "body-called-on-empty-range", "body called " + std::to_string(v.size()) + " times for an empty range"); return; }
    std::sort(v.begin(), v.end(), [](const Chunk& a, const Chunk& b) { return a.lo < b.lo || (a.lo == b.lo && a.hi < b.hi); });
    i128 cur = 0; u128 minsz = ~(u128)0, maxpair = 0, prev = 0;
    for (size_t i = 0; i < v.size(); i++) {
        const Chunk& c = v[i];
        if (!(c.lo < c.hi)) { s.fail(k + "empty-chunk", "body received the empty chunk [" + s128(c.lo) + "," + s128(c.hi) + ")"); return; }
        if (c.lo < 0 || c.hi > (i128)n) { s.fail(k + "chunk-outside-range", "chunk [" + s128(c.lo) + "," + s128(c.hi) + ") is not inside [0," + s128((i128)n) + ")"); return; }
        if (c.lo < cur) { s.fail(k + "chunks-overlap", "chunk [" + s128(c.lo) + "," + s128(c.hi) + ") overlaps the previous one ending at " + s128(cur)); return; }
        if (c.lo > cur) { s.fail(k + "range-not-covered", "no chunk covers [" + s128(cur) + "," + s128(c.lo) + ")"); return; }
        cur = c.hi;
        u128 sz = (u128)(c.hi - c.lo);
        if (sz < minsz) minsz = sz;
        if (i && prev + sz > maxpair) maxpair = prev + sz;
        prev = sz;
    }
    if (cur != (i128)n) { s.fail(k + "range-not-covered", "chunks end at " + s128(cur) + ", range ends at " + s128((i128)n) + " (" + std::to_string(v.size()) + " chunks)"); return; }
    // a range is divisible iff size > grainsize; pieces of a split are leaves of a binary tree whose inner nodes are all divisible
    if (n <= g && v.size() != 1) { s.fail(k + "nondivisible-range-split", "size " + s128((i128)n) + " <= grainsize " + s128((i128)g) + " but the body saw " + std::to_string(v.size()) + " chunks"); return; }
    if (v.size() > 1 && maxpair <= g) { s.fail(k + "nondivisible-range-split", "no two adjacent chunks add up to more than the grainsize " + s128((i128)g) + ": some split was applied to a non-divisible range"); return; }
    if (v.size() > 1 || n > g) {
        u128 half_up = (g + 1) / 2, third_dn = g / 3;
        for (auto& c : v) {
            u128 sz = (u128)(c.hi - c.lo);
            std::string cs = "chunk [" + s128(c.lo) + "," + s128(c.hi) + ") of size " + s128((i128)sz) + ", grainsize " + s128((i128)g) + ", range size " + s128((i128)n);
            if (part == P_SIMPLE) {
                if (sz > g) { s.fail("c05.B.simple-chunk-above-grain", cs); return; }
                if (sz < half_up) { s.fail("c05.B.simple-chunk-below-half-grain", cs); return; }
            } else if (part == P_AUTO || part == P_DEFAULT) {
                if (sz < half_up) { s.fail("c05.B.auto-chunk-below-half-grain", cs); return; }
            } else if (part == P_AFFINITY) {
                if (sz < half_up) { s.repeated_finding("c05.B.affinity-chunk-below-half-grain", cs + " (documented: g/2 <= chunksize)", g_t.affinity_below_half); break; }
            } else if (part == P_STATIC) {
                // blocked_range computes proportional splits in 32-bit floating point (documented in its source as inexact
                // above 2^24 iterations): allow the rounding error of four split levels (2^-20 of the chunk) for such ranges
                u128 slack = n > ((u128)1 << 22) ? (sz >> 20) + 2 : 0;
                if (sz + slack < third_dn) { s.fail("c05.B.static-chunk-below-third-grain", cs); return; }
            }
        }
    }
    // evidence: which threads, chunk-set shape, depth
    std::map<int, int> norm; uint64_t h = mix((uint64_t)n, (uint64_t)g); h = mix(h, (uint64_t)part * 64 + s.P);
    for (auto& c : v) { auto it = norm.find(c.thr); if (it == norm.end()) it = norm.emplace(c.thr, (int)norm.size()).first; h = mix(h, (uint64_t)c.lo * 31 + it->second); }
    s.threads = (int)norm.size(); s.sig = h;
    if (minsz && n / minsz) { int d = 0; u128 q = n / minsz; while (q > 1) { q >>= 1; d++; } Tally::amax(g_t.max_depth, d); }
    if (result().want_sample() && s.threads >= 2 && v.size() >= 4 && v.size() <= 4000) {
        Json j; j.obj(); j.kv("class", K); j.kv("what", s.what); j.kv("partitioner", part_name[s.part]); j.kv("arena_concurrency", s.P); j.kv("size", s128((i128)n)); j.kv("grainsize", s128((i128)g));
        j.kv("chunks", (unsigned long long)v.size()); j.kv("threads", s.threads);
        j.key("first_chunks[lo,hi,thread]").arr(); for (size_t i = 0; i < std::min<size_t>(v.size(), 10); i++) { j.arr(); j.val(s128(v[i].lo)); j.val(s128(v[i].hi)); j.val(norm[v[i].thr]); j.end_arr(); } j.end_arr();
        j.end_obj(); s.sample = j.s;
    }
}

// ------------------------------------------------------------------------------------------------ class R: blocked_range<V>
template <class V> struct VName;
#define VNAME(T, S) template <> struct VName<T> { static const char* name() { return S; } }
VNAME(int, "int"); VNAME(unsigned, "unsigned"); VNAME(long long, "long long"); VNAME(unsigned long, "size_t"); VNAME(short, "short");
VNAME(unsigned char, "unsigned char"); VNAME(unsigned short, "unsigned short"); VNAME(long, "long"); VNAME(std::atomic<uint8_t>*, "pointer");
template <class V> static inline i128 vdiff(V a, V b) { return (i128)a - (i128)b; }
template <class T> static inline i128 vdiff(T* a, T* b) { return (i128)(a - b); }

template <class V>
static void run_blocked(Scn& s, V b0, V e0, u128 n, size_t g, std::atomic<uint8_t>* cnt /* may be null */) {
    Logs<Chunk> logs; std::atomic<int> flags{0};
    s.what = std::string("parallel_for(blocked_range<") + VName<V>::name() + ">, " + part_name[s.part] + ")";
    s.desc.kv("value_type", VName<V>::name()); s.desc.kv("begin", s128(vdiff(b0, V()))); s.desc.kv("size", s128((i128)n)); s.desc.kv("grainsize", (unsigned long long)g); s.desc.kv("element_counters", cnt != nullptr);
    auto body = [&](const tbb::blocked_range<V>& r) {
        i128 lo = vdiff(r.begin(), b0), hi = vdiff(r.end(), b0);
        if (r.empty()) flags.fetch_or(1, std::memory_order_relaxed);
        if (r.grainsize() != g) flags.fetch_or(2, std::memory_order_relaxed);
        logs.add(Chunk{ lo, hi, 0 });
        if (cnt && lo >= 0 && hi <= (i128)n && lo < hi)
            for (V i = r.begin(); i < r.end(); ++i) cnt[(size_t)vdiff(i, b0)].fetch_add(1, std::memory_order_relaxed);
        chunk_work(s, (uint64_t)lo);
    };
    int part = pfor(tbb::blocked_range<V>(b0, e0, g), body, s.part, s.ctx, s.seed);
    s.part = part;
    std::vector<Chunk> v = logs.merged();
    if (flags.load() & 2) { s.fail("c05.R.chunk-grainsize-changed", "a subrange reported a grainsize different from " + std::to_string(g)); return; }
    check_1d(s, v, n, g, part, "R");
    if (s.failed) return;
    if (flags.load() & 1) { s.fail("c05.R.empty-chunk", "a subrange with empty()==true was passed to the body"); return; }
    if (cnt) {
        for (size_t i = 0; i < (size_t)n; i++) { int c = cnt[i].load(std::memory_order_relaxed); if (c != 1) { s.fail("c05.R.element-visit-count", "element at offset " + std::to_string(i) + " visited " + std::to_string(c) + " times"); return; } }
        g_t.elements.fetch_add((long long)n, std::memory_order_relaxed);
    }
}

static const unsigned kPrimes[] = { 2, 3, 5, 7, 11, 13, 17, 31, 61, 97, 127, 251, 499, 509, 1021, 4099, 8191, 65521 };
static uint64_t pick_size(Rng& r, uint64_t cap) {
    uint64_t n;
    switch (r.below(12)) {
    case 0: n = r.below(4); break;
    case 1: case 2: n = 4 + r.below(60); break;
    case 3: n = kPrimes[r.below(sizeof kPrimes / sizeof kPrimes[0])]; break;
    case 4: case 5: { uint64_t b = 1ull << (1 + r.below(16)); n = b + r.below(3) - 1; break; }
    case 6: case 7: n = r.below(700); break;
    case 8: case 9: n = r.below(5000); break;
    case 10: n = 1000 + r.below(30000); break;
    default: n = r.chance(1, 4) ? 30000 + r.below(36000) : 100 + r.below(2000); break;
    }
    return std::min(n, cap);
}
static uint64_t pick_grain(Rng& r, uint64_t n) {
    uint64_t g;
    switch (r.below(14)) {
    case 0: case 1: g = 1; break;
    case 2: g = 2; break;
    case 3: g = 3; break;
    case 4: g = 7; break;
    case 5: g = n > 1 ? n - 1 : 1; break;
    case 6: g = n ? n : 1; break;
    case 7: g = n + 1; break;
    case 8: g = r.chance(1, 2) ? (1ull << 40) : (~0ull >> 1); break;
    case 9: g = n / 2 + r.below(2); break;
    case 10: g = n / 3; break;
    case 11: g = n / 7 + 1; break;
    default: g = 1 + r.below(n + 1); break;
    }
    return g ? g : 1;
}
static void limit_chunks(int part, uint64_t n, uint64_t& g, uint64_t maxchunks) {     // keeps the chunk log of one loop bounded
    (void)part; if (n / g > maxchunks) g = n / maxchunks + 1;
}

template <class V> static void scen_blocked_small(Scn& s) {
    const uint64_t tmax = (uint64_t)std::numeric_limits<V>::max();
    uint64_t cap = std::min<uint64_t>(tmax, 65536);
    if (std::numeric_limits<V>::is_signed == false && sizeof(V) == 1) cap = 255;
    uint64_t n = pick_size(s.r, cap), g = pick_grain(s.r, n);
    limit_chunks(s.part, n, g, 20000);
    V b0;
    switch (s.r.below(4)) {
    case 0: b0 = (V)0; break;
    case 1: b0 = (V)(tmax - n); break;                                                               // the range ends at the type's maximum
    case 2: b0 = std::numeric_limits<V>::is_signed ? (V)(-(long long)(n / 2)) : (V)((tmax - n) / 2); break;   // straddles zero
    default: b0 = (V)s.r.below(tmax - n + 1); break;
    }
    V e0 = (V)(b0 + (V)n);
    std::unique_ptr<std::atomic<uint8_t>[]> cnt(new std::atomic<uint8_t>[n + 1]());
    run_blocked<V>(s, b0, e0, n, (size_t)g, cnt.get());
}
// slow caller + adaptive partitioner: a range deep enough (2^18..2^22 elements, grainsize 1-2) for one task to answer many steal demands in
// a row - its circular range pool wraps and deepens. Chunk-list oracle only (the number of chunks follows the steals, not n/g).
static void scen_blocked_deep(Scn& s) {
    uint64_t n = (1ull << 18) + s.r.below((1ull << 22) - (1ull << 18)), g = 1 + s.r.below(2);
    unsigned long b0 = s.r.chance(1, 2) ? 0ul : (unsigned long)s.r.below(1ull << 40);
    run_blocked<unsigned long>(s, b0, b0 + n, n, (size_t)g, nullptr);
}
static void scen_blocked_pointer(Scn& s) {
    uint64_t n = pick_size(s.r, 65536), g = pick_grain(s.r, n);
    limit_chunks(s.part, n, g, 20000);
    std::unique_ptr<std::atomic<uint8_t>[]> cnt(new std::atomic<uint8_t>[n + 1]());
    run_blocked<std::atomic<uint8_t>*>(s, cnt.get(), cnt.get() + n, n, (size_t)g, cnt.get());
}
// ranges that cannot be enumerated: > 2^24 (float arithmetic of the proportional split), > 2^32, up to the type's width
template <class V> static void scen_blocked_huge(Scn& s) {
    const u128 tmax = (u128)std::numeric_limits<V>::max();
    const bool sgn = std::numeric_limits<V>::is_signed;
    int bits = (int)(sizeof(V) * 8) - (sgn ? 1 : 0);
    u128 n;
    switch (s.r.below(6)) {
    case 0: n = ((u128)1 << 24) + s.r.below(5) - 2; break;
    case 1: n = ((u128)1 << (25 + s.r.below(bits - 25))) + s.r.below(3) - 1; break;
    case 2: n = tmax; break;
    case 3: n = tmax - s.r.below(1000); break;
    case 4: n = ((u128)1 << 24) + s.r.below(1u << 24); break;
    default: n = (u128)s.r.next() % (tmax - (1 << 24)) + (1 << 24); break;
    }
    if (n > tmax) n = tmax;
    uint64_t n64 = (uint64_t)n, g;
    switch (s.r.below(7)) {
    case 0: g = n64 / (2 + s.r.below(5000)) + 1; break;
    case 1: g = n64 / 4097; break;
    case 2: g = n64 / 2 + s.r.below(2); break;
    case 3: g = n64 - 1; break;
    case 4: g = n64; break;
    case 5: g = n64 / 3; break;
    default: g = n64 / (1 + s.r.below(64)) + s.r.below(3); break;
    }
    if (!g) g = 1;
    limit_chunks(s.part, n64, g, 8192);
    V b0;
    switch (s.r.below(3)) {
    case 0: b0 = (V)(tmax - n); break;                        // ends at the maximum of the type
    case 1: b0 = sgn ? (V)(-(i128)(n / 2)) : (V)0; break;
    default: b0 = (V)((u128)s.r.next() % (tmax - n + 1)); break;
    }
    V e0 = (V)((i128)b0 + (i128)n);
    g_t.huge.fetch_add(1, std::memory_order_relaxed);
    run_blocked<V>(s, b0, e0, n, (size_t)g, nullptr);
}

// ------------------------------------------------------------------------------------------------ class T: user-defined range
struct TraceShared { size_t grain; std::atomic<long> splits{0}, psplits{0}, bad_nondiv{0}, bad_empty{0}, bad_prop{0}; uint64_t bad_lo = 0, bad_hi = 0; };
template <bool Prop> struct TraceRange {
    uint64_t b, e; TraceShared* sh;
    TraceRange(uint64_t b_, uint64_t e_, TraceShared* s_) : b(b_), e(e_), sh(s_) {}
    TraceRange(const TraceRange&) = default;
    bool empty() const { return !(b < e); }
    bool is_divisible() const { return e - b > sh->grain; }
    void note(TraceRange& r) {
        if (r.empty()) sh->bad_empty.fetch_add(1, std::memory_order_relaxed);
        else if (!r.is_divisible()) { if (sh->bad_nondiv.fetch_add(1, std::memory_order_relaxed) == 0) { sh->bad_lo = r.b; sh->bad_hi = r.e; } }
    }
    TraceRange(TraceRange& r, tbb::split) : b(0), e(r.e), sh(r.sh) {
        note(r); sh->splits.fetch_add(1, std::memory_order_relaxed);
        uint64_t mid = r.b + (r.e - r.b) / 2; b = mid; r.e = mid;
    }
    template <bool Q = Prop, class = typename std::enable_if<Q>::type>
    TraceRange(TraceRange& r, tbb::proportional_split& p) : b(0), e(r.e), sh(r.sh) {
        note(r); sh->psplits.fetch_add(1, std::memory_order_relaxed);
        if (p.left() == 0 || p.right() == 0) sh->bad_prop.fetch_add(1, std::memory_order_relaxed);
        uint64_t size = r.e - r.b;
        uint64_t right = (uint64_t)(((u128)size * p.right() + (p.left() + p.right()) / 2) / (p.left() + p.right() ? p.left() + p.right() : 1));
        if (size >= 2) { if (right < 1) right = 1; if (right > size - 1) right = size - 1; }   // a legal Range never produces an empty half
        b = r.e - right; r.e = b;
    }
};
template <bool Prop> static void scen_trace(Scn& s) {
    uint64_t n = s.r.chance(1, 12) ? (1ull << (20 + s.r.below(43))) + s.r.below(1000) : pick_size(s.r, 65536), g = pick_grain(s.r, n);
    limit_chunks(s.part, n, g, 8192);
    uint64_t b0 = s.r.chance(1, 3) ? 0 : s.r.below(~0ull - n);
    if (s.r.chance(1, 6)) b0 = ~0ull - n;
    TraceShared sh; sh.grain = (size_t)g;
    Logs<Chunk> logs;
    s.what = std::string("parallel_for(user range ") + (Prop ? "with" : "without") + " proportional split, " + part_name[s.part] + ")";
    s.desc.kv("begin", (unsigned long long)b0); s.desc.kv("size", (unsigned long long)n); s.desc.kv("grainsize", (unsigned long long)g);
    auto body = [&](const TraceRange<Prop>& r) { logs.add(Chunk{ (i128)r.b - (i128)b0, (i128)r.e - (i128)b0, 0 }); chunk_work(s, r.b - b0); };
    s.part = pfor(TraceRange<Prop>(b0, b0 + n, &sh), body, s.part, s.ctx, s.seed);
    if (sh.bad_empty.load()) { s.fail("c05.T.empty-range-split", "the splitting constructor was applied to an empty range " + std::to_string(sh.bad_empty.load()) + " times"); return; }
    if (sh.bad_nondiv.load()) { s.fail("c05.T.nondivisible-range-split", "the splitting constructor was applied to [" + std::to_string(sh.bad_lo - b0) + "," + std::to_string(sh.bad_hi - b0) + ") whose is_divisible() is false (grainsize " + std::to_string(g) + "); " + std::to_string(sh.bad_nondiv.load()) + " such splits"); return; }
    if (sh.bad_prop.load()) { s.fail("c05.T.proportional-split-zero-side", "a proportional_split with a zero side was passed to the range"); return; }
    std::vector<Chunk> v = logs.merged();
    // the bounds of class B describe blocked_range; the user range rounds proportions its own way, so only the structure is checked
    check_1d(s, v, n, g, s.part == P_SIMPLE ? P_SIMPLE : -1, "T");
    if (!s.failed && n && (long)v.size() != sh.splits.load() + sh.psplits.load() + 1)
        s.fail("c05.T.chunks-vs-splits", std::to_string(v.size()) + " chunks reached the body but " + std::to_string(sh.splits.load() + sh.psplits.load()) + " splits were made");
}

// ------------------------------------------------------------------------------------------------ class N: 2d / 3d / nd
struct Dims { int D; long long b[4]; unsigned long long n[4]; size_t g[4]; };
template <class Rg> struct Nd;
template <class RV, class CV> struct Nd<tbb::blocked_range2d<RV, CV>> {
    typedef tbb::blocked_range2d<RV, CV> R; static const int D = 2; static const char* name() { return "blocked_range2d"; }
    static R make(const Dims& d) { return R((RV)d.b[0], (RV)(d.b[0] + (long long)d.n[0]), d.g[0], (CV)d.b[1], (CV)(d.b[1] + (long long)d.n[1]), d.g[1]); }
    static void get(const R& r, Box& x, bool& anyempty) { x.lo[0] = (long long)r.rows().begin(); x.hi[0] = (long long)r.rows().end(); x.lo[1] = (long long)r.cols().begin(); x.hi[1] = (long long)r.cols().end(); anyempty = r.rows().empty() || r.cols().empty() || r.empty(); }
};
template <class V> struct Nd<tbb::blocked_range3d<V>> {
    typedef tbb::blocked_range3d<V> R; static const int D = 3; static const char* name() { return "blocked_range3d"; }
    static R make(const Dims& d) { return R((V)d.b[0], (V)(d.b[0] + (long long)d.n[0]), d.g[0], (V)d.b[1], (V)(d.b[1] + (long long)d.n[1]), d.g[1], (V)d.b[2], (V)(d.b[2] + (long long)d.n[2]), d.g[2]); }
    static void get(const R& r, Box& x, bool& anyempty) {
        x.lo[0] = (long long)r.pages().begin(); x.hi[0] = (long long)r.pages().end(); x.lo[1] = (long long)r.rows().begin(); x.hi[1] = (long long)r.rows().end(); x.lo[2] = (long long)r.cols().begin(); x.hi[2] = (long long)r.cols().end();
        anyempty = r.pages().empty() || r.rows().empty() || r.cols().empty() || r.empty();
    }
};
template <class V> struct Nd<tbb::blocked_nd_range<V, 4>> {
    typedef tbb::blocked_nd_range<V, 4> R; static const int D = 4; static const char* name() { return "blocked_nd_range<4>"; }
    static tbb::blocked_range<V> dim(const Dims& d, int i) { return tbb::blocked_range<V>((V)d.b[i], (V)(d.b[i] + (long long)d.n[i]), d.g[i]); }
    static R make(const Dims& d) { return R(dim(d, 0), dim(d, 1), dim(d, 2), dim(d, 3)); }
    static void get(const R& r, Box& x, bool& anyempty) { anyempty = r.empty(); for (int i = 0; i < 4; i++) { x.lo[i] = (long long)r.dim(i).begin(); x.hi[i] = (long long)r.dim(i).end(); if (r.dim(i).empty()) anyempty = true; } }
};
template <class V> struct Nd<tbb::blocked_nd_range<V, 2>> {
    typedef tbb::blocked_nd_range<V, 2> R; static const int D = 2; static const char* name() { return "blocked_nd_range<2>"; }
    static tbb::blocked_range<V> dim(const Dims& d, int i) { return tbb::blocked_range<V>((V)d.b[i], (V)(d.b[i] + (long long)d.n[i]), d.g[i]); }
    static R make(const Dims& d) { return R(dim(d, 0), dim(d, 1)); }
    static void get(const R& r, Box& x, bool& anyempty) { anyempty = r.empty(); for (int i = 0; i < 2; i++) { x.lo[i] = (long long)r.dim(i).begin(); x.hi[i] = (long long)r.dim(i).end(); if (r.dim(i).empty()) anyempty = true; } }
};

template <class Rg> static void run_nd(Scn& s, const Dims& d, bool cells) {
    typedef Nd<Rg> A; const int D = A::D;
    u128 total = 1; bool empty = false, divisible = false;
    for (int i = 0; i < D; i++) { total *= d.n[i]; if (!d.n[i]) empty = true; if (d.n[i] > d.g[i]) divisible = true; }
    if (empty) total = 0;
    s.what = std::string("parallel_for(") + A::name() + ", " + part_name[s.part] + ")";
    s.desc.key("dims[begin,size,grain]").arr(); for (int i = 0; i < D; i++) { s.desc.arr(); s.desc.val(d.b[i]); s.desc.val(d.n[i]); s.desc.val((unsigned long long)d.g[i]); s.desc.end_arr(); } s.desc.end_arr();
    std::unique_ptr<std::atomic<uint8_t>[]> cnt;
    if (cells) cnt.reset(new std::atomic<uint8_t>[(size_t)total + 1]());
    Logs<Box> logs; std::atomic<int> flags{0};
    auto body = [&](const Rg& r) {
        Box x{}; bool anyempty = false; A::get(r, x, anyempty);
        if (anyempty) flags.fetch_or(1, std::memory_order_relaxed);
        logs.add(x);
        bool inside = true; for (int i = 0; i < D; i++) if (x.lo[i] < d.b[i] || x.hi[i] > d.b[i] + (long long)d.n[i] || x.lo[i] >= x.hi[i]) inside = false;
        if (cells && inside) {
            long long idx[4];
            for (idx[0] = x.lo[0]; idx[0] < x.hi[0]; idx[0]++) for (idx[1] = x.lo[1]; idx[1] < x.hi[1]; idx[1]++) {
                if (D == 2) { cnt[(size_t)((idx[0] - d.b[0]) * (long long)d.n[1] + (idx[1] - d.b[1]))].fetch_add(1, std::memory_order_relaxed); continue; }
                for (idx[2] = x.lo[2]; idx[2] < x.hi[2]; idx[2]++) {
                    size_t base = (size_t)(((idx[0] - d.b[0]) * (long long)d.n[1] + (idx[1] - d.b[1])) * (long long)d.n[2] + (idx[2] - d.b[2]));
                    if (D == 3) { cnt[base].fetch_add(1, std::memory_order_relaxed); continue; }
                    for (idx[3] = x.lo[3]; idx[3] < x.hi[3]; idx[3]++) cnt[base * (size_t)d.n[3] + (size_t)(idx[3] - d.b[3])].fetch_add(1, std::memory_order_relaxed);
                }
            }
        }
        chunk_work(s, (uint64_t)(x.lo[0] - d.b[0]) * 131 + (uint64_t)(x.lo[1] - d.b[1]));
    };
    s.part = pfor(A::make(d), body, s.part, s.ctx, s.seed);
    std::vector<Box> v = logs.merged();
    s.nchunks = v.size();
    auto bs = [&](const Box& x) { std::string o = "{"; for (int i = 0; i < D; i++) o += (i ? " x [" : "[") + std::to_string(x.lo[i]) + "," + std::to_string(x.hi[i]) + ")"; return o + "}"; };
    if (empty) { if (!v.empty()) s.fail("c05.N.body-called-on-empty-range", "body called " + std::to_string(v.size()) + " times although one dimension is empty"); return; }
    u128 vol = 0;
    for (auto& x : v) {
        u128 bv = 1;
        for (int i = 0; i < D; i++) {
            if (!(x.lo[i] < x.hi[i])) { s.fail("c05.N.empty-chunk", "body received a subrange that is empty in dimension " + std::to_string(i) + ": " + bs(x)); return; }
            if (x.lo[i] < d.b[i] || x.hi[i] > d.b[i] + (long long)d.n[i]) { s.fail("c05.N.chunk-outside-range", "subrange " + bs(x) + " leaves the iteration space in dimension " + std::to_string(i)); return; }
            bv *= (u128)(x.hi[i] - x.lo[i]);
        }
        vol += bv;
    }
    if (flags.load() & 1) { s.fail("c05.N.empty-chunk", "a subrange with empty()==true was passed to the body"); return; }
    if (cells) {
        for (size_t i = 0; i < (size_t)total; i++) { int c = cnt[i].load(std::memory_order_relaxed); if (c != 1) { s.fail("c05.N.cell-visit-count", "cell with linear index " + std::to_string(i) + " visited " + std::to_string(c) + " times"); return; } }
        g_t.elements.fetch_add((long long)total, std::memory_order_relaxed);
    } else {
        for (size_t i = 0; i < v.size(); i++) for (size_t j = i + 1; j < v.size(); j++) {
            bool ov = true; for (int k = 0; k < D; k++) if (v[i].hi[k] <= v[j].lo[k] || v[j].hi[k] <= v[i].lo[k]) { ov = false; break; }
            if (ov) { s.fail("c05.N.chunks-overlap", "subranges " + bs(v[i]) + " and " + bs(v[j]) + " overlap"); return; }
        }
    }
    if (vol != total) { s.fail("c05.N.volume-mismatch", "the subranges cover " + s128((i128)vol) + " cells, the iteration space has " + s128((i128)total)); return; }
    if (!divisible && v.size() != 1) { s.fail("c05.N.nondivisible-range-split", "no dimension is divisible but the body saw " + std::to_string(v.size()) + " subranges"); return; }
    // an axis whose size does not exceed its grainsize is a non-divisible blocked_range: it must come through unsplit
    for (auto& x : v) for (int i = 0; i < D; i++) if (d.n[i] <= d.g[i] && (unsigned long long)(x.hi[i] - x.lo[i]) != d.n[i]) {
        s.fail("c05.N.nondivisible-axis-split", "dimension " + std::to_string(i) + " has size " + std::to_string(d.n[i]) + " <= grainsize " + std::to_string(d.g[i]) + " but subrange " + bs(x) + " holds only a part of it"); return; }
    if (s.part == P_SIMPLE) for (auto& x : v) for (int i = 0; i < D; i++) if ((unsigned long long)(x.hi[i] - x.lo[i]) > d.g[i]) {
        s.fail("c05.B.simple-chunk-still-divisible", "simple_partitioner passed " + bs(x) + " to the body although dimension " + std::to_string(i) + " exceeds its grainsize " + std::to_string(d.g[i])); return; }
    std::sort(v.begin(), v.end(), [D](const Box& a, const Box& b) { for (int i = 0; i < D; i++) if (a.lo[i] != b.lo[i]) return a.lo[i] < b.lo[i]; return false; });
    std::map<int, int> norm; uint64_t h = mix((uint64_t)total, (uint64_t)s.part * 64 + s.P);
    for (auto& x : v) { auto it = norm.find(x.thr); if (it == norm.end()) it = norm.emplace(x.thr, (int)norm.size()).first; h = mix(h, (uint64_t)x.lo[0] * 1315423911u + (uint64_t)x.lo[1] * 31 + (uint64_t)x.hi[D - 1] * 7 + it->second); }
    s.threads = (int)norm.size(); s.sig = h;
    if (result().want_sample() && s.threads >= 2 && v.size() >= 4 && s.r.chance(1, 8)) {
        Json j; j.obj(); j.kv("class", "N"); j.kv("what", s.what); j.kv("arena_concurrency", s.P); j.kv("chunks", (unsigned long long)v.size()); j.kv("threads", s.threads);
        j.key("first_chunks").arr(); for (size_t i = 0; i < std::min<size_t>(v.size(), 8); i++) j.val(bs(v[i]) + "@t" + std::to_string(norm[v[i].thr])); j.end_arr(); j.end_obj(); s.sample = j.s;
    }
}
static size_t nd_grain(Rng& r, unsigned long long n) { unsigned k = (unsigned)r.below(8); return k < 3 ? 1 : k < 5 ? 1 + (size_t)r.below(4) : k == 5 ? (size_t)(n ? n : 1) : k == 6 ? (size_t)(n + 1) : 1 + (size_t)r.below(n + 1); }
template <class Rg> static void scen_nd_small(Scn& s) {
    const int D = Nd<Rg>::D; Dims d{}; d.D = D;
    unsigned lim = D == 2 ? 48 : D == 3 ? 14 : 8;
    for (int i = 0; i < D; i++) { d.n[i] = s.r.chance(1, 25) ? 0 : s.r.chance(1, 8) ? 1 : s.r.below(lim + 1); d.b[i] = (long long)s.r.below(7) - 3; d.g[i] = nd_grain(s.r, d.n[i]); }
    if (D == 2 && s.r.chance(1, 10)) { d.n[0] = 1 + s.r.below(3); d.n[1] = 200 + s.r.below(3000); }
    run_nd<Rg>(s, d, true);
}
// large shapes (no enumeration): box oracle. Dimension sizes up to 2^40 (3d) / 2^61 (2d); grains keep the chunk count small.
template <class Rg> static void scen_nd_large(Scn& s, bool sgn) {
    const int D = Nd<Rg>::D; Dims d{}; d.D = D;
    int maxbits = D == 2 ? 52 : D == 3 ? 40 : 30;        // below 2^53: the axis choice of do_split (double products) is exact
    unsigned pieces = D == 2 ? 24 : D == 3 ? 9 : 5;
    for (int i = 0; i < D; i++) {
        d.n[i] = s.r.chance(1, 6) ? 1 + s.r.below(5) : (1ull << (10 + s.r.below(maxbits - 10))) + s.r.below(1000);
        d.g[i] = (size_t)(d.n[i] / (1 + s.r.below(pieces)) + s.r.below(2)); if (!d.g[i]) d.g[i] = 1;
        if (s.r.chance(1, 8)) d.g[i] = (size_t)d.n[i] + (size_t)s.r.below(2);
        d.b[i] = sgn && s.r.chance(1, 2) ? -(long long)(d.n[i] / 2) : (long long)s.r.below(1000);
    }
    g_t.huge.fetch_add(1, std::memory_order_relaxed);
    run_nd<Rg>(s, d, false);
}
// axis sizes/grains above 2^53 whose size*grain products tie in double arithmetic: do_split must still pick a divisible
// axis (exactly one axis is divisible here, so exactly that one may be cut: known repaired defect e95a65c)
template <class Rg> static void scen_axis_collision(Scn& s) {
    const int D = Nd<Rg>::D; Dims d{}; d.D = D;
    int k = 54 + (int)s.r.below(8);
    int divisible_axis = (int)s.r.below(D);
    for (int i = 0; i < D; i++) { d.g[i] = (size_t)1 << k; d.n[i] = (1ull << k) + (i == divisible_axis ? 1 + s.r.below(3) : 0); d.b[i] = 0; }
    // (volumes beyond 2^128 wrap identically on both sides of the volume comparison)
    if (D >= 3) for (int i = 0; i < D; i++) if (i != divisible_axis && s.r.chance(1, 3)) { d.n[i] = 1 + s.r.below(3); d.g[i] = (size_t)d.n[i] + (size_t)s.r.below(2); }
    g_t.axis_collision_cases.fetch_add(1, std::memory_order_relaxed);
    run_nd<Rg>(s, d, false);
}

// ------------------------------------------------------------------------------------------------ class S: (first, last, step, f)
template <class I> static void scen_strided(Scn& s) {
    const bool sgn = std::numeric_limits<I>::is_signed;
    const i128 mx = (i128)std::numeric_limits<I>::max(), mn = (i128)std::numeric_limits<I>::min();
    i128 first, last, step;
    bool edge = s.edges && s.r.chance(1, 4);
    uint64_t n_target = pick_size(s.r, s.r.chance(1, 10) ? 40000 : 3000);
    if (!edge) {
        step = 1 + (i128)s.r.below(s.r.chance(1, 3) ? 1 : 50);
        i128 span_max = sgn ? mx : mx;                                  // last - first must be representable in I
        if ((i128)n_target * step > span_max) n_target = (uint64_t)(span_max / step);
        i128 span = (i128)n_target * step - (n_target ? (i128)s.r.below((uint64_t)step) : 0);      // last need not be first + k*step
        if (span < 0) span = 0;
        switch (s.r.below(3)) {
        case 0: first = sgn ? -(i128)s.r.below(100) : (i128)s.r.below(100); break;
        case 1: first = sgn ? mn + (i128)s.r.below(100) : 0; break;
        default: first = mx - span - step - (i128)s.r.below(50); break;                            // close to, but last + step stays representable
        }
        if (first < mn) first = mn;
        if (first + span + step > mx) first = mx - span - step;
        if (first < mn) { first = 0; span = std::min<i128>(span, mx - step); }
        last = first + span;
        if (s.r.chance(1, 30)) { last = first - (sgn ? (i128)s.r.below(5) : 0); if (last < mn) last = mn; }   // empty space (first >= last)
    } else {
        // type edges (rel/dbg only): last at the maximum, first at the minimum, steps up to half the type
        g_t.edge.fetch_add(1, std::memory_order_relaxed);
        step = s.r.chance(1, 2) ? mx / 2 + 1 : (s.r.chance(1, 2) ? (i128)1 + (i128)s.r.below(50) : mx / (1 + (i128)s.r.below(3000)) + 1);
        if (step > mx) step = mx;
        i128 span = std::min<i128>((i128)n_target * step, sgn ? mx : mx);
        if (s.r.chance(1, 2)) { last = mx; first = last - span; if (first < (sgn ? 0 : 0) && s.r.chance(1, 2)) first = 0; if (first < mn) first = mn; if (last - first > mx) first = last - mx; }
        else { first = mn; last = first + span; if (last > mx) last = mx; if (last - first > mx) last = first + mx; }
    }
    i128 n = first < last ? (last - first + step - 1) / step : 0;
    if (n > 70000) { step = (last - first) / 60000 + 1; n = (last - first + step - 1) / step; }
    bool short_form = (step == 1) && s.r.chance(1, 2);
    s.what = std::string("parallel_for(") + VName<I>::name() + " first, last" + (short_form ? "" : ", step") + ", f, " + part_name[s.part] + (s.ctx ? ", context)" : ")");
    s.desc.kv("index_type", VName<I>::name()); s.desc.kv("first", s128(first)); s.desc.kv("last", s128(last)); s.desc.kv("step", s128(step)); s.desc.kv("expected_calls", s128(n)); s.desc.kv("type_edge", edge);
    std::unique_ptr<std::atomic<uint8_t>[]> cnt(new std::atomic<uint8_t>[(size_t)n + 1]());
    std::atomic<int> flags{0}; std::atomic<long long> bad_index{0}; ThreadSet ts;
    I f0 = (I)first, l0 = (I)last, st = (I)step;
    if (!(step > 0 && step <= mx && first >= mn && first <= mx && last >= mn && last <= mx && last - first <= mx)) { fprintf(stderr, "[c05] generator bug: %s first=%s last=%s step=%s\n", VName<I>::name(), s128(first).c_str(), s128(last).c_str(), s128(step).c_str()); abort(); }
    auto f = [&](I k) {
        i128 off = (i128)k - first;
        if (off < 0 || (i128)k >= last || off % step) { if (!(flags.fetch_or(1, std::memory_order_relaxed) & 1)) bad_index.store((long long)k, std::memory_order_relaxed); return; }
        size_t idx = (size_t)(off / step);
        cnt[idx].fetch_add(1, std::memory_order_relaxed);
        if ((idx & 63) == 0) { ts.mark(); chunk_work(s, idx); }
    };
    tbb::task_group_context ctx;
    int part = s.part; int slot = -1;
    if (part == P_AFFINITY) { slot = g_pool->acquire(s.seed); if (slot < 0) part = P_DEFAULT; }
    struct Rel { int sl; ~Rel() { if (sl >= 0) g_pool->release(sl); } } rel{ slot };
#define CALL(...) do { if (short_form) { if (s.ctx) tbb::parallel_for(f0, l0, f, ##__VA_ARGS__, ctx); else tbb::parallel_for(f0, l0, f, ##__VA_ARGS__); } \
                       else { if (s.ctx) tbb::parallel_for(f0, l0, st, f, ##__VA_ARGS__, ctx); else tbb::parallel_for(f0, l0, st, f, ##__VA_ARGS__); } } while (0)
    switch (part) {
    case P_SIMPLE: CALL(tbb::simple_partitioner()); break;
    case P_AUTO: CALL(tbb::auto_partitioner()); break;
    case P_STATIC: CALL(tbb::static_partitioner()); break;
    case P_AFFINITY: CALL(g_pool->ap[slot]); break;
    default: if (short_form) { if (s.ctx) tbb::parallel_for(f0, l0, f, ctx); else tbb::parallel_for(f0, l0, f); } else { if (s.ctx) tbb::parallel_for(f0, l0, st, f, ctx); else tbb::parallel_for(f0, l0, st, f); } break;
    }
#undef CALL
    s.part = part;
    if (flags.load() & 1) { s.fail(n ? "c05.S.index-outside-space" : "c05.S.body-called-on-empty-space", "f was called with index " + std::to_string(bad_index.load()) + " which is not first + k*step inside [first,last)"); return; }
    for (size_t i = 0; i < (size_t)n; i++) { int c = cnt[i].load(std::memory_order_relaxed); if (c != 1) { s.fail("c05.S.index-visit-count", "index first + " + std::to_string(i) + "*step was passed to f " + std::to_string(c) + " times"); return; } }
    g_t.elements.fetch_add((long long)n, std::memory_order_relaxed);
    s.threads = ts.count(); s.sig = mix(mix((uint64_t)n, (uint64_t)step), mix(ts.bits.load(), (uint64_t)part * 64 + s.P));
}

// ------------------------------------------------------------------------------------------------ class E: parallel_for_each
struct EState {
    int n0 = 0, limit = 0; std::unique_ptr<std::atomic<uint8_t>[]> cnt; std::atomic<int> next{0}; std::atomic<int> flags{0}; std::atomic<long long> bad{0}; ThreadSet ts;
    uint64_t seed = 0; int fanout = 0; const Scn* s = nullptr;
    // body side: item id arrived. returns the number of children this item should feed
    int visit(long long id, uint64_t tag) {
        if (id < 0 || id >= limit || tag != mix(seed, (uint64_t)id)) { if (!(flags.fetch_or(1) & 1)) bad.store(id); return 0; }
        cnt[(size_t)id].fetch_add(1, std::memory_order_relaxed);
        ts.mark(); chunk_work(*s, (uint64_t)id);
        if (!fanout) return 0;
        uint64_t h = mix(seed ^ 0xfeed, (uint64_t)id);
        return (int)(h % 3 == 0 ? (h >> 8) % (unsigned)(fanout + 1) : 0);
    }
    int claim() { int id = next.fetch_add(1, std::memory_order_relaxed); if (id >= limit) { next.fetch_sub(1, std::memory_order_relaxed); return -1; } return id; }
};
struct CItem { long long id; uint64_t tag; };                        // copyable
struct MItem {                                                       // move-only
    long long id; uint64_t tag; std::unique_ptr<int> p;
    MItem(long long i, uint64_t t) : id(i), tag(t), p(new int((int)i)) {}
    MItem(MItem&& o) noexcept : id(o.id), tag(o.tag), p(std::move(o.p)) { o.id = -7; o.tag = 0; }
    MItem& operator=(MItem&&) = delete; MItem(const MItem&) = delete;
};
struct BodyPlain { EState* e; void operator()(const CItem& it) const { e->visit(it.id, it.tag); } };
struct BodyFeedC { EState* e; void operator()(CItem& it, tbb::feeder<CItem>& f) const {
    int k = e->visit(it.id, it.tag);
    for (int i = 0; i < k; i++) { int id = e->claim(); if (id < 0) break; CItem c{ id, mix(e->seed, (uint64_t)id) }; if (i & 1) f.add(c); else f.add(std::move(c)); } } };
struct BodyFeedCV { EState* e; void operator()(CItem it, tbb::feeder<CItem>& f) const {               // item by value
    int k = e->visit(it.id, it.tag);
    for (int i = 0; i < k; i++) { int id = e->claim(); if (id < 0) break; f.add(CItem{ id, mix(e->seed, (uint64_t)id) }); } } };
struct BodyFeedM { EState* e; void operator()(MItem& it, tbb::feeder<MItem>& f) const {
    bool ok = it.p && *it.p == (int)it.id;
    int k = e->visit(ok ? it.id : -1, it.tag);
    for (int i = 0; i < k; i++) { int id = e->claim(); if (id < 0) break; f.add(MItem(id, mix(e->seed, (uint64_t)id))); } } };
// single-pass input iterator producing items by value
struct InIt {
    typedef std::input_iterator_tag iterator_category; typedef CItem value_type; typedef std::ptrdiff_t difference_type; typedef const CItem* pointer; typedef CItem reference;
    long long i; uint64_t seed;
    CItem operator*() const { return CItem{ i, mix(seed, (uint64_t)i) }; }
    InIt& operator++() { ++i; return *this; } InIt operator++(int) { InIt t = *this; ++i; return t; }
    bool operator==(const InIt& o) const { return i == o.i; } bool operator!=(const InIt& o) const { return i != o.i; }
};
static void scen_for_each(Scn& s) {
    EState e; e.s = &s; e.seed = s.seed;
    e.n0 = (int)(s.r.chance(1, 12) ? s.r.below(3) : s.r.chance(1, 6) ? 200 + s.r.below(3000) : s.r.below(300));
    int form = (int)s.r.below(10);
    bool feeds = form >= 4;
    e.fanout = feeds ? 1 + (int)s.r.below(4) : 0;
    e.limit = e.n0 + (feeds ? (int)s.r.below(400) : 0);
    e.next.store(e.n0);
    e.cnt.reset(new std::atomic<uint8_t>[(size_t)e.limit + 1]());
    static const char* forms[] = { "vector/no feeder", "list/no feeder", "input iterator/no feeder", "const container/no feeder", "vector+feeder", "forward_list+feeder", "list container+feeder(by value)",
                                   "input iterator+feeder", "move-only vector+feeder", "move-only list+feeder" };
    s.what = std::string("parallel_for_each(") + forms[form] + ")";
    s.desc.kv("form", forms[form]); s.desc.kv("initial_items", e.n0); s.desc.kv("item_limit", e.limit); s.desc.kv("fanout", e.fanout);
    auto mk = [&](int i) { return CItem{ i, mix(s.seed, (uint64_t)i) }; };
    tbb::task_group_context ctx;
    switch (form) {
    case 0: { std::vector<CItem> c; for (int i = 0; i < e.n0; i++) c.push_back(mk(i)); if (s.ctx) tbb::parallel_for_each(c.begin(), c.end(), BodyPlain{ &e }, ctx); else tbb::parallel_for_each(c.begin(), c.end(), BodyPlain{ &e }); break; }
    case 1: { std::list<CItem> c; for (int i = 0; i < e.n0; i++) c.push_back(mk(i)); if (s.ctx) tbb::parallel_for_each(c.begin(), c.end(), BodyPlain{ &e }, ctx); else tbb::parallel_for_each(c.begin(), c.end(), BodyPlain{ &e }); break; }
    case 2: { InIt a{ 0, s.seed }, b{ e.n0, s.seed }; if (s.ctx) tbb::parallel_for_each(a, b, BodyPlain{ &e }, ctx); else tbb::parallel_for_each(a, b, BodyPlain{ &e }); break; }
    case 3: { std::vector<CItem> c; for (int i = 0; i < e.n0; i++) c.push_back(mk(i)); const std::vector<CItem>& cc = c; if (s.ctx) tbb::parallel_for_each(cc, BodyPlain{ &e }, ctx); else tbb::parallel_for_each(cc, BodyPlain{ &e }); break; }
    case 4: { std::vector<CItem> c; for (int i = 0; i < e.n0; i++) c.push_back(mk(i)); if (s.ctx) tbb::parallel_for_each(c.begin(), c.end(), BodyFeedC{ &e }, ctx); else tbb::parallel_for_each(c.begin(), c.end(), BodyFeedC{ &e }); break; }
    case 5: { std::forward_list<CItem> c; for (int i = e.n0 - 1; i >= 0; i--) c.push_front(mk(i)); if (s.ctx) tbb::parallel_for_each(c.begin(), c.end(), BodyFeedC{ &e }, ctx); else tbb::parallel_for_each(c.begin(), c.end(), BodyFeedC{ &e }); break; }
    case 6: { std::list<CItem> c; for (int i = 0; i < e.n0; i++) c.push_back(mk(i)); if (s.ctx) tbb::parallel_for_each(c, BodyFeedCV{ &e }, ctx); else tbb::parallel_for_each(c, BodyFeedCV{ &e }); break; }
    case 7: { InIt a{ 0, s.seed }, b{ e.n0, s.seed }; if (s.ctx) tbb::parallel_for_each(a, b, BodyFeedCV{ &e }, ctx); else tbb::parallel_for_each(a, b, BodyFeedCV{ &e }); break; }
    case 8: { std::vector<MItem> c; for (int i = 0; i < e.n0; i++) c.emplace_back(i, mix(s.seed, (uint64_t)i)); if (s.ctx) tbb::parallel_for_each(c.begin(), c.end(), BodyFeedM{ &e }, ctx); else tbb::parallel_for_each(c.begin(), c.end(), BodyFeedM{ &e }); break; }
    default: { std::list<MItem> c; for (int i = 0; i < e.n0; i++) c.emplace_back(i, mix(s.seed, (uint64_t)i)); if (s.ctx) tbb::parallel_for_each(c, BodyFeedM{ &e }, ctx); else tbb::parallel_for_each(c, BodyFeedM{ &e }); break; }
    }
    int total = std::min(e.next.load(), e.limit);
    if (e.flags.load() & 1) { s.fail("c05.E.phantom-item", "the body received an item that was never supplied (id " + std::to_string(e.bad.load()) + ", or a damaged / moved-from item)"); return; }
    for (int i = 0; i < e.limit; i++) {
        int c = e.cnt[(size_t)i].load(std::memory_order_relaxed), want = i < total ? 1 : 0;
        if (c != want) { s.fail(want ? "c05.E.item-visit-count" : "c05.E.phantom-item", std::string(i < e.n0 ? "initial" : "feeder-added") + " item " + std::to_string(i) + " was processed " + std::to_string(c) + " times (expected " + std::to_string(want) + "; " + std::to_string(e.n0) + " initial, " + std::to_string(total - e.n0) + " fed)"); return; }
    }
    g_t.elements.fetch_add(total, std::memory_order_relaxed); g_t.feeder_items.fetch_add(total - e.n0, std::memory_order_relaxed);
    s.threads = e.ts.count(); s.sig = mix(mix((uint64_t)total, (uint64_t)form), mix(e.ts.bits.load(), (uint64_t)s.P));
    s.part = P_DEFAULT;
}

// ------------------------------------------------------------------------------------------------ class I: parallel_invoke
struct IState { std::atomic<int> cnt[10]; std::atomic<int> thr[10]; ThreadSet ts; const Scn* s; };
struct IFn { IState* st; int k; void operator()() const { st->cnt[k].fetch_add(1, std::memory_order_relaxed); st->thr[k].store(body_tid(), std::memory_order_relaxed); st->ts.mark(); chunk_work(*st->s, (uint64_t)k); } };
template <size_t... Is> static void invoke_n(IState& st, bool with_ctx, std::index_sequence<Is...>) {
    if (with_ctx) { tbb::task_group_context ctx; tbb::parallel_invoke(IFn{ &st, (int)Is }..., ctx); } else tbb::parallel_invoke(IFn{ &st, (int)Is }...);
}
static void scen_invoke(Scn& s) {
    IState st; st.s = &s; for (auto& c : st.cnt) c.store(0); for (auto& c : st.thr) c.store(-1);
    int n = 2 + (int)s.r.below(9);
    s.what = "parallel_invoke(" + std::to_string(n) + " functors)"; s.desc.kv("functors", n);
    switch (n) {
    case 2: invoke_n(st, s.ctx, std::make_index_sequence<2>()); break; case 3: invoke_n(st, s.ctx, std::make_index_sequence<3>()); break;
    case 4: invoke_n(st, s.ctx, std::make_index_sequence<4>()); break; case 5: invoke_n(st, s.ctx, std::make_index_sequence<5>()); break;
    case 6: invoke_n(st, s.ctx, std::make_index_sequence<6>()); break; case 7: invoke_n(st, s.ctx, std::make_index_sequence<7>()); break;
    case 8: invoke_n(st, s.ctx, std::make_index_sequence<8>()); break; case 9: invoke_n(st, s.ctx, std::make_index_sequence<9>()); break;
    default: invoke_n(st, s.ctx, std::make_index_sequence<10>()); break;
    }
    uint64_t h = mix((uint64_t)n, (uint64_t)s.P); std::map<int, int> norm;
    for (int i = 0; i < 10; i++) {
        int c = st.cnt[i].load(), want = i < n ? 1 : 0;
        if (c != want) { s.fail("c05.I.functor-run-count", "functor " + std::to_string(i) + " of " + std::to_string(n) + " ran " + std::to_string(c) + " times"); return; }
        if (i < n) { int t = st.thr[i].load(); auto it = norm.find(t); if (it == norm.end()) it = norm.emplace(t, (int)norm.size()).first; h = mix(h, (uint64_t)it->second); }
    }
    s.threads = (int)norm.size(); s.sig = h; s.part = P_DEFAULT;
}

// ------------------------------------------------------------------------------------------------ dispatch
struct Cfg { bool asan = false, edges = true, axis_edge = false; int only_class = -1; int only_part = -1; };
static Cfg g_cfg;

static void account(Scn& s) {
    Result& R = result();
    R.scenarios++;
    g_t.by_class[s.cls].fetch_add(1, std::memory_order_relaxed);
    if (s.part >= 0 && s.part < 5) g_t.by_part[s.part].fetch_add(1, std::memory_order_relaxed);
    g_t.chunks.fetch_add((long long)s.nchunks, std::memory_order_relaxed);
    Tally::amax(g_t.max_chunks, (long long)s.nchunks); Tally::amax(g_t.max_threads, s.threads);
    if (s.nested) g_t.nested.fetch_add(1, std::memory_order_relaxed);
    if (!s.failed && s.threads >= 2) {
        R.nontrivial++; R.signature(mix(s.sig, (uint64_t)s.cls));
        g_t.multi_thread.fetch_add(1, std::memory_order_relaxed);
        if (s.part >= 0 && s.part < 5) g_t.by_part_multi[s.part].fetch_add(1, std::memory_order_relaxed);
        if (!s.sample.empty()) R.sample(s.sample);
    }
    progress();
}

static void run_leaf(Scn& s) {
    s.P = tbb::this_task_arena::max_concurrency();
    s.caller = body_tid();
    unsigned x = (unsigned)s.r.below(100);
    if (g_cfg.only_class >= 0) { static const unsigned at[] = { 0, 40, 48, 64, 78, 94 }; x = at[g_cfg.only_class]; }
    if (x < 40) {
        s.cls = C_R;
        unsigned t = (unsigned)s.r.below(s.asan ? 22 : 26);
        if (s.work == 5 && (s.part == P_AUTO || s.part == P_AFFINITY || s.part == P_DEFAULT) && s.r.chance(3, 4)) scen_blocked_deep(s);
        else if (t < 5) scen_blocked_small<int>(s); else if (t < 8) scen_blocked_small<unsigned>(s); else if (t < 11) scen_blocked_small<long long>(s);
        else if (t < 14) scen_blocked_small<unsigned long>(s); else if (t < 16) scen_blocked_small<short>(s); else if (t < 18) scen_blocked_small<unsigned char>(s);
        else if (t < 20) scen_blocked_pointer(s);
        else if (t < 22) scen_blocked_huge<unsigned long>(s); else if (t < 24) scen_blocked_huge<long long>(s); else scen_blocked_huge<unsigned>(s);
    } else if (x < 48) {
        s.cls = C_T; if (s.r.chance(1, 2)) scen_trace<true>(s); else scen_trace<false>(s);
    } else if (x < 64) {
        s.cls = C_N;
        unsigned t = (unsigned)s.r.below(20);
        if (s.axis_edge && t == 19) {
            switch (s.r.below(3)) { case 0: scen_axis_collision<tbb::blocked_range2d<long long, unsigned long>>(s); break; case 1: scen_axis_collision<tbb::blocked_range3d<long long>>(s); break; default: scen_axis_collision<tbb::blocked_nd_range<long long, 2>>(s); break; }
        }
        else if (t < 6) scen_nd_small<tbb::blocked_range2d<int, int>>(s); else if (t < 10) scen_nd_small<tbb::blocked_range3d<int>>(s); else if (t < 13) scen_nd_small<tbb::blocked_nd_range<int, 4>>(s);
        else if (t < 15) scen_nd_large<tbb::blocked_range2d<long long, unsigned long>>(s, false); else if (t < 17) scen_nd_large<tbb::blocked_range3d<long long>>(s, true);
        else scen_nd_large<tbb::blocked_nd_range<long long, 2>>(s, true);
    } else if (x < 78) {
        s.cls = C_S;
        switch (s.r.below(7)) {
        case 0: scen_strided<int>(s); break; case 1: scen_strided<unsigned>(s); break; case 2: scen_strided<long>(s); break; case 3: scen_strided<unsigned long>(s); break;
        case 4: scen_strided<short>(s); break; case 5: scen_strided<unsigned short>(s); break; default: scen_strided<long long>(s); break;
        }
    } else if (x < 94) { s.cls = C_E; scen_for_each(s); }
    else { s.cls = C_I; scen_invoke(s); }
    account(s);
}

static void init_scn(Scn& s) {
    s.part = g_cfg.only_part >= 0 ? g_cfg.only_part : (int)s.r.below(5);
    s.ctx = s.r.chance(1, 5);
    s.work = (int)s.r.below(7); if (s.work > 5) s.work = 0;
    s.asan = g_cfg.asan; s.edges = g_cfg.edges; s.axis_edge = g_cfg.axis_edge;
}

// one top-level scenario: a leaf, or an outer loop whose bodies run independent leaves (inner loops start on threads
// that already have tasks of other loops in their pools)
static void run_top(uint64_t seed) {
    Rng r(seed);
    if (r.chance(1, 12)) {
        int k = 2 + (int)r.below(6); int outer = (int)r.below(3);
        auto inner = [seed](int i) { Scn s(mix(seed, 77 + (uint64_t)i)); init_scn(s); s.nested = true; run_leaf(s); };
        if (outer == 0) tbb::parallel_for(0, k, inner, tbb::simple_partitioner());
        else if (outer == 1) tbb::parallel_for(tbb::blocked_range<int>(0, k, 1), [&](const tbb::blocked_range<int>& rg) { for (int i = rg.begin(); i < rg.end(); ++i) inner(i); });
        else tbb::parallel_invoke([&] { inner(0); }, [&] { inner(1); }, [&] { if (k > 2) inner(2); });
        g_t.by_class[C_NEST].fetch_add(1, std::memory_order_relaxed);
        return;
    }
    Scn s(seed); init_scn(s); run_leaf(s);
}

// ------------------------------------------------------------------------------------------------ persistent threads
// keeps the current arena hot (see vrt::Keeper); one thread for the whole process, pointed at the arena of the batch
struct MyKeeper {
    std::atomic<tbb::task_arena*> cur{nullptr}; std::atomic<bool> stop{false}; std::atomic<long> enq{0}, ran{0}; std::thread th;
    void start() {
        th = std::thread([this] {
            while (!stop.load(std::memory_order_relaxed)) {
                suspend_gate(&stop);   // let the process go quiet while the watchdog decides whether it is stuck
                tbb::task_arena* a = cur.load(std::memory_order_acquire);
                if (a && enq.load(std::memory_order_relaxed) - ran.load(std::memory_order_relaxed) < 256)
                    for (int i = 0; i < 4; i++) { enq.fetch_add(1, std::memory_order_relaxed); a->enqueue([this] { spin_iters(300); ran.fetch_add(1, std::memory_order_release); }); }
                sleep_us(40);
            }
        });
    }
    void finish() { stop.store(true); gate_wake(); th.join(); double t0 = now_s(); while (ran.load(std::memory_order_acquire) < enq.load() && now_s() - t0 < 60) sleep_us(200); }
};
struct Batch { tbb::task_arena* A = nullptr; long size = 0; uint64_t bseed = 0; int active = 1; std::atomic<long> next{0}; const std::vector<int>* ids = nullptr; };
static void run_batch(Batch& b, int d) {
    Rng r(mix(b.bseed, (uint64_t)d));
    for (;;) {
        long k = b.next.fetch_add(1); if (k >= b.size) break;
        if (d == 0) perturb_random(r, *b.ids);
        uint64_t seed = mix(b.bseed, 1000 + (uint64_t)k);
        b.A->execute([seed] { run_top(seed); });
    }
}
struct Drivers {                 // driver 0 is the main thread; drivers 1.. are created once and parked between batches
    std::mutex m; std::condition_variable cv_start, cv_done; uint64_t gen = 0; int running = 0; bool quit = false; Batch* b = nullptr; std::vector<std::thread> th;
    void start(int n) {
        for (int i = 0; i < n; i++) th.emplace_back([this, i] {
            uint64_t seen = 0;
            for (;;) {
                Batch* bb;
                { std::unique_lock<std::mutex> l(m); while (!quit && gen == seen) cv_start.wait(l); if (quit) return; seen = gen; bb = b; }
                if (i + 1 < bb->active) run_batch(*bb, i + 1);
                { std::lock_guard<std::mutex> l(m); if (--running == 0) cv_done.notify_all(); }
            }
        });
    }
    void run(Batch& bb) {
        { std::lock_guard<std::mutex> l(m); b = &bb; running = (int)th.size(); gen++; }
        cv_start.notify_all();
        run_batch(bb, 0);
        std::unique_lock<std::mutex> l(m); while (running) cv_done.wait(l);
    }
    void finish() { { std::lock_guard<std::mutex> l(m); quit = true; } cv_start.notify_all(); for (auto& t : th) t.join(); }
};

int main(int argc, char** argv) {
    Args a = standard_init(argc, argv, "c05");
    Result& R = result();
    long cases = a.num("cases", 2000);
    g_cfg.asan = R.variant == "asan";
    g_cfg.edges = a.num("edges", g_cfg.asan ? 0 : 1) != 0;                   // type-edge strided loops: rel/dbg only (DESIGN 4.8)
    g_cfg.axis_edge = a.num("axis-edge", 1) != 0;                            // >2^53 axis ties (repaired defect e95a65c; strict in every variant)
    g_cfg.only_class = (int)a.num("class", -1); g_cfg.only_part = (int)a.num("part", -1);
    int maxdrivers = (int)a.num("drivers", 3);
    bool hot = a.num("hot", 1) != 0;
    int fixed_conc = (int)a.num("conc", 0);
    std::vector<int> ids = { 200, 201, 202, 209, 10, 2, 3, 5, 40 };      // split/spawn, stolen-task depth, demand split, steal, owner/thief arbitration
    Rng top(mix(R.seed, 0xC05));
    tbb::global_control gc(tbb::global_control::max_allowed_parallelism, 16);
    g_pool = new PartPool();

    // The keeper and the drivers are created once and parked between batches (no thread churn while the watchdog samples
    // the process); arenas are kept alive as well.
    MyKeeper keeper; keeper.start();
    Drivers drv; drv.start(maxdrivers - 1);
    WatchdogCfg wc;
    watchdog_start(wc, [&](const HangInfo& hi) {
        std::string d = "a parallel loop did not return: no progress for " + std::to_string(hi.stalled_for) + "s; threads: " + hi.threads + "\n" + rings_dump();
        if (!hi.quiescent && !hi.spin_stall) { R.inconclusive++; fprintf(stderr, "[c05] watchdog: inconclusive stall\n%s\n", d.c_str()); R.finish_and_exit(4); }
        // bodies never block, so a loop that has not returned while nobody can run any more (or everybody spins) lost work
        R.violation(hi.quiescent ? "c05.hang.quiescent" : "c05.hang.spin-stall", d, "{}");
        R.finish_and_exit(3);
    });

    long done = 0;
    while (done < cases) {
        int conc = fixed_conc ? fixed_conc : (int)top.pick(std::vector<int>{ 1, 2, 2, 3, 3, 4, 4, 5, 6, 7, 8, 8, 12, 16, 16 });
        int reserved = top.chance(1, 4) ? 0 : 1;
        // arenas live as long as the process: creating and destroying arenas is not what this property is about
        static std::map<int, tbb::task_arena*>* arenas = new std::map<int, tbb::task_arena*>();
        tbb::task_arena*& ap = (*arenas)[conc * 2 + reserved];
        if (!ap) { ap = new tbb::task_arena(conc, reserved); ap->initialize(); }
        Batch bb; bb.A = ap; bb.active = 1 + (int)top.below(maxdrivers); bb.size = std::min<long>(cases - done, 60 + (long)top.below(120)); bb.bseed = top.next(); bb.ids = &ids;
        keeper.cur.store(hot && conc > 1 ? ap : nullptr, std::memory_order_release);
        drv.run(bb);
        done += bb.size;
        keeper.cur.store(nullptr, std::memory_order_release);
        perturb().clear();
        R.stat("batches");
    }
    watchdog_stop();
    drv.finish(); keeper.finish();
    for (int c = 0; c <= C_NEST; c++) R.stat(std::string("class_") + class_name[c], g_t.by_class[c].load());
    static const char* pn[] = { "simple", "auto", "static", "affinity", "default" };
    for (int p = 0; p < 5; p++) { R.stat(std::string("part_") + pn[p], g_t.by_part[p].load()); R.stat(std::string("part_") + pn[p] + "_multithread", g_t.by_part_multi[p].load()); }
    R.stat("chunks", g_t.chunks.load()); R.stat("elements_counted", g_t.elements.load()); R.stat("nested_leaves", g_t.nested.load()); R.stat("huge_ranges", g_t.huge.load());
    R.stat("type_edge_strided", g_t.edge.load()); R.stat("feeder_items", g_t.feeder_items.load()); R.stat("axis_collision_cases", g_t.axis_collision_cases.load());
    R.stat("affinity_loops_with_chunk_below_half_grain", g_t.affinity_below_half.load());
    R.stat_max("max_chunks_per_loop", g_t.max_chunks.load()); R.stat_max("max_split_depth_log2", g_t.max_depth.load()); R.stat_max("max_threads_per_loop", g_t.max_threads.load());
    R.stat("hook_delays", (long long)perturb().delays.load());
    R.write();
#if VRT_ASAN
    // vrt keeps its per-thread hook records in a static vector; once static destructors have run they would all look
    // leaked to the end-of-process check, so the leak check is made here, while everything that is still owned is reachable
    __lsan_do_leak_check();
#endif
    return 0;
}
