// C10: concurrent_hash_map is a linearizable map with per-element reader/writer locks.
//
// Scenario = fresh map (1..N initial buckets, optionally pre-filled with static "filler" keys up to just below a growth
// threshold) + 2-4 threads x 3-12 operations on 1-6 test keys whose hashes collide in the low bits (custom HashCompare:
// identity, constant, k<<8, multiplicative, bit-reversed, adversarial parent/child table). Operations: every insert /
// emplace form (with and without accessor), find (accessor / const_accessor), count, erase(key), erase(accessor),
// erase(const_accessor); accessors are held for random times. Oracles:
//   * per-key Wing-Gong linearizability (P-compositional) against a model whose state is the *incarnation* (unique id of
//     the element currently stored under the key); operations that saw the element through an accessor, and erase(key)
//     through the destructor of the mapped value, report which incarnation they acted on; the quiescent traversal and a
//     final count() are appended to every key's history;
//   * holder bookkeeping stored in the mapped value (writer exclusive, no reader with a writer, value not torn, element not
//     destroyed while held, no use after destruction);
//   * static keys (fillers, never erased) must be found by every lookup while buckets are split lazily, and by the
//     quiescent traversal exactly once; keys inserted once by one thread must be found by it immediately;
//   * size() == traversal count, no duplicate keys, constructions == destructions once the map is gone.
#define VRT_IMPL
#include "vrt_tbb.h"
#include "wgl.h"
#include <oneapi/tbb/concurrent_hash_map.h>
#include <oneapi/tbb/global_control.h>
#include <memory>

using namespace vrt;

#if VRT_ASAN
// vrt's per-thread hook records are "never freed" by design, but the vector that references them is destroyed before LSan's
// exit-time check, so the records of threads that have exited are reported. Everything else stays subject to the leak check.
extern "C" const char* __lsan_default_suppressions() { return "leak:vrt::hook_thread\n"; }
#endif

// ------------------------------------------------------------------------------------------------ failure collection
struct Scen;
static std::atomic<Scen*> g_cur{nullptr};
static std::atomic<int> g_fails{0};
static std::mutex g_fail_m;
static std::string g_fail_key, g_fail_detail;
static void fail(const std::string& key, const std::string& what) {
    if (g_fails.fetch_add(1, std::memory_order_relaxed) == 0) { std::lock_guard<std::mutex> l(g_fail_m); g_fail_key = key; g_fail_detail = what; }
}

// ------------------------------------------------------------------------------------------------ mapped value
static std::atomic<long> g_live{0};            // constructed - destroyed
static std::atomic<int> g_holding{0};          // harness threads that currently hold an accessor on purpose
static thread_local long tl_last_destroyed = 0;
static thread_local int tl_ndestroyed = 0;
static const long DEAD = 0x0DEADDEADDEAD;

struct Val {
    std::atomic<int> w{0}, r{0};   // holder bookkeeping (relaxed: must not order anything)
    long uid = 0;                  // incarnation id; plain on purpose (TSan checks the element lock's edges)
    long p1 = 0, p2 = 0;           // written under the write lock with a delay in between; readers demand p1 == p2
    Val() { g_live.fetch_add(1, std::memory_order_relaxed); }
    explicit Val(long u) : uid(u) { g_live.fetch_add(1, std::memory_order_relaxed); }
    Val(const Val& o) : uid(o.uid), p1(o.p1), p2(o.p2) { g_live.fetch_add(1, std::memory_order_relaxed); }
    Val(Val&& o) noexcept : uid(o.uid), p1(o.p1), p2(o.p2) { g_live.fetch_add(1, std::memory_order_relaxed); }
    Val& operator=(const Val&) = delete;
    ~Val() {
        int ww = w.load(std::memory_order_relaxed), rr = r.load(std::memory_order_relaxed);
        if (ww || rr) fail("c10.acc.destroyed-while-held", "mapped value uid=" + std::to_string(uid) + " destroyed while accessors point to it (writers=" + std::to_string(ww) + " readers=" + std::to_string(rr) + ")");
        if (uid == DEAD) fail("c10.life.destroyed-twice", "mapped value destroyed twice");
        tl_last_destroyed = uid; tl_ndestroyed++;
        *(volatile long*)&uid = DEAD;            // survives dead-store elimination: holders re-check uid at the end of a hold
        g_live.fetch_sub(1, std::memory_order_relaxed);
    }
};

// ------------------------------------------------------------------------------------------------ hash / map types
enum HashMode { H_IDENT, H_CONST, H_SHIFT8, H_MULT, H_BITREV, H_ADV, H_NMODES };
static const char* hash_name[] = { "identity", "constant", "k<<8", "multiplicative", "bit-reversed", "adversarial" };
static inline uint64_t rev32(uint64_t k) { uint32_t x = (uint32_t)k, y = 0; for (int i = 0; i < 32; i++) { y = (y << 1) | (x & 1); x >>= 1; } return y; }

struct HC {
    const uint64_t* tab = nullptr; int nk = 0; int mode = 0; uint64_t base = 0; int j = 1;
    size_t other(int k) const {
        switch (mode) {
        case H_IDENT: return (size_t)k;
        case H_CONST: return (size_t)base;
        case H_SHIFT8: return (size_t)k << 8;
        case H_MULT: return (size_t)(uint32_t)((uint32_t)k * 2654435761u);
        case H_BITREV: return (size_t)rev32((uint64_t)k);
        default: return (size_t)((base & ((1ull << j) - 1)) | ((mix((uint64_t)k, base) & 0xfff) << j));
        }
    }
    size_t hash(int k) const { return k < nk ? (size_t)tab[k] : other(k); }
    bool equal(int a, int b) const { return a == b; }
};
using KV = std::pair<const int, Val>;
using Map = tbb::concurrent_hash_map<int, Val, HC, std::allocator<KV>>;   // std::allocator: ASan sees every node

// ------------------------------------------------------------------------------------------------ operations
enum Kind : int { INS_V, INS_VM, INS_A, INS_AV, INS_AM, INS_CV, EMPL, EMPL_A, EMPL_C, FIND_R, FIND_W, COUNT, ERASE_K,
                  ERASE_AW, ERASE_AR, FINAL_TRAV, FINAL_COUNT, LOOKF, GROW, NKINDS };
static const char* kind_name[] = { "insert(value)", "insert(value&&)", "insert(acc,key)", "insert(acc,value)", "insert(acc,value&&)", "insert(cacc,value)",
                                   "emplace", "emplace(acc)", "emplace(cacc)", "find(cacc)", "find(acc)", "count", "erase(key)",
                                   "erase(acc)", "erase(cacc)", "final-traversal", "final-count", "lookup-static", "insert-unique" };
enum Cls { C_INS, C_LOOK, C_ERASE, C_ERASE_ACC };
static inline Cls cls(int k) { return k <= EMPL_C ? C_INS : (k == ERASE_K ? C_ERASE : (k == ERASE_AW || k == ERASE_AR ? C_ERASE_ACC : C_LOOK)); }

// Sequential model of one key: state = uid of the incarnation stored, 0 = absent.
// res = (observed uid << 1) | ok ; observed uid 0 = the operation did not see which incarnation it acted on.
struct KeyModel {
    using State = long;
    State init() const { return 0; }
    bool apply(State& s, const Op& o) const {
        if (o.open) return true;
        bool ok = o.res & 1; long obs = o.res >> 1;
        switch (cls(o.kind)) {
        case C_INS: if (ok) { if (s != 0) return false; s = o.arg; return true; } return s != 0 && (!obs || obs == s);
        case C_LOOK: return ok ? (s != 0 && (!obs || obs == s)) : s == 0;
        case C_ERASE: if (ok) { if (s == 0 || (obs && obs != s)) return false; s = 0; return true; } return s == 0;
        case C_ERASE_ACC: if (ok) { if (s != o.arg) return false; s = 0; return true; } return s != o.arg;
        }
        return false;
    }
    uint64_t hash(const State& s) const { return (uint64_t)s; }
};

static const char* HIST_FORMAT = "[thread, operation, uid offered (insert) or held (erase by accessor), result, uid of the element seen (0 = not seen), call stamp, return stamp]";
static std::string hist_json(std::vector<Op> ops, bool ns) {
    std::sort(ops.begin(), ops.end(), [](const Op& x, const Op& y) { return x.call < y.call; });
    uint64_t t0 = ops.empty() ? 0 : ops[0].call;
    Json j; j.arr();
    for (auto& o : ops) { j.arr(); j.val(o.thread); j.val(kind_name[o.kind]); j.val(o.arg); j.val((o.res & 1) != 0); j.val(o.res >> 1); j.val((unsigned long long)(ns ? o.call - t0 : o.call)); j.val((unsigned long long)(ns ? o.ret - 2000 - t0 : o.ret)); j.end_arr(); }
    j.end_arr(); return j.s;
}

struct OpSpec { int kind; int key; int hold; int pre; bool erase_after; bool via_find; long uid; };

struct Clock {                       // seq: one global seq_cst counter; ns: CLOCK_MONOTONIC, A precedes B only if A.ret + 2us < B.call
    bool ns = false; HistoryClock hc;
    uint64_t call() { return ns ? now_ns() : hc.tick(); }
    uint64_t ret() { return ns ? now_ns() + 2000 : hc.tick(); }
};

struct TLog {
    std::vector<Op> ops; std::vector<int> keys; int thread = 0;
    size_t begin(Clock& c, int kind, int key, long arg) { Op o; o.thread = thread; o.kind = kind; o.arg = arg; o.ret = ~0ull; o.open = true; ops.push_back(o); keys.push_back(key); ops.back().call = c.call(); return ops.size() - 1; }
    void end(Clock& c, size_t i) { ops[i].ret = c.ret(); ops[i].open = false; }
    void res(size_t i, bool ok, long obs) { ops[i].res = (obs << 1) | (ok ? 1 : 0); }
};

struct Scen {
    uint64_t seed = 0; int nthreads = 2, nkeys = 1, mode = 0, init_buckets = 0, prefill = 0, threshold = 0; bool ns_clock = false;
    std::vector<uint64_t> tab; HC hc;
    std::vector<std::vector<OpSpec>> plan;
    std::unique_ptr<Map> map;
    std::unique_ptr<Barrier> start;
    Clock clk;
    TLog log[4];
    std::vector<int> grown[4];       // unique keys a thread inserted successfully
    std::atomic<long> ops_over_growth{0};
    std::string describe() const {
        Json j; j.obj(); j.kv("scn_seed", (unsigned long long)seed); j.kv("threads", nthreads); j.kv("keys", nkeys); j.kv("hash", hash_name[mode]);
        j.kv("init_buckets", init_buckets); j.kv("prefill", prefill); j.kv("threshold", threshold); j.kv("clock", ns_clock ? "ns" : "seq");
        j.key("key_hashes").arr(); for (auto h : tab) j.val((unsigned long long)h); j.end_arr();
        j.kv("replay", "c10 --scn " + std::to_string(seed) + " --cases 2000");
        j.end_obj(); return j.s;
    }
};

static const int FILLER0 = 1000, GROW0 = 100000;

static inline void delay(int d) {
    if (d <= 0) return;
    if (d < 100000) { spin_iters((unsigned)d); return; }
    if (d == 100000) { sched_yield(); return; }
    sleep_us((unsigned)(d - 100000));
}

// ---- accessor holds
static void hold_w(Val& v, long uid, int d) {
    g_holding.fetch_add(1, std::memory_order_relaxed);
    int pw = v.w.fetch_add(1, std::memory_order_relaxed), pr = v.r.load(std::memory_order_relaxed);
    if (pw != 0 || pr != 0) fail("c10.acc.writer-not-exclusive", "accessor obtained on uid=" + std::to_string(uid) + " while writers=" + std::to_string(pw) + " readers=" + std::to_string(pr) + " hold it");
    if (v.p1 != v.p2) fail("c10.acc.torn-value", "writer found p1 != p2 on uid=" + std::to_string(uid));
    long x = (long)trng().next();
    v.p1 = x; delay(d); v.p2 = x;
    if (v.w.load(std::memory_order_relaxed) != 1 || v.r.load(std::memory_order_relaxed) != 0) fail("c10.acc.writer-not-exclusive", "another holder arrived while an accessor was held on uid=" + std::to_string(uid));
    if (v.uid != uid) fail("c10.acc.use-after-destroy", "uid of the element changed from " + std::to_string(uid) + " to " + std::to_string(v.uid) + " while an accessor was held");
    v.w.fetch_sub(1, std::memory_order_relaxed);
    g_holding.fetch_sub(1, std::memory_order_relaxed);
}
static void hold_r(const Val& cv, long uid, int d) {
    Val& v = const_cast<Val&>(cv);
    g_holding.fetch_add(1, std::memory_order_relaxed);
    v.r.fetch_add(1, std::memory_order_relaxed);
    if (v.w.load(std::memory_order_relaxed) != 0) fail("c10.acc.reader-with-writer", "const_accessor obtained on uid=" + std::to_string(uid) + " while a writer holds it");
    long a = v.p1; delay(d); long b = v.p2;
    if (a != b) fail("c10.acc.torn-value", "reader saw p1 != p2 on uid=" + std::to_string(uid));
    if (v.w.load(std::memory_order_relaxed) != 0) fail("c10.acc.reader-with-writer", "a writer arrived while a const_accessor was held on uid=" + std::to_string(uid));
    if (v.uid != uid) fail("c10.acc.use-after-destroy", "uid of the element changed from " + std::to_string(uid) + " to " + std::to_string(v.uid) + " while a const_accessor was held");
    v.r.fetch_sub(1, std::memory_order_relaxed);
    g_holding.fetch_sub(1, std::memory_order_relaxed);
}

static void run_thread(Scen& s, int t) {
    Map& m = *s.map; TLog& lg = s.log[t]; Clock& c = s.clk;
    for (const OpSpec& o : s.plan[t]) {
        delay(o.pre);
        size_t bc0 = m.bucket_count();
        const int k = o.key;
        switch (o.kind) {
        case INS_V: { KV kv(k, Val(o.uid)); size_t i = lg.begin(c, INS_V, k, o.uid); bool ok = m.insert(kv); lg.end(c, i); lg.res(i, ok, 0); break; }
        case INS_VM: { KV kv(k, Val(o.uid)); size_t i = lg.begin(c, INS_VM, k, o.uid); bool ok = m.insert(std::move(kv)); lg.end(c, i); lg.res(i, ok, 0); break; }
        case EMPL: { size_t i = lg.begin(c, EMPL, k, o.uid); bool ok = m.emplace(k, Val(o.uid)); lg.end(c, i); lg.res(i, ok, 0); break; }
        case INS_A: case INS_AV: case INS_AM: case EMPL_A: case FIND_W: {
            Map::accessor a; bool ok; KV kv(k, Val(o.uid));
            size_t i = lg.begin(c, o.kind, k, o.uid);
            if (o.kind == INS_A) ok = m.insert(a, k);
            else if (o.kind == INS_AV) ok = m.insert(a, kv);
            else if (o.kind == INS_AM) ok = m.insert(a, std::move(kv));
            else if (o.kind == EMPL_A) ok = m.emplace(a, k, Val(o.uid));
            else ok = m.find(a, k);
            lg.end(c, i);
            if (o.kind == FIND_W && !ok) { lg.res(i, false, 0); if (!a.empty()) fail("c10.acc.nonempty-after-failed-find", "find(accessor) returned false but the accessor is not empty"); break; }
            if (a.empty()) { fail("c10.acc.empty-after-success", std::string(kind_name[o.kind]) + " returned with an empty accessor"); lg.res(i, ok, 0); break; }
            if (a->first != k) fail("c10.acc.wrong-key", std::string(kind_name[o.kind]) + " for key " + std::to_string(k) + " returned an accessor to key " + std::to_string(a->first));
            Val& v = a->second;
            if (o.kind == INS_A && ok) v.uid = o.uid;          // default-constructed: the inserter names the incarnation under its write lock
            long uid = v.uid;
            lg.res(i, ok, uid);
            hold_w(v, uid, o.hold);
            if (o.erase_after) { size_t e = lg.begin(c, ERASE_AW, k, uid); bool eok = m.erase(a); lg.end(c, e); lg.res(e, eok, 0); }
            else a.release();
            break;
        }
        case INS_CV: case EMPL_C: case FIND_R: {
            Map::const_accessor a; bool ok; KV kv(k, Val(o.uid));
            size_t i = lg.begin(c, o.kind, k, o.uid);
            if (o.kind == INS_CV) ok = m.insert(a, kv);
            else if (o.kind == EMPL_C) ok = m.emplace(a, k, Val(o.uid));
            else ok = m.find(a, k);
            lg.end(c, i);
            if (o.kind == FIND_R && !ok) { lg.res(i, false, 0); if (!a.empty()) fail("c10.acc.nonempty-after-failed-find", "find(const_accessor) returned false but the accessor is not empty"); break; }
            if (a.empty()) { fail("c10.acc.empty-after-success", std::string(kind_name[o.kind]) + " returned with an empty accessor"); lg.res(i, ok, 0); break; }
            if (a->first != k) fail("c10.acc.wrong-key", std::string(kind_name[o.kind]) + " for key " + std::to_string(k) + " returned an accessor to key " + std::to_string(a->first));
            const Val& v = a->second;
            long uid = v.uid;
            lg.res(i, ok, uid);
            hold_r(v, uid, o.hold);
            if (o.erase_after) { size_t e = lg.begin(c, ERASE_AR, k, uid); bool eok = m.erase(a); lg.end(c, e); lg.res(e, eok, 0); }
            else a.release();
            break;
        }
        case COUNT: { size_t i = lg.begin(c, COUNT, k, 0); size_t n = m.count(k); lg.end(c, i); lg.res(i, n != 0, 0); if (n > 1) fail("c10.lin.count-above-one", "count() returned " + std::to_string(n)); break; }
        case ERASE_K: {
            tl_ndestroyed = 0; tl_last_destroyed = 0;
            size_t i = lg.begin(c, ERASE_K, k, 0); bool ok = m.erase(k); lg.end(c, i);
            lg.res(i, ok, ok ? tl_last_destroyed : 0);
            if (tl_ndestroyed != (ok ? 1 : 0)) fail("c10.life.erase-destroy-count", "erase(key) returned " + std::to_string(ok) + " and destroyed " + std::to_string(tl_ndestroyed) + " mapped values on the calling thread");
            break;
        }
        case LOOKF: {     // static key: present from before the threads started, never erased
            bool ok;
            if (o.via_find) { Map::const_accessor a; ok = m.find(a, k); if (ok && (a->first != k || a->second.uid != k)) fail("c10.acc.wrong-key", "find of static key " + std::to_string(k) + " gave key " + std::to_string(a->first) + " uid " + std::to_string(a->second.uid)); }
            else ok = m.count(k) == 1;
            if (!ok) fail("c10.lin.static-key-lookup-failed", std::string(o.via_find ? "find" : "count") + " of static key " + std::to_string(k) + " (hash " + std::to_string(s.hc.hash(k)) + ") failed while the table had " + std::to_string(bc0) + " -> " + std::to_string(m.bucket_count()) + " buckets");
            break;
        }
        case GROW: {      // a key only this thread ever touches
            bool ok = o.via_find ? m.emplace(k, Val(k)) : m.insert(KV(k, Val(k)));
            if (!ok) fail("c10.lin.unique-insert-false", "insert of never-used key " + std::to_string(k) + " returned false");
            else s.grown[t].push_back(k);
            if (m.count(k) != 1) fail("c10.lin.find-after-insert-failed", "count of key " + std::to_string(k) + " right after its insert returned by the same thread is 0 (buckets " + std::to_string(bc0) + " -> " + std::to_string(m.bucket_count()) + ")");
            break;
        }
        }
        if (m.bucket_count() != bc0) s.ops_over_growth.fetch_add(1, std::memory_order_relaxed);
        progress();
    }
}

// ------------------------------------------------------------------------------------------------ generator
static void generate(Scen& s, int cpus, long force_threads, long force_prefill) {
    Rng r(s.seed);
    s.nthreads = force_threads ? (int)force_threads : 2 + (int)r.below(3);
    s.nkeys = 1 + (int)r.below(r.chance(1, 2) ? 2 : 6);
    s.mode = (int)r.below(H_NMODES);
    s.ns_clock = r.chance(1, 4);
    // initial table and pre-fill: fresh 2-bucket table (first insert grows it to 256 with every new bucket flagged for lazy
    // rehash) or a table pre-filled to just below the threshold at which the next segment is enabled
    unsigned x = (unsigned)r.below(100);
    s.threshold = x < 50 ? 0 : x < 80 ? 255 : x < 92 ? 511 : x < 98 ? 1023 : 2047;
    if (force_prefill >= 0) s.threshold = (int)force_prefill;
    // one-chain hashes make every operation O(size): keep those tables small (the chain is still 250-500 long)
    if ((s.mode == H_CONST || s.mode == H_BITREV) && s.threshold > 511) s.threshold = s.threshold == 1023 ? 255 : 511;
    if (s.threshold == 0) { s.init_buckets = (int)r.below(3); s.prefill = r.chance(1, 5) ? 1 + (int)r.below(12) : 0; }
    else {
        s.init_buckets = r.chance(1, 2) ? 0 : (int)r.pick(std::vector<int>{ 1, 2, 3, 100, 256, 257, 512, 1024 });
        s.prefill = s.threshold - 1 - (int)r.below(4);
    }
    // hashes of the test keys
    s.hc.mode = s.mode; s.hc.nk = s.nkeys; s.hc.j = (int)r.pick(std::vector<int>{ 1, 1, 2, 3, 7, 8, 8, 9, 10 }); s.hc.base = r.next() & 0x3ff;
    s.tab.resize(s.nkeys);
    bool adv_onebit = r.chance(1, 2);    // hashes that differ from the common low bits in one higher bit: all direct children of one bucket
    for (int k = 0; k < s.nkeys; k++) {
        HC tmp = s.hc; tmp.nk = 0;
        if (s.mode == H_ADV) s.tab[k] = (s.hc.base & ((1ull << s.hc.j) - 1)) | ((adv_onebit ? (r.chance(1, 6) ? 0 : 1ull << r.below(5)) : r.below(r.chance(1, 2) ? 4 : 16)) << s.hc.j);   // same low j bits: parent/child buckets of the splits at level j..j+3
        else if (s.mode == H_IDENT) s.tab[k] = r.chance(1, 2) ? (uint64_t)k : (uint64_t)(1 + (k << (int)r.below(9)));
        else s.tab[k] = tmp.other(k + (r.chance(1, 2) ? 0 : 1 << 8));
    }
    s.hc.tab = s.tab.data();
    // operations
    bool lowcpu = cpus > 0 && cpus <= 2;
    s.plan.assign(s.nthreads, {});
    int ngrow[4] = { 0, 0, 0, 0 };
    for (int t = 0; t < s.nthreads; t++) {
        int n = 3 + (int)r.below(10);
        for (int i = 0; i < n; i++) {
            OpSpec o{}; o.uid = 1 + t * 64 + i;
            unsigned y = (unsigned)r.below(100);
            o.key = (int)r.below(s.nkeys);
            if (y < 36) o.kind = (int)r.pick(std::vector<int>{ INS_V, INS_VM, INS_A, INS_A, INS_AV, INS_AM, INS_CV, EMPL, EMPL_A, EMPL_C });
            else if (y < 48) o.kind = FIND_R; else if (y < 58) o.kind = FIND_W; else if (y < 65) o.kind = COUNT; else if (y < 82) o.kind = ERASE_K;
            else if (y < 91) { if (s.prefill > 0) { o.kind = LOOKF; o.key = FILLER0 + (int)r.below(s.prefill); o.via_find = r.chance(1, 2); } else o.kind = COUNT; }
            else { o.kind = GROW; o.key = GROW0 + t * 1000 + ngrow[t]++; o.via_find = r.chance(1, 2); }
            o.erase_after = r.chance(3, 10);
            unsigned h = (unsigned)r.below(100);
            o.hold = h < 40 ? 0 : h < 75 ? (int)r.below(400) : h < 93 ? 1000 + (int)r.below(9000) : h < 98 ? 100000 : 100000 + 10 + (int)r.below(90);
            unsigned p = (unsigned)r.below(100);
            unsigned py = lowcpu ? 30 : 8;
            o.pre = p < 50 ? 0 : p < 100 - py ? (int)r.below(600) : 100000;
            s.plan[t].push_back(o);
        }
    }
}

// ------------------------------------------------------------------------------------------------ main
int main(int argc, char** argv) {
    Args a = standard_init(argc, argv, "c10");
    Result& R = result();
    long cases = a.num("cases", 2000);
    bool light = (R.variant == "tsan") || a.has("light");
    long fixed_scn = a.num("scn", 0);
    long force_threads = a.num("threads", 0), force_prefill = a.num("threshold", -1);
    int cpus = (int)a.num("cpus", 0);
    std::vector<int> ids = { 140, 141, 142, 143, 144, 145, 146, 146, 124 };
    Rng top(mix(R.seed, 0xC10));
    tbb::global_control gc(tbb::global_control::max_allowed_parallelism, 16);

    watchdog_start(WatchdogCfg{}, [&](const HangInfo& hi) {
        Scen* s = g_cur.load();
        std::string d = "no progress for " + std::to_string(hi.stalled_for) + "s; accessors held on purpose: " + std::to_string(g_holding.load()) + "; threads: " + hi.threads + "\n" + rings_dump();
        // a map operation can only wait for an accessor some harness thread holds; holders never wait for anything
        bool satisfiable = g_holding.load() == 0;
        if ((!hi.quiescent && !hi.spin_stall) || !satisfiable) { R.inconclusive++; fprintf(stderr, "[c10] watchdog: inconclusive stall\n%s\n", d.c_str()); R.finish_and_exit(4); }
        R.violation(hi.quiescent ? "c10.hang.quiescent" : "c10.hang.spin-stall", d.substr(0, 1500), s ? s->describe() : "{}");
        R.finish_and_exit(3);
    });

    // persistent worker threads (thread t of every scenario is the same OS thread). Between scenarios they wait politely
    // (the main thread spends 50-500 us pre-filling and checking); the participants then meet at a spinning barrier so
    // that their first operations really start together.
    std::atomic<bool> quit{false};
    std::atomic<uint64_t> gen{0};
    std::atomic<int> done_cnt{0};
    std::atomic<Scen*> cur{nullptr};
    std::vector<std::thread> pool;
    for (int t = 0; t < 4; t++) pool.emplace_back([&, t] {
        uint64_t seen = 0;
        for (;;) {
            for (int spins = 0; gen.load(std::memory_order_acquire) == seen; ) { if (++spins < 3000) _mm_pause(); else if (spins < 3100) sched_yield(); else sleep_us(25); }
            seen++;
            if (quit.load()) return;
            Scen* s = cur.load();
            if (t < s->nthreads) { s->start->wait(); run_thread(*s, t); }
            done_cnt.fetch_add(1, std::memory_order_release);
        }
    });

    KeyModel model;
    for (long done = 0; done < cases; done++) {
        Scen s; s.seed = fixed_scn ? (uint64_t)fixed_scn : top.next() >> 1;
        generate(s, cpus, force_threads, force_prefill);
        if (light) s.ns_clock = true;
        s.clk.ns = s.ns_clock;
        for (int t = 0; t < 4; t++) s.log[t].thread = t;
        long live0 = g_live.load();
        if (s.init_buckets > 0) s.map.reset(new Map((size_t)s.init_buckets, s.hc)); else s.map.reset(new Map(s.hc));
        Map& m = *s.map;
        for (int i = 0; i < s.prefill; i++) if (!m.insert(KV(FILLER0 + i, Val(FILLER0 + i)))) fail("c10.lin.unique-insert-false", "sequential pre-fill insert returned false");
        size_t buckets0 = m.bucket_count();
        g_cur.store(&s); cur.store(&s);
        perturb_random(top, ids);
        s.start.reset(new Barrier(s.nthreads));
        done_cnt.store(0);
        gen.fetch_add(1, std::memory_order_release);
        for (int spins = 0; done_cnt.load(std::memory_order_acquire) < 4; ) { if (++spins < 2000) _mm_pause(); else if (spins < 2100) sched_yield(); else sleep_us(20); }
        perturb().clear();
        size_t buckets1 = m.bucket_count();

        // ---- quiescent checks
        std::map<int, long> trav; size_t ntrav = 0; bool dup = false;
        for (auto it = m.begin(); it != m.end(); ++it) { ntrav++; if (!trav.emplace(it->first, it->second.uid).second) { dup = true; fail("c10.quiescent.duplicate-key", "key " + std::to_string(it->first) + " met twice by the quiescent traversal"); } if (it->second.w.load() || it->second.r.load()) fail("c10.acc.holders-left", "holder counters not zero at quiescence"); }
        (void)dup;
        if (m.size() != ntrav) fail("c10.quiescent.size-mismatch", "size() = " + std::to_string(m.size()) + " but the traversal met " + std::to_string(ntrav) + " elements");
        auto must_have = [&](int key, const char* what) {
            auto it = trav.find(key);
            if (it == trav.end()) fail("c10.quiescent.static-key-lost", std::string(what) + " key " + std::to_string(key) + " (hash " + std::to_string(s.hc.hash(key)) + ") missing from the quiescent traversal; buckets " + std::to_string(buckets0) + " -> " + std::to_string(buckets1));
            else if (it->second != key) fail("c10.quiescent.static-key-lost", std::string(what) + " key " + std::to_string(key) + " carries uid " + std::to_string(it->second));
            if (m.count(key) != 1) fail("c10.quiescent.static-key-lost", std::string(what) + " key " + std::to_string(key) + " (hash " + std::to_string(s.hc.hash(key)) + ") not found by count() at quiescence; buckets " + std::to_string(buckets0) + " -> " + std::to_string(buckets1));
        };
        for (int i = 0; i < s.prefill; i++) must_have(FILLER0 + i, "pre-filled");
        size_t ngrown = 0;
        for (int t = 0; t < s.nthreads; t++) for (int k : s.grown[t]) { must_have(k, "uniquely inserted"); ngrown++; }
        size_t test_present = 0; for (int k = 0; k < s.nkeys; k++) test_present += trav.count(k);
        if (ntrav != (size_t)s.prefill + ngrown + test_present) fail("c10.quiescent.unknown-key", "traversal met " + std::to_string(ntrav) + " elements, expected " + std::to_string(s.prefill + ngrown + test_present));

        // ---- per-key histories
        std::vector<std::vector<Op>> hist(s.nkeys);
        size_t total_ops = 0;
        for (int t = 0; t < s.nthreads; t++) { total_ops += s.plan[t].size(); for (size_t i = 0; i < s.log[t].ops.size(); i++) hist[s.log[t].keys[i]].push_back(s.log[t].ops[i]); }
        int overlap_total = 0; uint64_t sig = mix(s.nthreads, s.nkeys); int sample_key = -1, sample_ov = 0;
        for (int k = 0; k < s.nkeys; k++) {
            std::vector<Op>& h = hist[k];
            int ov;
            if (s.ns_clock) { std::vector<Op> raw = h; for (auto& o : raw) o.ret -= 2000; ov = overlapping_pairs(raw); }   // the 2us margin is not overlap
            else ov = overlapping_pairs(h);
            overlap_total += ov;
            if (ov > sample_ov) { sample_ov = ov; sample_key = k; }
            if (ov) { std::vector<Op> sorted = h; std::sort(sorted.begin(), sorted.end(), [](const Op& x, const Op& y) { return x.call < y.call; }); uint64_t hs = history_signature(h); for (auto& o : sorted) hs = mix(hs, (uint64_t)o.kind * 4 + (o.res & 1)); sig = mix(sig, hs); }
            size_t nconc = h.size();
            // the quiescent observations close the history
            Op f; f.thread = 7; f.kind = FINAL_TRAV; f.arg = 0; f.call = s.clk.call(); auto it = trav.find(k); f.res = it == trav.end() ? 0 : ((it->second << 1) | 1); f.ret = s.clk.ret(); h.push_back(f);
            Op g; g.thread = 7; g.kind = FINAL_COUNT; g.arg = 0; g.call = s.clk.call(); g.res = m.count(k) ? 1 : 0; g.ret = s.clk.ret(); h.push_back(g);
            uint64_t steps = 0;
            Lin v = check_linearizable(model, h, 2000000, nullptr, &steps);
            R.stat("key_histories_checked"); R.stat_max("max_wgl_steps", (long long)steps); R.stat_max("max_ops_per_key", (long long)h.size());
            if (v == Lin::BUDGET) { R.inconclusive++; continue; }
            if (v == Lin::VIOLATION) {
                long ins_ok = 0, er_ok = 0;
                for (size_t i = 0; i < nconc; i++) { if (!(h[i].res & 1)) continue; if (cls(h[i].kind) == C_INS) ins_ok++; else if (cls(h[i].kind) != C_LOOK) er_ok++; }
                std::vector<Op> conc(h.begin(), h.begin() + nconc);
                std::string key = "c10.lin.not-linearizable";
                if (ins_ok - er_ok != 0 && ins_ok - er_ok != 1) key = "c10.lin.insert-erase-imbalance";
                else if (check_linearizable(model, conc, 2000000) == Lin::OK) key = "c10.lin.final-state-mismatch";
                Json j; j.obj(); j.key("scenario").raw(s.describe()); j.kv("key", k); j.kv("hash", (unsigned long long)s.tab[k]); j.kv("format", HIST_FORMAT); j.kv("clock", s.ns_clock ? "ns since first call (A precedes B only if A.return + 2000 < B.call)" : "global sequence counter"); j.key("history").raw(hist_json(h, s.ns_clock)); j.end_obj();
                fail(key, "history of key " + std::to_string(k) + " (" + std::to_string(h.size()) + " operations, successful inserts " + std::to_string(ins_ok) + ", successful erases " + std::to_string(er_ok) + ") has no linearization; buckets " + std::to_string(buckets0) + " -> " + std::to_string(buckets1) + " ##" + j.s);
            }
        }
        // ---- element life cycle
        s.map.reset();
        if (g_live.load() != live0) fail("c10.life.construct-destroy-imbalance", "after destroying the map " + std::to_string(g_live.load() - live0) + " mapped values are still alive (negative: destroyed twice)");
        g_cur.store(nullptr);

        R.scenarios++;
        R.stat("ops", (long long)total_ops);
        R.stat("overlapping_pairs_same_key", overlap_total);
        R.stat("ops_overlapping_growth", s.ops_over_growth.load());
        if (buckets1 != buckets0) R.stat("scenarios_grown_during_history");
        if (s.ns_clock) R.stat("scenarios_ns_clock");
        R.stat(std::string("hash_") + hash_name[s.mode]);
        R.stat("threshold_" + std::to_string(s.threshold));
        if (overlap_total > 0) { R.nontrivial++; R.signature(sig); }
        if (g_fails.load()) {
            std::string det = g_fail_detail, scen = s.describe();
            auto pos = det.find(" ##"); if (pos != std::string::npos) { scen = det.substr(pos + 3); det = det.substr(0, pos); }
            R.violation(g_fail_key, det.substr(0, 1400) + " (" + std::to_string(g_fails.load()) + " failed checks in this scenario)", scen);
            g_fails.store(0);
            if (R.violations_total <= 5) R.write();      // a broken map often crashes a little later: keep what was seen
        } else if (R.want_sample() && sample_ov >= 3 && buckets1 != buckets0) {
            Json j; j.obj(); j.kv("threads", s.nthreads); j.kv("hash", hash_name[s.mode]); j.kv("prefill", s.prefill); j.kv("buckets_before", (unsigned long long)buckets0); j.kv("buckets_after", (unsigned long long)buckets1);
            j.kv("key", sample_key); j.kv("key_hash", (unsigned long long)s.tab[sample_key]); j.kv("overlapping_pairs", sample_ov);
            j.kv("clock", s.ns_clock ? "ns since first call (A precedes B only if A.return + 2000 < B.call)" : "global sequence counter");
            j.kv("format", HIST_FORMAT);
            j.key("history").raw(hist_json(hist[sample_key], s.ns_clock)); j.end_obj(); R.sample(j.s);
        }
        progress();
    }
    quit.store(true); gen.fetch_add(1);
    for (auto& t : pool) t.join();
    watchdog_stop();
    R.stat("hook_delays", (long long)perturb().delays.load());
    R.write();
    return 0;
}
