// C15 harness: join_node (queueing / key_matching / reserving) and buffer kinds feeding reserving joins
#pragma once
#include "c15_buffers.h"

template <class Tup, size_t... I> static std::array<int, sizeof...(I)> tup_arr(const Tup& t, std::index_sequence<I...>) { return { { std::get<I>(t)... } }; }
template <class J, size_t... I> static std::array<fl::receiver<int>*, sizeof...(I)> port_arr(J& j, std::index_sequence<I...>) { return { { &fl::input_port<I>(j)... } }; }
template <size_t K> struct IntTuple;
template <> struct IntTuple<2> { using type = std::tuple<int, int>; };
template <> struct IntTuple<3> { using type = std::tuple<int, int, int>; };
template <> struct IntTuple<4> { using type = std::tuple<int, int, int, int>; };
static constexpr int kPortShift = 14;                         // value = port << 14 | producer << 12 | index
static inline int port_of(int v) { return v >> kPortShift; }
static inline int id_of(int v) { return v & ((1 << kPortShift) - 1); }

// ---------------------------------------------------------------------------------------------- queueing join
template <size_t K> static void run_join_queueing(Scn& s, tbb::task_arena& A) {
    using Tup = typename IntTuple<K>::type; auto IS = std::make_index_sequence<K>{};
    Rng r(s.seed);
    GraphBox gb(A); fl::graph& g = gb.g();
    fl::join_node<Tup, fl::queueing> j(g);
    auto ports = port_arr(j, IS);
    int sk = r.chance(1, 3) ? SK_REJECT : SK_ACCEPT;
    bool single = r.chance(1, 2);
    int nmax = r.chance(1, 5) ? 5 : 80;
    std::vector<std::unique_ptr<Producers>> ps;
    int threads = 0; std::vector<std::pair<int, int>> who;
    for (size_t k = 0; k < K; k++) {
        ps.emplace_back(new Producers(s, g, r, single ? 1 : 1 + (int)r.below(3), 0, nmax, !single));
        Producers* pp = ps.back().get(); fl::receiver<int>* port = ports[k]; int kk = (int)k;
        pp->put = [pp, port, kk](int p, int i) { return port->try_put((kk << kPortShift) | mkid(p, i)); };
        for (int p = 0; p < pp->np; p++) { who.push_back({ kk, p }); threads++; }
    }
    LogSink<Tup> sink(s, g, sk, r, 128);
    fl::make_edge(j, *sink.in);
    const std::string K_ = "c15.join-queueing";
    s.params = "join_node<queueing> ports=" + std::to_string(K) + " sink=" + (sk == SK_REJECT ? "rejecting" : "accepting") + " producers_per_port=" + [&] { std::string t; for (auto& p : ps) t += std::to_string(p->np) + "(" + std::to_string(p->total()) + ") "; return t; }();
    uint64_t js = r.next();
    g_phase.store("join-queueing: producers running");
    crew().run(threads, [&](int idx) { ps[who[idx].first]->run_producer(who[idx].second, mix(js, idx)); });
    g_phase.store("join-queueing: wait_for_all");
    g.wait_for_all(); for (auto& p : ps) p->after_wait();
    size_t expect = SIZE_MAX; for (auto& p : ps) expect = std::min(expect, (size_t)p->total());
    if (sink.log.size() != expect) s.fail(K_ + ".tuple-count", std::to_string(sink.log.size()) + " tuples were emitted, the ports received " + [&] { std::string t; for (auto& p : ps) t += std::to_string(p->total()) + " "; return t; }() + "messages (expected " + std::to_string(expect) + ")");
    std::vector<std::vector<int>> comp(K);
    for (size_t t = 0; t < sink.log.size(); t++) { auto a = tup_arr(sink.log[t], IS); for (size_t k = 0; k < K; k++) { if (port_of(a[k]) != (int)k) s.fail(K_ + ".tuple-misrouted", "component " + std::to_string(k) + " of tuple " + std::to_string(t) + " is a message of port " + std::to_string(port_of(a[k]))); comp[k].push_back(id_of(a[k])); } }
    for (size_t k = 0; k < K; k++) {
        for (int p = 0; p < ps[k]->np; p++) for (int i = 0; i < ps[k]->n[p]; i++) if (!ps[k]->puts[p][i].ok) s.fail(K_ + ".put-rejected", "a queueing port rejected a put");
        check_fifo(s, K_, *ps[k], comp[k], true, true, "join_node<queueing> port " + std::to_string(k) + ": components in tuple order");
    }
    if (single) for (size_t t = 0; t < sink.log.size() && !s.fails; t++) { auto a = tup_arr(sink.log[t], IS); for (size_t k = 0; k < K; k++) if ((id_of(a[k]) & kIdMask) != (int)t) { s.fail(K_ + ".tuple-misaligned", "tuple " + std::to_string(t) + " carries message " + std::to_string(id_of(a[k]) & kIdMask) + " of port " + std::to_string(k) + " (one producer per port: tuple i must be the i-th message of every port)"); break; } }
    ST.jq_tuples += (long long)sink.log.size();
    s.sig = mix(0x10, K); for (size_t k = 0; k < K; k++) s.sig = seq_sig(s.sig, comp[k]);
    if (!g_light) { // arrival interleaving across ports
        std::vector<std::pair<uint64_t, int>> arr; for (size_t k = 0; k < K; k++) for (int p = 0; p < ps[k]->np; p++) for (auto& u : ps[k]->puts[p]) arr.push_back({ u.ret, (int)k });
        std::sort(arr.begin(), arr.end()); int sw = 0; for (size_t i = 0; i < arr.size(); i++) { s.sig = mix(s.sig, arr[i].second); if (i && arr[i].second != arr[i - 1].second) sw++; }
        if (sw >= 3 && s.witness.load() == 0) s.witness.store(1);
    }
}

// ---------------------------------------------------------------------------------------------- key_matching join
template <size_t K> struct KeyJoin;
template <> struct KeyJoin<2> { using Tup = std::tuple<int, int>; using type = fl::join_node<Tup, fl::key_matching<int>>; template <class F> static type* make(fl::graph& g, F f) { return new type(g, f, f); } };
template <> struct KeyJoin<3> { using Tup = std::tuple<int, int, int>; using type = fl::join_node<Tup, fl::key_matching<int>>; template <class F> static type* make(fl::graph& g, F f) { return new type(g, f, f, f); } };
struct KeyOf { int operator()(const int& v) const { return v & kIdMask; } };
// value = port << 24 | uid << 12 | key, uid = index of the message in its port's list
template <size_t K> static void run_join_key(Scn& s, tbb::task_arena& A) {
    using KJ = KeyJoin<K>; using Tup = typename KJ::Tup; auto IS = std::make_index_sequence<K>{};
    Rng r(s.seed);
    GraphBox gb(A); fl::graph& g = gb.g();
    std::unique_ptr<typename KJ::type> jp(KJ::make(g, KeyOf{})); auto& j = *jp;
    auto ports = port_arr(j, IS);
    int sk = r.chance(1, 3) ? SK_REJECT : SK_ACCEPT;
    int M = r.chance(1, 5) ? 1 + (int)r.below(4) : 1 + (int)r.below(60);
    unsigned present = (unsigned)r.pick(std::vector<int>{ 100, 100, 90, 60 }), dup = (unsigned)r.pick(std::vector<int>{ 0, 0, 10, 40 });
    struct Msg { int key; bool ok = false, done = false, used = false; };
    std::vector<std::vector<Msg>> list(K);
    std::vector<std::vector<std::vector<int>>> deal(K);        // port -> producer -> indices into list
    int threads = 0; std::vector<std::pair<int, int>> who;
    for (size_t k = 0; k < K; k++) {
        for (int key = 0; key < M; key++) if (r.below(100) < present) { list[k].push_back(Msg{ key }); while (r.below(100) < dup && list[k].size() < 900) list[k].push_back(Msg{ key }); }
        for (size_t i = list[k].size(); i > 1; i--) std::swap(list[k][i - 1], list[k][r.below(i)]);
        int np = 1 + (int)r.below(2); deal[k].resize(np);
        for (size_t i = 0; i < list[k].size(); i++) deal[k][r.below(np)].push_back((int)i);
        for (int p = 0; p < np; p++) { who.push_back({ (int)k, p }); threads++; }
    }
    LogSink<Tup> sink(s, g, sk, r, 64);
    fl::make_edge(j, *sink.in);
    const std::string K_ = "c15.join-key";
    s.params = "join_node<key_matching> ports=" + std::to_string(K) + " keys=" + std::to_string(M) + " present%=" + std::to_string(present) + " dup%=" + std::to_string(dup) + " sink=" + (sk == SK_REJECT ? "rejecting" : "accepting");
    int pattern = (int)r.below(5); uint64_t js = r.next();
    g_phase.store("join-key: producers running");
    crew().run(threads, [&](int idx) {
        int k = who[idx].first, p = who[idx].second; Rng rr(mix(js, idx)); s.active.fetch_add(1, RLX); s.touch();
        for (int i : deal[k][p]) { Msg& m = list[k][i]; m.ok = ports[k]->try_put((k << 24) | (i << 12) | m.key); m.done = true; pace(rr, pattern); }
        s.active.fetch_sub(1, RLX);
    });
    g_phase.store("join-key: wait_for_all");
    g.wait_for_all();
    std::vector<std::vector<int>> accepted(K, std::vector<int>(M, 0)), puts(K, std::vector<int>(M, 0));
    long rejected = 0;
    for (size_t k = 0; k < K; k++) for (auto& m : list[k]) { puts[k][m.key]++; if (m.ok) accepted[k][m.key]++; else rejected++; }
    for (size_t k = 0; k < K; k++) for (auto& m : list[k]) if (!m.ok && puts[k][m.key] == 1) s.fail(K_ + ".put-rejected", "port " + std::to_string(k) + " rejected the only message with key " + std::to_string(m.key));
    std::vector<int> tuples(M, 0);
    for (size_t t = 0; t < sink.log.size(); t++) {
        auto a = tup_arr(sink.log[t], IS); int key = a[0] & kIdMask;
        for (size_t k = 0; k < K; k++) {
            int port = a[k] >> 24, uid = (a[k] >> 12) & kIdMask, ky = a[k] & kIdMask;
            if (ky != key) { s.fail(K_ + ".key-mismatch", "tuple " + std::to_string(t) + " combines keys " + std::to_string(key) + " and " + std::to_string(ky)); continue; }
            if (port != (int)k || uid >= (int)list[k].size() || list[k][uid].key != ky) { s.fail(K_ + ".phantom", "component " + std::to_string(k) + " of tuple " + std::to_string(t) + " is not a message put to that port"); continue; }
            Msg& m = list[k][uid];
            // (a put with a key that is already waiting in the port returns false but REPLACES the waiting message - hash_buffer::insert_with_key -
            //  so a "rejected" message may legitimately appear in a tuple; only counts are checked for such keys)
            if (m.used) s.fail(K_ + ".duplicate-use", "message " + std::to_string(uid) + " of port " + std::to_string(k) + " (key " + std::to_string(ky) + ") was used in two tuples");
            m.used = true;
        }
        if (key < M) tuples[key]++;
    }
    long unmatched = 0;
    for (int key = 0; key < M; key++) {
        int mn = INT32_MAX; for (size_t k = 0; k < K; k++) mn = std::min(mn, accepted[k][key]);
        if (tuples[key] != mn) s.fail(tuples[key] < mn ? K_ + ".lost-match" : K_ + ".duplicate-use", "key " + std::to_string(key) + ": " + std::to_string(tuples[key]) + " tuples, the ports accepted " + [&] { std::string t; for (size_t k = 0; k < K; k++) t += std::to_string(accepted[k][key]) + " "; return t; }() + "messages with it (expected " + std::to_string(mn) + " tuples after wait_for_all)");
        for (size_t k = 0; k < K; k++) { unmatched += accepted[k][key] - tuples[key]; if (accepted[k][key] - tuples[key] > 1) s.fail(K_ + ".duplicate-accepted", "port " + std::to_string(k) + " holds " + std::to_string(accepted[k][key] - tuples[key]) + " unmatched messages with key " + std::to_string(key)); }
    }
    ST.jk_tuples += (long long)sink.log.size(); ST.jk_dup_rejected += rejected; ST.jk_unmatched += unmatched;
    s.sig = mix(0x4B, K); for (auto& t : sink.log) s.sig = mix(s.sig, (uint64_t)(std::get<0>(t) & kIdMask));
    if (!s.fails && rejected > 0 && unmatched > 0 && sink.log.size() > 3) { Json jj; jj.obj(); jj.kv("class", "join key_matching"); jj.kv("ports", (long long)K); jj.kv("keys", M); jj.kv("tuples", (long long)sink.log.size()); jj.kv("puts_rejected_as_duplicate_key", (long long)rejected); jj.kv("unmatched_messages_left", (long long)unmatched); jj.end_obj(); s.sample = jj.s; }
}

// ---------------------------------------------------------------------------------------------- buffers feeding a reserving join
// feeder kinds: 0 buffer_node, 1 queue_node, 2 priority_queue_node. pure = all queue_nodes, no competitor (class join-reserving).
// competitor on feeder 0 (class resv): 0 none, 1 a second reserving join over feeder 0 and an extra queue, 2 a try_get thread, 3 a rejecting serial function_node.
struct Feeder {
    int kind; std::unique_ptr<fl::graph_node> node; fl::receiver<int>* in; fl::sender<int>* out;
    Feeder(fl::graph& g, int kind_) : kind(kind_) {
        if (kind == 0) { auto* p = new fl::buffer_node<int>(g); node.reset(p); in = p; out = p; }
        else if (kind == 1) { auto* p = new fl::queue_node<int>(g); node.reset(p); in = p; out = p; }
        else { auto* p = new fl::priority_queue_node<int>(g); node.reset(p); in = p; out = p; }
    }
};
template <class J, size_t... I> static void edges_to_ports(std::vector<std::unique_ptr<Feeder>>& f, J& j, std::index_sequence<I...>) { int d[] = { (fl::make_edge(*f[I]->out, fl::input_port<I>(j)), 0)... }; (void)d; }
static bool g_allow_bufget = true;      // buffer_node feeder combined with a try_get competitor (see the finding about reserved items)
template <size_t K> static void run_resv(Scn& s, tbb::task_arena& A, bool pure) {
    using Tup = typename IntTuple<K>::type; auto IS = std::make_index_sequence<K>{};
    Rng r(s.seed);
    GraphBox gb(A); fl::graph& g = gb.g();
    int comp = pure ? 0 : (int)r.below(4);
    std::vector<std::unique_ptr<Feeder>> fd;
    for (size_t k = 0; k < K; k++) fd.emplace_back(new Feeder(g, pure ? 1 : (int)r.below(3)));
    if (!pure && comp >= 2 && fd[0]->kind == 0 && !g_allow_bufget) fd[0].reset(new Feeder(g, 1 + (int)r.below(2)));
    if (s.cls == "resvbuf") { fd[0].reset(new Feeder(g, 0)); comp = 2 + (int)r.below(2); }
    fl::join_node<Tup, fl::reserving> j(g);
    int sk = r.chance(1, 2) ? SK_REJECT : SK_ACCEPT;
    int nmax = r.chance(1, 5) ? 5 : 70;
    std::vector<std::unique_ptr<Producers>> ps;
    int threads = 0; std::vector<std::pair<int, int>> who;
    for (size_t k = 0; k < K + 1; k++) {          // producers K = feeder of the second join's own port
        if (k == K && comp != 1) break;
        ps.emplace_back(new Producers(s, g, r, 1 + (int)r.below(2), 0, k == 0 && comp ? 2 * nmax : nmax, true));
        Producers* pp = ps.back().get(); int kk = (int)k;
        for (int p = 0; p < pp->np; p++) { who.push_back({ kk, p }); threads++; }
    }
    LogSink<Tup> sink(s, g, sk, r, 64);
    std::unique_ptr<Feeder> fx; std::unique_ptr<fl::join_node<std::tuple<int, int>, fl::reserving>> j2; std::unique_ptr<LogSink<std::tuple<int, int>>> sink2; std::unique_ptr<LogSink<int>> fsink;
    if (comp == 1) { fx.reset(new Feeder(g, 1)); j2.reset(new fl::join_node<std::tuple<int, int>, fl::reserving>(g)); sink2.reset(new LogSink<std::tuple<int, int>>(s, g, r.chance(1, 2) ? SK_REJECT : SK_ACCEPT, r, 64)); }
    if (comp == 3) fsink.reset(new LogSink<int>(s, g, SK_REJECT, r, 64));
    for (size_t k = 0; k < ps.size(); k++) { Producers* pp = ps[k].get(); fl::receiver<int>* in = k < K ? fd[k]->in : fx->in; int kk = (int)k; pp->put = [pp, in, kk](int p, int i) { return in->try_put((kk << kPortShift) | mkid(p, i)); }; }
    // wiring (random order of the competing edges)
    bool first = r.chance(1, 2);
    auto wire_comp = [&] { if (comp == 1) { fl::make_edge(*fd[0]->out, fl::input_port<0>(*j2)); fl::make_edge(*fx->out, fl::input_port<1>(*j2)); fl::make_edge(*j2, *sink2->in); } if (comp == 3) fl::make_edge(*fd[0]->out, *fsink->in); };
    if (first) wire_comp();
    edges_to_ports(fd, j, IS); fl::make_edge(j, *sink.in);
    if (!first) wire_comp();
    const std::string K_ = std::string("c15.") + (pure ? "join-reserving" : "resv");
    static const char* kn[] = { "buffer", "queue", "priority" };
    s.params = std::string("join_node<reserving> ports=") + std::to_string(K) + " feeders=" + [&] { std::string t; for (auto& f : fd) t += std::string(kn[f->kind]) + " "; return t; }() + "competitor=" + std::to_string(comp) + " sink=" + (sk == SK_REJECT ? "rejecting" : "accepting") + " items=" + [&] { std::string t; for (auto& p : ps) t += std::to_string(p->total()) + " "; return t; }();
    std::vector<int> got; std::atomic<int> prod_done{0};
    uint64_t js = r.next();
    g_phase.store("resv: producers running");
    crew().run(threads + (comp == 2 ? 1 : 0), [&](int idx) {
        if (idx < threads) { ps[who[idx].first]->run_producer(who[idx].second, mix(js, idx)); prod_done.fetch_add(1); return; }
        Rng rr(mix(js, 99));
        for (;;) { bool pd = prod_done.load() == threads; int v = -1; if (fd[0]->out->try_get(v)) { s.consumer_event(); got.push_back(v); progress(); } else if (pd) break; else sched_yield(); pace(rr, 2); }
    });
    g_phase.store("resv: wait_for_all");
    g.wait_for_all(); for (auto& p : ps) p->after_wait();
    // what left each feeder
    std::vector<std::vector<int>> comp_seq(K + 1), all(K + 1); std::vector<size_t> rest(K + 1, 0);
    for (size_t t = 0; t < sink.log.size(); t++) { auto a = tup_arr(sink.log[t], IS); for (size_t k = 0; k < K; k++) { if (port_of(a[k]) != (int)k) s.fail(K_ + ".tuple-misrouted", "component " + std::to_string(k) + " of tuple " + std::to_string(t) + " is a message of feeder " + std::to_string(port_of(a[k]))); comp_seq[k].push_back(id_of(a[k])); } }
    for (size_t k = 0; k < K; k++) all[k] = comp_seq[k];
    std::vector<int> other0;
    if (comp == 1) for (auto& t : sink2->log) { if (port_of(std::get<0>(t)) != 0 || port_of(std::get<1>(t)) != (int)K) s.fail(K_ + ".tuple-misrouted", "second join: tuple components from the wrong feeders"); other0.push_back(id_of(std::get<0>(t))); all[K].push_back(id_of(std::get<1>(t))); }
    if (comp == 2) for (int v : got) { if (port_of(v) != 0) s.fail(K_ + ".phantom", "try_get on feeder 0 returned a value of feeder " + std::to_string(port_of(v))); other0.push_back(id_of(v)); }
    if (comp == 3) for (int v : fsink->log) other0.push_back(id_of(v));
    all[0].insert(all[0].end(), other0.begin(), other0.end());
    for (size_t k = 0; k < ps.size(); k++) { fl::sender<int>* o = k < K ? fd[k]->out : fx->out; int v; while (o->try_get(v)) { all[k].push_back(id_of(v)); rest[k]++; } }
    static const char* kkey[] = { "buffer", "queue", "priority" };
    for (size_t k = 0; k < ps.size(); k++) {
        int kind = k < K ? fd[k]->kind : 1;
        std::string KK = pure ? K_ : K_ + "." + kkey[kind];
        check_fifo(s, KK, *ps[k], all[k], false, false, std::string(kkey[kind]) + "_node feeding port " + std::to_string(k) + " of a reserving join (tuples + competitor + still buffered)");
        if (kind == 1 && k < K) check_fifo(s, KK, *ps[k], comp_seq[k], k == 0 && comp ? 2 : 1, true, "queue_node feeding port " + std::to_string(k) + " of a reserving join: components in tuple order");
        if ((size_t)ps[k]->total() != all[k].size() && !s.fails) s.fail(KK + ".lost", "feeder " + std::to_string(k) + ": " + std::to_string(ps[k]->total()) + " in, " + std::to_string(all[k].size()) + " accounted for (ports x tuples + still buffered)");
    }
    bool stuck = true; for (size_t k = 0; k < K; k++) stuck &= rest[k] > 0;
    if (stuck) s.fail(K_ + ".stuck-tuple", "after wait_for_all every feeder still holds an item (" + [&] { std::string t; for (size_t k = 0; k < K; k++) t += std::to_string(rest[k]) + " "; return t; }() + ") but no tuple was built");
    if (comp == 1 && rest[0] > 0 && rest[K] > 0) s.fail(K_ + ".stuck-tuple", "second join: both of its feeders still hold items after wait_for_all");
    if (comp == 3 && rest[0] > 0) s.fail(K_ + ".stuck", "feeder 0 still holds " + std::to_string(rest[0]) + " items after wait_for_all although an idle rejecting function_node is among its successors");
    if (pure) { size_t mn = SIZE_MAX; for (size_t k = 0; k < K; k++) mn = std::min(mn, (size_t)ps[k]->total()); if (sink.log.size() != mn && !s.fails) s.fail(K_ + ".tuple-count", std::to_string(sink.log.size()) + " tuples for " + std::to_string(mn) + " complete sets of inputs"); }
    ST.resv_tuples += (long long)sink.log.size(); ST.resv_competitor_items += (long long)other0.size();
    s.sig = mix(mix(0x8E5, K), comp); for (size_t k = 0; k < K; k++) s.sig = seq_sig(mix(s.sig, fd[k]->kind), comp_seq[k]); s.sig = seq_sig(s.sig, other0);
    if (s.witness.load() == 0 && !other0.empty() && !sink.log.empty()) s.witness.store(1);
    if (!s.fails && comp && !other0.empty() && sink.log.size() > 2) { Json jj; jj.obj(); jj.kv("class", pure ? "join reserving" : "buffers + reserving join"); jj.kv("params", s.params); jj.kv("tuples", (long long)sink.log.size()); jj.kv("items_taken_by_competitor", (long long)other0.size()); jj.key("still_buffered").arr(); for (size_t k = 0; k < ps.size(); k++) jj.val((long long)rest[k]); jj.end_arr(); jj.end_obj(); s.sample = jj.s; }
}
