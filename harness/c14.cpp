// C14: flow graph conserves messages, honours node concurrency limits; wait_for_all means idle.
//
// Scenario classes (one process runs a mixture, or one class with --mode):
//  G  random DAG (1-14 composite nodes out of 19 kinds, see c14_graph.h) whose expected per-body / per-sink multisets follow from the
//     wiring: every input of a composite accepts (rejecting nodes, limiters, reserving joins sit behind a buffering node inside
//     the composite), single-receiver senders (buffers) get one successor. 1-6 external putter threads (inside or outside the
//     arena) + input_nodes + async_node completions from foreign threads, 1-3 put/wait_for_all rounds on the same graph,
//     optionally a wait_for_all racing the putters.
//  L  lossy mini-topologies: external puts straight into rejecting / limiting / write-once nodes; "rejected is reported":
//     a body processes message x exactly as often as the external try_put(x) returned true; concurrency limits.
//  C  a G graph in which the k-th body invocation cancels the graph or throws: when wait_for_all is over nothing runs and
//     nothing starts; never a duplicate; after graph::reset() a clean round conserves again.
//
// Monitors: per (body, message id) relaxed counters compared with the expectation propagated through the wiring, checked inline
// (duplicate) and after wait_for_all (lost / in transit); RAII live counters per body against the concurrency limit; plain state
// in serial bodies and a plain payload word per message written by the putter (TSan checks put -> body and body -> return edges);
// `quiet` flag between the return of wait_for_all and the next put (a body entry then is a violation); async reservations held.
#define VRT_IMPL
#include "c14_graph.h"
#if VRT_ASAN
#include <sanitizer/lsan_interface.h>
#endif

static std::atomic<Scen*> g_current{nullptr};
static std::atomic<int> g_phase{0};      // 1 building, 2 putting, 3 wait_for_all, 4 evaluating, 5 destroying

// ---------------------------------------------------------------------------------------------- running
static void build_graph(Scen& s, Rng& r) {
    s.payload.reset(new long[s.M]); for (int i = 0; i < s.M; i++) s.payload[i] = 0;
    s.table.assign(s.M, Msg());
    s.arena->execute([&] {
        s.g.reset(new fl::graph);
        for (auto& n : s.nodes) { if (s.ne) build_node<true>(s, *n, r); else build_node<false>(s, *n, r); G.kind[n->kind].fetch_add(1, RLX); }
        for (auto& n : s.nodes) for (int o = 0; o < n->nout; o++) for (auto& e : n->succ[o]) fl::make_edge(*n->out[o], *s.nodes[e.first]->in[e.second]);
    });
}

static void make_table(Scen& s, const std::vector<EV>& ein) {
    for (int x = 0; x < s.M; x++) { Msg& m = s.table[x]; m.id = x; m.seq = 0; m.src = s.ext_target[x].first >= 0 ? 0 : 1; m.rnd = (short)s.round; m.chk = s.chk(x); }
    for (int i = 0; i < s.NN; i++) if (s.nodes[i]->kind == K_SEQ) {
        long rank = 0;
        for (int x = 0; x < s.M; x++) if (ein[i * 2][x]) s.table[x].seq = (int)(s.seq_base + rank++);
        s.seq_base += rank;
    }
}

// one round: puts from nput threads (+ input nodes in round 0), optional racing wait_for_all, the final wait_for_all. Returns true if an exception arrived.
static bool run_round(Scen& s, Rng& r, bool round0) {
    std::vector<int> ext; for (int x = 0; x < s.M; x++) if (s.ext_target[x].first >= 0) ext.push_back(x);
    for (size_t i = ext.size(); i > 1; i--) std::swap(ext[i - 1], ext[r.below(i)]);
    if (r.chance(1, 3)) std::sort(ext.begin(), ext.end());
    s.quiet.store(false, RLX);
    g_phase.store(2);
    bool activate_first = r.chance(1, 2);
    auto activate = [&] { if (round0) for (auto& n : s.nodes) if (n->input) n->input->activate(); };
    if (activate_first) activate();
    int nput = s.nput; uint64_t rs = r.next();
    putters().launch(nput, [&s, &ext, nput, rs](int t) {
        Rng pr(mix(rs, t));
        int ypat = (int)pr.below(4);
        auto loop = [&] {
            for (size_t k = t; k < ext.size(); k += nput) {
                int x = ext[k];
                s.payload[x] = s.pv(x, s.round);
                if (s.live_total.load(RLX) > 0) G.puts_while_running.fetch_add(1, RLX);
                auto tg = s.ext_target[x];
                bool ok = s.nodes[tg.first]->in[tg.second]->try_put(s.table[x]);
                if (s.mode == MODE_L) { s.ret[x] = ok ? 1 : 0; (ok ? G.ext_accepted : G.ext_rejected).fetch_add(1, RLX); }
                else if (!ok && !s.fired.load(RLX)) s.fail("c14.accept.refused-by-accepting-node", "external try_put of message " + std::to_string(x) + " into node " + std::to_string(tg.first) + " (" + s.nodes[tg.first]->desc + ") returned false although that input is queueing/buffering/unlimited");
                progress();
                if (ypat == 1 && pr.chance(1, 6)) sched_yield(); else if (ypat == 2 && pr.chance(1, 4)) spin_iters(200 + (unsigned)pr.below(3000)); else if (ypat == 3 && pr.chance(1, 24)) sleep_us(10 + (unsigned)pr.below(60));
            }
        };
        if (s.inside_mask >> t & 1) s.arena->execute(loop); else loop();
    });
    if (!activate_first) activate();
    // tsan variant: not in the round that binds the graph's context. wait_for_all reads task_group_context::traits() (a plain bit-field) while the
    // first submit from another thread sets the fp_settings bit of the same byte in bind_to: a formal data race in the library (benign on x86,
    // reported separately), which would otherwise drown the reports this variant is for.
    if (s.early_wait && !(g_light && round0)) { G.early_waits.fetch_add(1, RLX); s.g->wait_for_all(); }
    putters().wait();
    g_phase.store(3);
    bool caught = false;
    try { s.g->wait_for_all(); } catch (Boom&) { caught = true; }
    return caught;
}

static void check_counts(Scen& s, bool full, const char* when) {
    const char* lost_key = "c14.conserve.message-lost";
    for (auto& n : s.nodes) {
        std::vector<Probe*> single; std::vector<Probe*> grp;
        for (auto& p : n->probes) (p->group >= 0 ? grp : single).push_back(p.get());
        if (n->drain) single.clear();                    // content probes are filled by the drain
        auto cmp = [&](const std::string& name, int x, uint64_t c, uint64_t e, std::function<uint64_t()> reread) {
            if (c > e) s.fail("c14.conserve.message-duplicated", name + " processed message " + std::to_string(x) + " " + std::to_string(c) + " times, the wiring allows " + std::to_string(e) + when);
            else if (c < e && full) {
                // lost, or still on its way although wait_for_all returned? give it 30 ms
                double t0 = now_s(); uint64_t c2 = c;
                while (now_s() - t0 < 0.03 && (c2 = reread()) < e) sched_yield();
                if (c2 >= e) s.fail("c14.idle.message-in-transit-at-return", name + " processed message " + std::to_string(x) + " only after wait_for_all had returned (" + std::to_string(c) + " of " + std::to_string(e) + " invocations at the return)" + when);
                else s.fail(lost_key, name + " processed message " + std::to_string(x) + " " + std::to_string(c2) + " times, the wiring demands " + std::to_string(e) + " (" + std::to_string(s.M) + " messages, " + std::to_string(s.NN) + " nodes)" + when);
            }
        };
        for (Probe* p : single) for (int x = 0; x < s.M && s.fails.load(RLX) < 20; x++) { uint32_t c = p->cnt[x].load(RLX); if (p->lossy ? c > p->exp[x] : c != p->exp[x]) cmp(p->name, x, c, p->exp[x], [&] { return (uint64_t)p->cnt[x].load(RLX); }); if (p->lossy && c < p->exp[x]) G.lossy_drops.fetch_add(p->exp[x] - c, RLX); }
        if (!grp.empty()) for (int x = 0; x < s.M && s.fails.load(RLX) < 20; x++) {
            auto sum = [&] { uint64_t t = 0; for (Probe* p : grp) t += p->cnt[x].load(RLX); return t; };
            uint64_t c = sum(); if (c != grp[0]->exp[x]) cmp("node " + std::to_string(n->idx) + " (" + kind_name[n->kind] + "), all workers together", x, c, grp[0]->exp[x], sum);
        }
    }
}

// after the final wait_for_all of a round
static void evaluate(Scen& s, bool full, bool last, const char* when) {
    int lt = s.live_total.load(RLX); long inv = s.inv_total.load(RLX); int infl = s.async_inflight.load(RLX);
    s.quiet.store(true, RLX);
    g_phase.store(4);
    G.waits_checked.fetch_add(1, RLX);
    if (lt != 0) s.fail("c14.idle.body-running-at-return", std::to_string(lt) + " node body invocation(s) still running when wait_for_all returned" + when);
    if (infl != 0) s.fail("c14.idle.reserve-wait-outstanding", "wait_for_all returned while " + std::to_string(infl) + " async_node gateway reservation(s) (reserve_wait without release_wait) were outstanding" + when);
    if (full && s.async_submitted.load(RLX) != s.async_completed.load(RLX)) s.fail("c14.idle.reserve-wait-outstanding", "wait_for_all returned with " + std::to_string(s.async_submitted.load() - s.async_completed.load()) + " async activities not completed" + when);
    check_counts(s, full, when);
    for (auto& n : s.nodes) for (auto& p : n->probes) if (p->limit == 1 && p->counts_live && p->plain_pos != p->inv.load(RLX) && !s.fails.load(RLX))
        s.fail("c14.limit.concurrency-exceeded", p->name + ": the unsynchronised position counter of the serial body says " + std::to_string(p->plain_pos) + " invocations, " + std::to_string(p->inv.load()) + " took place (lost update = overlapping invocations)" + when);
    if (last && full) for (auto& n : s.nodes) if (n->drain) {
        Probe& p = *n->probes[0]; Msg m; long got = 0;
        while (n->drain->try_get(m)) { got++; if (m.id < 0 || m.id >= s.M || m.chk != s.chk(m.id)) { s.fail("c14.conserve.phantom-message", p.name + ": drained a message that was never put (id " + std::to_string(m.id) + ")"); break; } p.cnt[m.id].fetch_add(1, RLX); if (got > 1000000) break; }
        G.drained.fetch_add(got, RLX);
        for (int x = 0; x < s.M && s.fails.load(RLX) < 20; x++) { uint32_t c = p.cnt[x].load(RLX);
            if (c > p.exp[x]) s.fail("c14.conserve.message-duplicated", p.name + ": message " + std::to_string(x) + " is buffered " + std::to_string(c) + " times, the wiring allows " + std::to_string(p.exp[x]));
            else if (c < p.exp[x]) s.fail("c14.conserve.message-lost", p.name + ": message " + std::to_string(x) + " is buffered " + std::to_string(c) + " times, the wiring demands " + std::to_string(p.exp[x])); }
    }
    if ((inv & 7) == 0) spin_iters(20000 + (unsigned)(inv % 60000)); else if ((inv & 7) == 1) sched_yield();
    long inv2 = s.inv_total.load(RLX);
    if (inv2 != inv || s.live_total.load(RLX) != 0) s.fail("c14.idle.body-started-after-return", std::to_string(inv2 - inv) + " body invocation(s) started after wait_for_all had returned, nothing was put in between" + when);
}

static uint64_t topo_hash(Scen& s) {
    uint64_t h = mix(0xC14, s.M);
    for (auto& n : s.nodes) { h = mix(h, n->kind * 1000 + n->limit * 100 + n->policy * 10 + n->variant % 7); for (int o = 0; o < n->nout; o++) for (auto& e : n->succ[o]) h = mix(h, e.first * 4 + e.second * 2 + o); }
    return h;
}

static void finish_scenario(Scen& s, Result& R, uint64_t extra_sig) {
    R.scenarios++;
    int threads = __builtin_popcountll(s.tmask.load(RLX)); long bodies = s.inv_total.load(RLX);
    G.bodies.fetch_add(bodies, RLX); G.msgs.fetch_add(s.M, RLX);
    atomic_max(G.max_live, (long long)s.max_total.load(RLX)); atomic_max(G.max_threads, (long long)threads);
    if (s.max_total.load(RLX) >= 2) G.scen_overlap.fetch_add(1, RLX);
    uint64_t sig = mix(topo_hash(s), extra_sig); sig = mix(sig, threads);
    int reached = 0;
    for (auto& n : s.nodes) for (auto& p : n->probes) {
        sig = mix(sig, p->maxlive.load(RLX));
        if (p->limit && p->counts_live) { G.limited_nodes.fetch_add(1, RLX); if (p->maxlive.load(RLX) == p->limit && p->inv.load(RLX) > 1) { G.limit_reached.fetch_add(1, RLX); reached++; } }
        if (p->limit == 1 && p->counts_live) for (long k = 0; k < std::min<long>(p->plain_pos, 24); k++) sig = mix(sig, p->order[k] + 3);     // processing order at serial bodies
    }
    bool nontrivial = threads >= 2 && bodies >= 2 && s.M >= 2;
    if (nontrivial) { R.nontrivial++; R.signature(sig); }
    if (s.fails.load()) {
        s.poisoned = true;
        std::string key = s.fail_first.substr(0, s.fail_first.find('|')), det = s.fail_first.substr(s.fail_first.find('|') + 1);
        R.violation(key, det + " (" + std::to_string(s.fails.load()) + " failed checks in this graph)\n" + (g_light ? std::string() : rings_dump(8)), s.describe());
    } else if (nontrivial && s.NN >= 4 && reached >= 1 && s.max_total.load(RLX) >= 3 && R.want_sample()) {
        Json j; j.obj(); j.key("graph").raw(s.describe()); j.kv("threads_running_bodies", threads); j.kv("body_invocations", (long long)bodies); j.kv("max_bodies_at_once", s.max_total.load());
        j.key("limited_bodies").arr(); for (auto& n : s.nodes) for (auto& p : n->probes) if (p->limit && p->counts_live) { j.obj(); j.kv("body", p->name); j.kv("limit", p->limit); j.kv("max_observed", p->maxlive.load()); j.end_obj(); } j.end_arr();
        for (auto& n : s.nodes) for (auto& p : n->probes) if (p->limit == 1 && p->counts_live && p->plain_pos > 4) { j.key("processing_order_at_" + p->name).arr(); for (long k = 0; k < std::min<long>(p->plain_pos, 24); k++) j.val(p->order[k]); j.end_arr(); goto done; }
    done:
        j.end_obj(); R.sample(j.s);
    }
    progress();
}

// ---------------------------------------------------------------------------------------------- class G and C
static void run_dag(Scen& s, Rng& r, Result& R) {
    g_phase.store(1);
    gen_topology(s, r, 14);
    s.nput = 1 + (int)r.below(r.chance(1, 3) ? 6 : 3);
    s.inside_mask = r.chance(1, 3) ? (unsigned)r.below(64) : 0;
    s.rounds = s.mode == MODE_C ? 1 : r.chance(3, 5) ? 1 : 2 + (int)r.below(2);
    s.early_wait = s.mode == MODE_G && r.chance(1, 4);
    if (s.mode == MODE_C) {
        long est = propagate(s, false, true);
        s.trigger_at = (long)r.below((uint64_t)(est + est / 4 + 2));
        s.trigger_throw = r.chance(1, 2);
        s.ne = !s.trigger_throw;
    }
    build_graph(s, r);
    bool fired = false;
    for (s.round = 0; s.round < s.rounds; s.round++) {
        std::vector<EV> ein; propagate(s, true, s.round == 0, &ein);
        make_table(s, ein);
        run_round(s, r, s.round == 0);
        fired = s.fired.load(RLX);
        G.rounds.fetch_add(1, RLX);
        evaluate(s, !fired, s.round == s.rounds - 1 && s.mode == MODE_G, fired ? " [round that was cancelled / threw]" : "");
        if (s.fails.load()) break;
    }
    if (s.mode == MODE_C && fired && !s.fails.load()) {
        // the graph must be usable again after reset(): one clean round
        s.trigger_at = -1;
        s.arena->execute([&] { s.g->reset(); });
        G.resets.fetch_add(1, RLX);
        for (auto& n : s.nodes) { n->emit_ctr.store(0, RLX); n->fires_total = 0; for (auto& p : n->probes) { for (int x = 0; x < s.M; x++) p->cnt[x].store(0, RLX); p->exp.assign(s.M, 0); p->plain_pos = 0; p->inv.store(0, RLX); } }
        s.seq_base = 0; s.round = 1; s.fired.store(false, RLX);
        s.async_submitted.store(0); s.async_completed.store(0);
        std::vector<EV> ein; propagate(s, true, false, &ein);
        make_table(s, ein);
        run_round(s, r, false);
        G.rounds.fetch_add(1, RLX);
        evaluate(s, true, false, " [clean round after cancel/exception and graph::reset()]");
    }
    finish_scenario(s, R, fired ? 77 : 0);
}

// ---------------------------------------------------------------------------------------------- class L
// lossy_kind: 0 rejecting function_node entry; 1 limiter_node entry; 2 write_once_node entry; 3 rejecting -> rejecting chain;
//             4 queue -> limiter -> rejecting worker with additional direct puts into the limiter
static void run_lossy(Scen& s, Rng& r, Result& R, int forced_kind) {
    g_phase.store(1);
    s.lossy_kind = forced_kind >= 0 ? forced_kind : (int)r.below(5);
    s.M = 4 + (int)r.below(r.chance(1, 3) ? 200 : 60); s.NN = 1;
    s.nput = 1 + (int)r.below(5); s.inside_mask = r.chance(1, 3) ? (unsigned)r.below(64) : 0; s.rounds = 1;
    s.nodes.emplace_back(new NodeRec); NodeRec& n = *s.nodes.back(); n.idx = 0; n.kind = K_FR;
    s.ext_target.assign(s.M, { 0, 0 }); s.ret.assign(s.M, -1);
    s.payload.reset(new long[s.M]); for (int i = 0; i < s.M; i++) s.payload[i] = 0;
    s.table.assign(s.M, Msg());
    int lim = 1 + (int)r.below(3), lim2 = 1 + (int)r.below(2), th = 1 + (int)r.below(3); bool wrej = r.chance(1, 2), lw = r.chance(1, 4);
    std::vector<Probe*> P;
    s.arena->execute([&] {
        s.g.reset(new fl::graph); fl::graph& g = *s.g;
        auto sink = [&](const char* nm) { Probe* p = add_probe(s, n, nm, 0, r); P.push_back(p); return mk<fl::function_node<Msg, Msg, fl::queueing>>(n, g, fl::unlimited, FnBody<true>{ &s, p }); };
        switch (s.lossy_kind) {
        case 0: {
            Probe* p = add_probe(s, n, "entry body", lim, r); P.push_back(p);
            auto* sk = sink("sink body");
            if (!lw) { auto* f = mk<fl::function_node<Msg, Msg, fl::rejecting>>(n, g, (size_t)lim, FnBody<true>{ &s, p }); fl::make_edge(*f, *sk); n.in[0] = f; }
            else { auto* f = mk<fl::function_node<Msg, Msg, fl::rejecting_lightweight>>(n, g, (size_t)lim, FnBody<true>{ &s, p }); fl::make_edge(*f, *sk); n.in[0] = f; }
            n.desc = std::string("external puts -> function_node<rejecting") + (lw ? "_lightweight" : "") + ">(" + std::to_string(lim) + ") -> function_node<queueing>(unlimited)";
        } break;
        case 1: case 4: {
            Probe* pw = add_probe(s, n, "worker body", 1, r); P.push_back(pw);
            Probe* pd = add_probe(s, n, "decrement adapter body", 0, r); P.push_back(pd);
            auto* l = mk<fl::limiter_node<Msg>>(n, g, (size_t)th);
            auto* d = mk<fl::function_node<Msg, fl::continue_msg, fl::queueing>>(n, g, fl::unlimited, ToContBody<true>{ &s, pd });
            if (s.lossy_kind == 4) wrej = true;
            if (wrej) { auto* w = mk<fl::function_node<Msg, Msg, fl::rejecting>>(n, g, fl::serial, FnBody<true>{ &s, pw }); fl::make_edge(*l, *w); fl::make_edge(*w, *d); }
            else { auto* w = mk<fl::function_node<Msg, Msg, fl::queueing>>(n, g, fl::serial, FnBody<true>{ &s, pw }); fl::make_edge(*l, *w); fl::make_edge(*w, *d); }
            fl::make_edge(*d, l->decrementer());
            n.in[0] = l;
            n.desc = "external puts -> limiter_node(" + std::to_string(th) + ") -> function_node<" + (wrej ? "rejecting" : "queueing") + ">(serial) -> function_node -> decrementer";
            if (s.lossy_kind == 4) { auto* q = mk<fl::queue_node<Msg>>(n, g); fl::make_edge(*q, *l); n.in[1] = q; n.nin = 2; for (int x = 0; x < s.M; x += 2) s.ext_target[x] = { 0, 1 }; n.desc = "even ids: external puts -> queue_node -> limiter; odd ids: " + n.desc; }
        } break;
        case 2: {
            auto* w = mk<fl::write_once_node<Msg>>(n, g);
            auto* a = sink("sink A body"); auto* b = sink("sink B body");
            fl::make_edge(*w, *a); fl::make_edge(*w, *b); n.in[0] = w; n.desc = "external puts -> write_once_node -> 2 x function_node<queueing>";
        } break;
        default: {
            Probe* p1 = add_probe(s, n, "first body", lim, r); P.push_back(p1);
            Probe* p2 = add_probe(s, n, "second body", lim2, r); P.push_back(p2);
            auto* sk = sink("sink body");
            auto* f1 = mk<fl::function_node<Msg, Msg, fl::rejecting>>(n, g, (size_t)lim, FnBody<true>{ &s, p1 });
            auto* f2 = mk<fl::function_node<Msg, Msg, fl::rejecting>>(n, g, (size_t)lim2, FnBody<true>{ &s, p2 });
            fl::make_edge(*f1, *f2); fl::make_edge(*f2, *sk); n.in[0] = f1;
            n.desc = "external puts -> function_node<rejecting>(" + std::to_string(lim) + ") -> function_node<rejecting>(" + std::to_string(lim2) + ") -> function_node<queueing>";
        } break;
        }
    });
    G.kind[K_COUNT + s.lossy_kind].fetch_add(1, RLX);
    for (auto& p : n.probes) p->exp.assign(s.M, 1);
    for (int x = 0; x < s.M; x++) { Msg& m = s.table[x]; m.id = x; m.rnd = 0; m.chk = s.chk(x); }
    run_round(s, r, true);
    // "rejected is reported": processed exactly as often as the put was accepted
    int lt = s.live_total.load(RLX); long inv = s.inv_total.load(RLX);
    s.quiet.store(true, RLX); g_phase.store(4); G.waits_checked.fetch_add(1, RLX);
    if (lt != 0) s.fail("c14.idle.body-running-at-return", std::to_string(lt) + " node body invocation(s) still running when wait_for_all returned");
    long acc = 0;
    const std::string rk = "c14.reject.";
    auto need = [&](Probe* p, int x, uint32_t want, const char* why) {
        uint32_t c = p->cnt[x].load(RLX);
        if (c == want) return;
        if (c < want) { double t0 = now_s(); while (now_s() - t0 < 0.03 && p->cnt[x].load(RLX) < want) sched_yield(); uint32_t c2 = p->cnt[x].load(RLX);
            if (c2 >= want) s.fail("c14.idle.message-in-transit-at-return", p->name + " processed message " + std::to_string(x) + " only after wait_for_all had returned");
            else s.fail(rk + "accepted-message-not-processed", p->name + " never processed message " + std::to_string(x) + " although " + why); }
        else s.fail(rk + (want == 0 ? "rejected-message-processed" : "processed-more-often-than-accepted"), p->name + " processed message " + std::to_string(x) + " " + std::to_string(c) + " times although " + why);
    };
    for (int x = 0; x < s.M && s.fails.load(RLX) < 20; x++) {
        bool ok = s.ret[x] == 1; acc += ok;
        const char* why = ok ? "its external try_put returned true" : "its external try_put returned false";
        switch (s.lossy_kind) {
        case 0: need(P[0], x, ok, why); need(P[1], x, ok, why); break;
        case 1: need(P[0], x, ok, why); need(P[1], x, ok, why); break;
        case 4: if (x % 2 == 0) { if (!ok) s.fail("c14.accept.refused-by-accepting-node", "queue_node rejected an external try_put"); need(P[0], x, 1, "it was put into the queue_node in front of the limiter"); }
                else { need(P[0], x, ok, why); if (ok) G.l3_direct_accepted.fetch_add(1, RLX); } break;
        case 2: need(P[0], x, ok, why); need(P[1], x, ok, why); break;
        default: need(P[0], x, ok, why); { uint32_t c1 = P[0]->cnt[x].load(RLX), c2 = P[1]->cnt[x].load(RLX), c3 = P[2]->cnt[x].load(RLX);
                 if (c2 > c1) s.fail("c14.conserve.message-duplicated", "second body processed message " + std::to_string(x) + " more often than the first");
                 if (c3 != c2) s.fail(c3 > c2 ? "c14.conserve.message-duplicated" : "c14.conserve.message-lost", "queueing sink processed message " + std::to_string(x) + " " + std::to_string(c3) + " times, its predecessor emitted it " + std::to_string(c2) + " times");
                 if (c2 < c1) G.lossy_dropped.fetch_add(1, RLX); } break;
        }
    }
    if (s.lossy_kind == 2 && acc != 1) s.fail("c14.reject.write-once-accept-count", "write_once_node accepted " + std::to_string(acc) + " of " + std::to_string(s.M) + " puts");
    for (auto& p : n.probes) if (p->limit == 1 && p->plain_pos != p->inv.load(RLX) && !s.fails.load(RLX)) s.fail("c14.limit.concurrency-exceeded", p->name + ": unsynchronised position counter " + std::to_string(p->plain_pos) + " != " + std::to_string(p->inv.load()) + " invocations");
    if ((inv & 3) == 0) spin_iters(30000);
    if (s.inv_total.load(RLX) != inv) s.fail("c14.idle.body-started-after-return", std::to_string(s.inv_total.load() - inv) + " body invocation(s) started after wait_for_all had returned");
    G.rounds.fetch_add(1, RLX);
    finish_scenario(s, R, 1000 + s.lossy_kind * 100000 + (uint64_t)acc);
}

// ---------------------------------------------------------------------------------------------- main
int main(int argc, char** argv) {
    Args a = standard_init(argc, argv, "c14");
    Result& R = result();
    long cases = a.num("cases", 2000);
    g_light = (R.variant == "tsan") || a.has("light");
    int fixed_conc = (int)a.num("conc", 0);
    bool hot = a.num("hot", 1) != 0;
    std::string mode = R.mode == "default" ? "mix" : R.mode;
    std::vector<int> ids = { 180, 181, 182, 183, 184, 185, 187, 180, 181, 182, 183, 170, 171, 41, 42, 40, 8, 10 };
    Rng top(mix(R.seed, 0xC14));
    tbb::global_control gc(tbb::global_control::max_allowed_parallelism, 16);

    static const int concs[] = { 1, 2, 3, 4, 8, 16 };
    std::vector<std::unique_ptr<tbb::task_arena>> arenas;
    for (int c : concs) { arenas.emplace_back(new tbb::task_arena(c, 1)); arenas.back()->initialize(); }
    putters().start(6); foreign().start(2); keeper().start();

    WatchdogCfg wc;
    watchdog_start(wc, [&](const HangInfo& hi) {
        Scen* s = g_current.load(); int ph = g_phase.load();
        std::string d = std::string(ph == 3 ? "graph::wait_for_all did not return" : ph == 2 ? "an external try_put / early wait_for_all did not return" : ph == 5 ? "graph destruction did not return" : "no progress") +
                        ": stalled for " + std::to_string(hi.stalled_for) + "s";
        if (s) d += "; bodies running " + std::to_string(s->live_total.load()) + ", body invocations so far " + std::to_string(s->inv_total.load()) + ", async submitted/completed " + std::to_string(s->async_submitted.load()) + "/" + std::to_string(s->async_completed.load());
        d += "; threads: " + hi.threads + "\n" + rings_dump();
        // every body is non-blocking and finite, every async activity is completed by the foreign threads: if those are idle and no body is
        // running, the awaited return is always satisfiable
        bool decidable = s && (ph == 2 || ph == 3 || ph == 5) && foreign().idle() && (hi.quiescent || hi.spin_stall);
        if (!decidable) { R.inconclusive++; fprintf(stderr, "[c14] watchdog: inconclusive stall in phase %d\n%s\n", ph, d.c_str()); R.finish_and_exit(4); }
        R.violation(hi.quiescent ? "c14.idle.hang.quiescent" : "c14.idle.hang.spin-stall", d, s->describe());
        R.finish_and_exit(3);
    });

    auto run_one = [&](uint64_t seed, int ai, int md, int lossy_kind, Rng& r) {
        Scen* s = new Scen; s->seed = seed; s->mode = md; s->conc = concs[ai]; s->arena = arenas[ai].get(); s->salt = (unsigned)mix(seed, 5);
        Rng sr(seed);
        g_current.store(s);
        set_crash_context(md == MODE_G ? "G" : md == MODE_L ? "L" : "C");
        perturb_random(r, ids);
        if (md == MODE_L) run_lossy(*s, sr, R, lossy_kind); else run_dag(*s, sr, R);
        g_phase.store(5);
        if (!s->poisoned) delete s;              // a graph that misbehaved is never destroyed: its tasks may still be around
        g_current.store(nullptr); g_phase.store(0);
        progress();
    };
    auto mode_of = [&](Rng& r, int& lossy_kind) {
        lossy_kind = -1;
        if (mode == "G") return (int)MODE_G; if (mode == "C") return (int)MODE_C;
        if (mode == "L") return (int)MODE_L;
        if (mode == "L3") { lossy_kind = 4; return (int)MODE_L; }
        unsigned k = (unsigned)r.below(100); return k < 72 ? (int)MODE_G : k < 86 ? (int)MODE_L : (int)MODE_C;
    };

    if (a.has("one")) {
        uint64_t sd = strtoull(a.str("one").c_str(), nullptr, 0); long rep = a.num("repeat", 200); std::string om = a.str("onemode", "G");
        int ai = 4; for (int i = 0; i < 6; i++) if (concs[i] == fixed_conc) ai = i;
        if (concs[ai] > 1 && hot) keeper().set(arenas[ai].get());
        Rng r(mix(R.seed, 77));
        for (long k = 0; k < rep; k++) run_one(sd, ai, om == "L" ? MODE_L : om == "C" ? MODE_C : MODE_G, a.has("lossy") ? (int)a.num("lossy", 0) : -1, r);
        cases = 0;
    }
    long done = 0;
    while (done < cases) {
        int ai = (int)top.pick(std::vector<int>{ 0, 1, 1, 2, 3, 3, 4, 4, 5, 5 });
        if (fixed_conc) for (int i = 0; i < 6; i++) if (concs[i] == fixed_conc) ai = i;
        keeper().set(hot && concs[ai] > 1 ? arenas[ai].get() : nullptr);
        long batch = std::min<long>(cases - done, 30 + (long)top.below(60));
        uint64_t bseed = top.next(); Rng r(mix(bseed, 1));
        for (long k = 0; k < batch; k++) { int lk; int md = mode_of(r, lk); run_one(mix(bseed, 1000 + k), ai, md, lk, r); }
        done += batch;
        perturb().clear();
    }
    keeper().set(nullptr);
    perturb().clear();
    watchdog_stop();
    R.stat("body_invocations", G.bodies.load()); R.stat("messages", G.msgs.load()); R.stat("rounds", G.rounds.load()); R.stat("messages_a_rejecting_first_successor_of_a_fanout_did_not_get(cumulative per round)", G.lossy_drops.load()); R.stat("wait_for_all_returns_checked", G.waits_checked.load());
    R.stat("wait_for_all_racing_putters", G.early_waits.load()); R.stat("external_puts_while_bodies_running", G.puts_while_running.load());
    R.stat("limited_bodies", G.limited_nodes.load()); R.stat("limited_bodies_that_reached_their_limit", G.limit_reached.load()); R.stat("scenarios_bodies_overlapped", G.scen_overlap.load());
    R.stat("async_completions_from_foreign_threads", G.async_done.load()); R.stat("lossy_external_puts_accepted", G.ext_accepted.load()); R.stat("lossy_external_puts_rejected", G.ext_rejected.load());
    R.stat("lossy_messages_dropped_between_rejecting_nodes", G.lossy_dropped.load()); R.stat("lossy_direct_limiter_puts_accepted", G.l3_direct_accepted.load());
    R.stat("cancels_fired", G.cancels_fired.load()); R.stat("throws_fired", G.throws_fired.load()); R.stat("resets_followed_by_clean_round", G.resets.load()); R.stat("messages_found_in_terminal_buffers", G.drained.load());
    for (int k = 0; k < K_COUNT; k++) R.stat(std::string("nodes_") + kind_name[k], G.kind[k].load());
    for (int k = 0; k < 5; k++) R.stat("lossy_topology_" + std::to_string(k), G.kind[K_COUNT + k].load());
    R.stat_max("max_bodies_running_at_once", G.max_live.load()); R.stat_max("max_threads_in_one_graph", G.max_threads.load());
    R.stat("hook_delays", (long long)perturb().delays.load());
    // the library must be the instrumented one (a pruned build directory makes the loader fall back to the system libtbb)
    if (cases > 0 && hook_count(8) + hook_count(58) + hook_count(30) + hook_count(41) == 0) { fprintf(stderr, "[c14] no hook compiled into libtbb fired: wrong libtbb loaded?\n"); R.write(); _exit(2); }
#if VRT_ASAN
    R.write();
    __lsan_do_leak_check();
    _exit(0);
#endif
    R.finish_and_exit(0);
}
