// C11 growth scenarios: plans, execution of one growth call with the in-thread checks, the quiescent oracle.
//   G  2-4 (sometimes 1 or 5-8) threads growing one vector, no faults           -> exact tiling, values, construction counts, layout
//   E  the same, one element constructor of a push_back/emplace_back throws      -> strict: cannot leave an unallocated segment behind
//   M  the same, a constructor (any call) or an allocation throws; then further  -> contains the known starvation defect (own process)
//      sequential growth
#pragma once
#include "c11_common.h"

namespace c11 {

enum Kind : uint8_t { K_PUSH_COPY, K_PUSH_MOVE, K_EMPLACE, K_GROW, K_GROW_VAL, K_GROW_ITER, K_GROW_IL, K_GTAL, K_GTAL_VAL, K_RESERVE, K_COUNT };
static const char* const kind_names[] = { "push_back(const&)", "push_back(&&)", "emplace_back", "grow_by(d)", "grow_by(d,v)", "grow_by(first,last)", "grow_by({3})", "grow_to_at_least(n)", "grow_to_at_least(n,v)", "reserve(n)" };
enum Outcome : uint8_t { O_OK, O_BOOM, O_BADALLOC, O_OTHER };
static const char* const outcome_names[] = { "ok", "Boom", "bad_alloc", "other-exception" };
inline bool single_kind(int k) { return k == K_PUSH_COPY || k == K_PUSH_MOVE || k == K_EMPLACE; }
inline bool gtal_kind(int k) { return k == K_GTAL || k == K_GTAL_VAL; }

struct Op { uint8_t kind = K_PUSH_COPY; uint64_t arg = 0; uint16_t delay = 0; };
enum { F_NONE = 0, F_CTOR = 1, F_ALLOC = 2, F_TABLE = 3, F_FIRST = 4 };
struct Plan {
    int cls = 'G'; uint64_t seed = 0; int nthreads = 2;
    std::vector<Op> pre;                    // sequential prefix run by the coordinator
    std::vector<Op> ops[Pool::kMax];
    std::vector<Op> post;                   // sequential growth after the concurrent part (class M / Salloc)
    int fault = F_NONE; long fault_at = -1; uint32_t table_delay_us = 0; bool pre_sized_first_block = false;
    uint32_t alloc_delay_prob = 0;
};
inline void ops_json(Json& j, const std::vector<Op>& ops) { j.arr(); for (auto& o : ops) { j.arr(); j.val(kind_names[o.kind]); j.val((unsigned long long)o.arg); j.end_arr(); } j.end_arr(); }
inline std::string plan_json(const Plan& p) {
    Json j; j.obj(); j.kv("class", cls_name(p.cls)); j.kv("plan_seed", hex64(p.seed)); j.kv("threads", p.nthreads);
    j.key("prefix"); ops_json(j, p.pre);
    j.key("ops").arr(); for (int t = 0; t < p.nthreads; t++) ops_json(j, p.ops[t]); j.end_arr();
    if (!p.post.empty()) { j.key("after"); ops_json(j, p.post); }
    j.kv("fault", p.fault == F_CTOR ? "constructor" : p.fault == F_ALLOC ? "allocation" : p.fault == F_TABLE ? "allocation of the long segment table" : p.fault == F_FIRST ? "allocation of the first block (slow)" : "none"); j.kv("fault_at", (long long)p.fault_at);
    j.kv("alloc_delay_prob_65536", (unsigned)p.alloc_delay_prob);
    j.end_obj(); return j.s;
}

struct CallRec {
    uint8_t kind = 0, outcome = O_OK; int tid = -1; int callno = 0;
    uint64_t arg = 0, start = 0, count = 0, t0 = 0, t1 = 0, vb = 0;
    uint64_t size_before = 0;
    long ctors = 0, allocs = 0;            // in-vector constructions / allocator calls made by the calling thread during the call
};
inline uint64_t value_base(uint64_t scn, int tid, int callno) { return 0x1000000000000000ull | ((scn & 0xfffff) << 40) | ((uint64_t)(tid & 0xf) << 36) | ((uint64_t)(callno & 0xfff) << 24); }
inline uint64_t expected_value(const CallRec& c, uint64_t j) {
    switch (c.kind) { case K_GROW: case K_GTAL: return kDef; case K_GROW_ITER: case K_GROW_IL: return c.vb + j; default: return c.vb; }
}
inline std::string rec_str(const CallRec& c) {
    return "thread " + std::to_string(c.tid) + " call " + std::to_string(c.callno) + " " + kind_names[c.kind] + " arg " + std::to_string(c.arg) + " -> " + outcome_names[c.outcome] +
           (c.outcome == O_OK ? " [" + std::to_string(c.start) + "," + std::to_string(c.start + c.count) + ")" : "");
}

struct SeqIt {      // forward iterator producing vb, vb+1, ... (grow_by(first,last) constructs Elem(uint64_t) from it)
    using iterator_category = std::forward_iterator_tag; using value_type = uint64_t; using difference_type = std::ptrdiff_t; using pointer = const uint64_t*; using reference = uint64_t;
    uint64_t cur = 0;
    uint64_t operator*() const { return cur; }
    SeqIt& operator++() { ++cur; return *this; }
    SeqIt operator++(int) { SeqIt t = *this; ++cur; return t; }
    bool operator==(const SeqIt& o) const { return cur == o.cur; }
    bool operator!=(const SeqIt& o) const { return cur != o.cur; }
};

struct Sample { uint64_t index; const Elem* addr; };
struct ThreadState {
    std::vector<CallRec> recs; std::vector<Sample> samples;
    std::string fail_what, fail_detail;
    Rng rng{1};
    long own_checked = 0, gtal_short = 0, gtal_returns = 0, resampled = 0;
    void reset(uint64_t seed) { recs.clear(); samples.clear(); fail_what.clear(); fail_detail.clear(); rng = Rng(seed); own_checked = gtal_short = gtal_returns = resampled = 0; }
    void fail(const std::string& w, const std::string& d) { if (fail_what.empty()) { fail_what = w; fail_detail = d; } }
};

struct Engine {
    Pool pool;
    ThreadState ts[Pool::kMax + 2];        // [kMax] coordinator prefix, [kMax+1] coordinator growth after the fault
    bool strict_gtal = true, emit_uninit = true;
    uint64_t scn = 0;
};
constexpr int kPreTid = Pool::kMax, kPostTid = Pool::kMax + 1;

// ---------------------------------------------------------------------------------------------- one growth call
struct ExecCfg { int cls; bool faults_possible; bool alloc_faults; bool strict_gtal; };

inline void verify_own(Vec& v, Vec::iterator it, const CallRec& c, ThreadState& ts) {
    if (!c.count) return;
    Ctx* cx = g_ctx().load(kRlx);
    auto check = [&](uint64_t j, bool sample) {
        Elem* p = &v[c.start + j];
        Elem* q = &*(it + (std::ptrdiff_t)j);
        if (p != q) { ts.fail("iterator-address-mismatch", rec_str(c) + ": &*(it+" + std::to_string(j) + ") = " + hex64((uintptr_t)q) + " but &v[" + std::to_string(c.start + j) + "] = " + hex64((uintptr_t)p)); return; }
        Region* r = cx ? cx->find((uintptr_t)p) : nullptr;
        if (cx && !r && !cx->overflow.load(kRlx)) { ts.fail("element-outside-allocated-storage", rec_str(c) + ": index " + std::to_string(c.start + j) + " is at " + hex64((uintptr_t)p) + ", inside no block the allocator handed out"); return; }
        uint64_t ev = expected_value(c, j);
        if (!p->sane() || p->v != ev) { ts.fail("wrong-value-after-return", rec_str(c) + ": element " + std::to_string(c.start + j) + " holds " + hex64(p->v) + "/" + hex64(p->chk) + ", requested " + hex64(ev)); return; }
        if (r) if (Slot* s = r->shadow.load(kRlx)) {
            size_t off = ((uintptr_t)p - r->base.load(kRlx)) / sizeof(Elem);
            if (s[off].live.load(kRlx) != 1) { ts.fail("not-constructed-once-on-return", rec_str(c) + ": element " + std::to_string(c.start + j) + " has " + std::to_string((int)s[off].live.load(kRlx)) + " live constructions when the call returned"); return; }
        }
        ts.own_checked++;
        if (sample && ts.samples.size() < 40) ts.samples.push_back(Sample{ c.start + j, p });
    };
    check(0, true); if (c.count > 1) check(c.count - 1, true);
    for (unsigned k = 1; k < 40; k++) { uint64_t b = seg_base(k); if (b > c.start && b < c.start + c.count) { check(b - c.start, true); check(b - c.start - 1, false); } if (b >= c.start + c.count) break; }
    if (c.count <= 48) { for (uint64_t j = 1; j + 1 < c.count; j++) check(j, false); }
    else for (int i = 0; i < 16; i++) check(ts.rng.below(c.count), i < 2);
    // walk with ++ (the iterator caches the element pointer and must drop it at segment boundaries)
    if (ts.fail_what.empty()) {
        uint64_t lim = std::min<uint64_t>(c.count, 300);
        Vec::iterator w = it;
        for (uint64_t j = 0; j < lim; j++, ++w) {
            if (&*w != &v[c.start + j]) { ts.fail("iterator-increment-address-mismatch", rec_str(c) + ": after " + std::to_string(j) + " increments the iterator refers to " + hex64((uintptr_t)&*w) + ", &v[i] = " + hex64((uintptr_t)&v[c.start + j])); break; }
        }
    }
}

// executes one growth call; never throws
inline CallRec exec_op(Vec& v, const Op& op, int tid, int callno, uint64_t scn, ThreadState& ts, const ExecCfg& cfg) {
    CallRec c; c.kind = op.kind; c.arg = op.arg; c.tid = tid; c.callno = callno; c.vb = value_base(scn, tid, callno);
    ThreadLocal& T = tl();
    T.booms = 0; T.bad_allocs = 0;
    T.fault_ok = cfg.cls != 'E' || single_kind(op.kind);
    long ctors0 = T.vec_ctors, allocs0 = T.allocs;
    Vec::iterator it;
    std::string what;
    c.size_before = v.size();
    {
        InCall ic(tid, op.kind, (long)op.arg);
        c.t0 = __rdtsc();
        try {
            switch (op.kind) {
            case K_PUSH_COPY: { Elem e(c.vb); it = v.push_back(e); c.count = 1; break; }
            case K_PUSH_MOVE: { Elem e(c.vb); it = v.push_back(std::move(e)); c.count = 1; break; }
            case K_EMPLACE: it = v.emplace_back(c.vb ^ 0x1234567ull, 0x1234567ull); c.count = 1; break;
            case K_GROW: it = v.grow_by((size_t)op.arg); c.count = op.arg; break;
            case K_GROW_VAL: { Elem e(c.vb); it = v.grow_by((size_t)op.arg, e); c.count = op.arg; break; }
            case K_GROW_ITER: it = v.grow_by(SeqIt{ c.vb }, SeqIt{ c.vb + op.arg }); c.count = op.arg; break;
            case K_GROW_IL: it = v.grow_by({ Elem(c.vb), Elem(c.vb + 1), Elem(c.vb + 2) }); c.count = 3; break;
            case K_GTAL: it = v.grow_to_at_least((size_t)op.arg); break;
            case K_GTAL_VAL: { Elem e(c.vb); it = v.grow_to_at_least((size_t)op.arg, e); break; }
            case K_RESERVE: v.reserve((size_t)op.arg); it = v.begin(); c.count = 0; break;
            }
            c.outcome = O_OK;
        } catch (Boom&) { c.outcome = O_BOOM; }
        catch (std::bad_alloc&) { c.outcome = O_BADALLOC; }
        catch (std::exception& e) { c.outcome = O_OTHER; what = e.what(); }
        c.t1 = __rdtsc();
    }
    T.fault_ok = true;
    c.ctors = T.vec_ctors - ctors0; c.allocs = T.allocs - allocs0;
    if (c.outcome != O_OK) hang_ctx().exceptions.fetch_add(1, kRlx);
    // who may see which exception
    if (c.outcome == O_BOOM && T.booms == 0) ts.fail("exception-on-wrong-caller", rec_str(c) + ": the injected constructor exception surfaced in a call none of whose constructions threw");
    if (T.booms > 0 && c.outcome != O_BOOM) ts.fail("constructor-exception-not-delivered", rec_str(c) + ": an element constructor of this call threw, the call ended with " + outcome_names[c.outcome]);
    if (T.bad_allocs > 0 && c.outcome == O_OK) ts.fail("allocation-failure-not-delivered", rec_str(c) + ": an allocation made by this call threw bad_alloc, the call returned normally");
    if (c.outcome == O_BADALLOC || c.outcome == O_OTHER) {
        if (!cfg.alloc_faults) ts.fail("unexpected-exception", rec_str(c) + ": " + (what.empty() ? "bad_alloc" : what) + " although no allocation was made to fail");
    }
    if (c.outcome == O_BOOM && !cfg.faults_possible) ts.fail("unexpected-exception", rec_str(c) + ": Boom without an armed fault");
    if (c.outcome == O_OK && op.kind != K_RESERVE) {
        c.start = (uint64_t)(it - v.begin());
        if (gtal_kind(op.kind)) {
            // what the call appended = what this thread constructed inside the vector during it; without allocation failures that
            // must be [returned index, n) (after a failed allocation size() may stay below n and the returned end() means nothing)
            uint64_t inferred = c.start < op.arg ? op.arg - c.start : 0;
            c.count = (uint64_t)c.ctors;
            if (!cfg.alloc_faults && c.count != inferred) { ts.fail("gtal-appended-count", rec_str(c) + ": returned index " + std::to_string(c.start) + " implies " + std::to_string(inferred) + " appended elements, the call constructed " + std::to_string(c.count)); c.count = 0; }
        }
        if (op.kind == K_GROW || op.kind == K_GROW_VAL || op.kind == K_GROW_ITER) if (op.arg == 0) c.count = 0;
        verify_own(v, it, c, ts);
        if (gtal_kind(op.kind) && op.arg > 0 && !cfg.alloc_faults && !(cfg.cls == 'M')) {
            // storage for [0,n) is promised on return (elements of other threads may still be under construction)
            ts.gtal_returns++;
            size_t cap = v.capacity(), sz = v.size();
            if (cap < op.arg || sz < op.arg) {
                ts.gtal_short++;
                if (cfg.strict_gtal) ts.fail("gtal-return-storage-not-allocated", rec_str(c) + ": on return size() = " + std::to_string(sz) + ", capacity() = " + std::to_string(cap) + " < n (a segment below n is still unallocated)");
            } else if (Ctx* cx = g_ctx().load(kRlx)) {
                for (int i = 0; i < 4; i++) {
                    uint64_t x = i == 0 ? op.arg - 1 : i == 1 ? 0 : ts.rng.below(op.arg);
                    const Elem* p = &v[x];
                    if (!cx->find((uintptr_t)p) && !cx->overflow.load(kRlx)) ts.fail("gtal-return-index-not-addressable", rec_str(c) + ": index " + std::to_string(x) + " < n maps to " + hex64((uintptr_t)p) + ", inside no allocated block");
                    try { if (&v.at(x) != p) ts.fail("iterator-address-mismatch", rec_str(c) + ": at(" + std::to_string(x) + ") and operator[] disagree"); }
                    catch (std::exception& e) { ts.fail("gtal-return-storage-not-allocated", rec_str(c) + ": at(" + std::to_string(x) + ") throws " + e.what() + " right after the call returned"); }
                }
            }
        }
    }
    // addresses never change: sample an arbitrary index below size() (anybody's element; only its address is taken) and re-check older samples
    size_t sz = v.size();
    if (sz) {
        uint64_t x = ts.rng.chance(1, 2) ? ts.rng.below(sz) : sz - 1;
        if (ts.samples.size() < 40) ts.samples.push_back(Sample{ x, &v[x] });
    }
    for (int i = 0; i < 3 && !ts.samples.empty(); i++) {
        const Sample& s = ts.samples[ts.rng.below(ts.samples.size())];
        const Elem* now = &v[s.index]; ts.resampled++;
        if (now != s.addr) ts.fail("element-address-changed", "index " + std::to_string(s.index) + " was at " + hex64((uintptr_t)s.addr) + ", later at " + hex64((uintptr_t)now) + " (observed by thread " + std::to_string(tid) + " after " + rec_str(c) + ")");
    }
    ts.recs.push_back(c);
    return c;
}

// ---------------------------------------------------------------------------------------------- plan generation
inline uint64_t boundary_value(Rng& r, unsigned maxk) { unsigned k = 1 + (unsigned)r.below(maxk); return ((uint64_t)1 << k) + (uint64_t)r.below(3) - 1; }
inline uint64_t gen_delta(Rng& r, int big) {
    unsigned x = (unsigned)r.below(100);
    if (x < 4) return 0;
    if (x < 26) return 1;
    if (x < 40) return 2 + r.below(3);
    if (x < 66) return boundary_value(r, big ? 9 : 6);
    if (x < 74) return boundary_value(r, big ? 13 : 10);
    return 1 + r.below(big ? 700 : 50);
}
inline Op gen_op(Rng& r, uint64_t est_size, int big) {
    Op o; unsigned x = (unsigned)r.below(100);
    if (x < 12) o.kind = K_PUSH_COPY; else if (x < 20) o.kind = K_PUSH_MOVE; else if (x < 30) o.kind = K_EMPLACE;
    else if (x < 42) o.kind = K_GROW; else if (x < 56) o.kind = K_GROW_VAL; else if (x < 64) o.kind = K_GROW_ITER; else if (x < 68) o.kind = K_GROW_IL;
    else if (x < 84) o.kind = K_GTAL; else o.kind = K_GTAL_VAL;
    if (o.kind == K_GROW || o.kind == K_GROW_VAL || o.kind == K_GROW_ITER) o.arg = gen_delta(r, big);
    else if (gtal_kind(o.kind)) {
        unsigned y = (unsigned)r.below(100);
        if (y < 4) o.arg = 0;
        else if (y < 30) o.arg = 1 + r.below(est_size + 1);                     // often below the current size: waits for other threads' segments
        else if (y < 60) { unsigned mk = seg_of(est_size + 2) + 1; o.arg = boundary_value(r, mk); }
        else o.arg = est_size / 2 + r.below(est_size / 2 + 24);
    }
    if (r.chance(1, 5)) o.delay = (uint16_t)r.below(1500);
    return o;
}
inline uint64_t op_growth(const Op& o, uint64_t cur) {
    if (single_kind(o.kind)) return 1; if (o.kind == K_GROW_IL) return 3; if (gtal_kind(o.kind)) return o.arg > cur ? o.arg - cur : 0; if (o.kind == K_RESERVE) return 0; return o.arg;
}
inline void gen_prefix(Rng& r, Plan& p, uint64_t& est) {
    unsigned x = (unsigned)r.below(100);
    static const uint64_t small[] = { 1, 2, 3, 6, 7, 8, 9, 15, 16, 17 };
    if (x < 35) return;                                                        // empty vector: first-block election and table switch are raced
    Op o;
    if (x < 50) { int n = 1 + (int)r.below(4); for (int i = 0; i < n; i++) { o.kind = r.chance(1, 2) ? K_PUSH_COPY : K_EMPLACE; p.pre.push_back(o); est++; } return; }
    uint64_t n = r.chance(1, 2) ? small[r.below(10)] : r.chance(5, 6) ? boundary_value(r, 10) : boundary_value(r, 15);
    if (x < 64) { o.kind = K_GROW_VAL; o.arg = n; est += n; }
    else if (x < 74) { o.kind = K_GTAL; o.arg = n; est += n; }
    else if (x < 90) { o.kind = K_RESERVE; o.arg = n; }
    else { o.kind = K_RESERVE; o.arg = n; p.pre.push_back(o); o.kind = K_GROW_ITER; o.arg = 1 + r.below(n); est += o.arg; }
    p.pre.push_back(o);
}
// class T: 0-8 elements, then 2-4 threads append single elements at once; the thread that has to extend the segment table (the one whose
// index is 8 or below) fails to allocate it - slowly, so that threads with higher indices are already waiting for the table when the
// failure is published. Every call must return or throw; nothing grows afterwards (further growth meets the known defect of class M).
inline Plan gen_table_plan(Rng& r) {
    Plan p; p.cls = 'T'; p.seed = r.next();
    Rng g(p.seed);
    p.nthreads = 2 + (int)g.below(3);
    int pre = g.chance(1, 4) ? (int)g.below(9) : 5 + (int)g.below(4);
    for (int i = 0; i < pre; i++) { Op o; o.kind = g.chance(1, 2) ? K_PUSH_COPY : K_EMPLACE; p.pre.push_back(o); }
    for (int t = 0; t < p.nthreads; t++) {
        int cnt = 1 + (int)g.below(3);
        for (int i = 0; i < cnt; i++) { Op o; unsigned x = (unsigned)g.below(3); o.kind = x == 0 ? K_PUSH_COPY : x == 1 ? K_PUSH_MOVE : K_EMPLACE; if (g.chance(1, 4)) o.delay = (uint16_t)g.below(800); p.ops[t].push_back(o); }
    }
    p.alloc_delay_prob = 0;
    p.fault = F_TABLE; p.fault_at = 0; p.table_delay_us = g.chance(1, 5) ? 0 : 100 + (uint32_t)g.below(2500);
    return p;
}
// class F: an EMPTY vector and two threads that append one element each at the same moment (both indices lie in the first block, which
// both threads try to allocate); one of the two allocations fails - slowly, so that the other thread has usually allocated and published
// the block when the failure is handled. A call that returned normally keeps its element (readable through at(), same address, same value);
// the failed call throws. Nothing else grows (further growth after a failure meets the known defects of class M).
inline Plan gen_first_block_plan(Rng& r) {
    Plan p; p.cls = 'F'; p.seed = r.next();
    Rng g(p.seed);
    p.nthreads = 2;
    for (int t = 0; t < 2; t++) { Op o; unsigned x = (unsigned)g.below(3); o.kind = x == 0 ? K_PUSH_COPY : x == 1 ? K_PUSH_MOVE : K_EMPLACE; if (g.chance(1, 3)) o.delay = (uint16_t)g.below(1500); p.ops[t].push_back(o); }
    p.alloc_delay_prob = 0;
    p.fault = F_FIRST; p.fault_at = (long)g.below(2); p.table_delay_us = g.chance(1, 6) ? 0 : 20 + (uint32_t)g.below(1500);
    if (g.chance(1, 3)) {
        // variant: one call claims the whole two-element first block (its allocation is the one that fails), the other appends one
        // element a little later (one only: a call that starts after another call failed may meet the known defect of class M): it lands in
        // segment 1, an ordinary segment of the embedded table that the failure must leave alone
        // (it did not: repaired in /repo, see DESIGN 6.3)
        p.ops[0][0].kind = K_GROW_VAL; p.ops[0][0].arg = 2; p.ops[0][0].delay = 0;
        p.ops[1][0].delay = (uint16_t)(300 + g.below(1200));
        p.fault_at = 0; if (p.table_delay_us < 200) p.table_delay_us = 200 + (uint32_t)g.below(1500);
        p.pre_sized_first_block = true;
    }
    return p;
}
inline Plan gen_plan(Rng& r, int cls, long case_index) {
    Plan p; p.cls = cls; p.seed = r.next();
    Rng g(p.seed);
    unsigned x = (unsigned)g.below(100);
    p.nthreads = x < 6 ? 1 : x < 40 ? 2 : x < 68 ? 3 : x < 92 ? 4 : 5 + (int)g.below(4);
    if (cls != 'G' && p.nthreads == 1) p.nthreads = 2;
    uint64_t est = 0;
    gen_prefix(g, p, est);
    int big = g.chance(1, 6);
    long singles = 0; uint64_t total = est; long calls = 0;
    for (int t = 0; t < p.nthreads; t++) {
        int cnt = 1 + (int)g.below(p.nthreads > 4 ? 6 : 10);
        for (int i = 0; i < cnt; i++) { Op o = gen_op(g, total + 8, big); total += op_growth(o, total); if (single_kind(o.kind)) singles++; p.ops[t].push_back(o); calls++; }
    }
    unsigned y = (unsigned)g.below(100);
    p.alloc_delay_prob = y < 35 ? 0 : y < 70 ? 3000 + (uint32_t)g.below(12000) : 20000 + (uint32_t)g.below(40000);
    if (cls == 'E') {
        if (singles == 0) { Op o; o.kind = K_PUSH_COPY; p.ops[0].push_back(o); singles = 1; }
        p.fault = F_CTOR; p.fault_at = case_index % singles;
    } else if (cls == 'M') {
        // most plans avoid the calls that wedge most easily on the known defect (grow_to_at_least waits for every lower segment) and
        // put the fault late, so that a process judges a fair number of scenarios strictly before it meets the known wedge
        bool calm = g.chance(2, 3);
        if (calm) for (int t = 0; t < p.nthreads; t++) for (auto& o : p.ops[t]) if (gtal_kind(o.kind)) { o.kind = o.kind == K_GTAL ? K_GROW : K_GROW_VAL; o.arg = gen_delta(g, 0); }
        uint64_t cons = 0; for (int t = 0; t < p.nthreads; t++) for (auto& o : p.ops[t]) cons += gtal_kind(o.kind) ? 8 : op_growth(o, 0);
        if (g.chance(1, 2)) { p.fault = F_CTOR; uint64_t k = (uint64_t)case_index * 7 % (cons + 1); p.fault_at = (long)(calm && g.chance(1, 2) ? cons - k / 3 - (cons ? 1 : 0) : k); if (p.fault_at < 0) p.fault_at = 0; }
        else { p.fault = F_ALLOC; p.fault_at = case_index % (3 + seg_of(total + 1)); }
        int np = (int)g.below(4);
        for (int i = 0; i < np; i++) { Op o = gen_op(g, total, 0); if (calm && gtal_kind(o.kind)) o.kind = K_PUSH_COPY; else if (g.chance(1, 3)) { o.kind = K_GTAL_VAL; o.arg = 1 + g.below(total + 2); } p.post.push_back(o); }
    }
    return p;
}

// ---------------------------------------------------------------------------------------------- quiescent oracle
struct Verdict {
    std::string what, detail;
    void fail(const std::string& w, const std::string& d) { if (what.empty()) { what = w; detail = d; } }
    bool ok() const { return what.empty(); }
};

// checks the address map of every index below `upto` against the blocks the allocator handed out
inline void check_layout(Vec& v, Ctx& cx, uint64_t upto, Verdict& vd, long& checked) {
    if (!upto || cx.overflow.load()) return;
    const Elem* p0 = &v[0];
    Region* r0 = cx.find((uintptr_t)p0);
    if (!r0) { vd.fail("element-outside-allocated-storage", "index 0 is at " + hex64((uintptr_t)p0) + ", inside no allocated block"); return; }
    if (r0->base.load() != (uintptr_t)p0) { vd.fail("layout-first-block", "index 0 is not at the start of its block"); return; }
    uint64_t fbn = r0->n.load();
    if (fbn < 2 || (fbn & (fbn - 1))) { vd.fail("layout-first-block", "the block holding index 0 has " + std::to_string(fbn) + " slots (not a power of two >= 2)"); return; }
    for (uint64_t i = 0; i < std::min(fbn, upto); i++) { checked++; if (&v[i] != p0 + i) { vd.fail("layout-index-address", "index " + std::to_string(i) + " (first block of " + std::to_string(fbn) + ") is at " + hex64((uintptr_t)&v[i]) + ", expected " + hex64((uintptr_t)(p0 + i))); return; } }
    for (unsigned k = seg_of(fbn); seg_base(k) < upto; k++) {
        uint64_t b = seg_base(k);
        const Elem* sb = &v[b];
        Region* r = cx.find((uintptr_t)sb);
        if (!r) { vd.fail("element-outside-allocated-storage", "index " + std::to_string(b) + " is at " + hex64((uintptr_t)sb) + ", inside no allocated block"); return; }
        if (r->base.load() != (uintptr_t)sb || r->n.load() != b) { vd.fail("layout-segment", "segment " + std::to_string(k) + ": index " + std::to_string(b) + " lies at offset " + std::to_string(((uintptr_t)sb - r->base.load()) / sizeof(Elem)) + " of a block of " + std::to_string(r->n.load()) + " slots (expected offset 0 of " + std::to_string(b) + ")"); return; }
        uint64_t e = std::min(upto, b * 2);
        for (uint64_t i = b; i < e; i++) { checked++; if (&v[i] != sb + (i - b)) { vd.fail("layout-index-address", "index " + std::to_string(i) + " is at " + hex64((uintptr_t)&v[i]) + ", expected segment start + " + std::to_string(i - b)); return; } }
    }
}

struct Quiescent {
    long tiles = 0, elements = 0, layout_checked = 0, nonclaimant_segments = 0, elem_blocks = 0, holes_zero = 0, holes_raw = 0, loser_blocks = 0, table_blocks = 0;
    uint64_t signature = 0; bool overlapped = false; int threads_with_calls = 0;
};

// recs: every call of the scenario. mode: 'G' exact tiling, 'E' tiling with one-slot holes for failed single-element calls, 'M' disjointness only
inline void verify_quiescent(Vec& v, Ctx& cx, const std::vector<const CallRec*>& recs, const std::vector<Sample>& samples, int mode, Verdict& vd, Quiescent& q) {
    std::vector<const CallRec*> rg; long failed_single = 0;
    for (auto* c : recs) { if (c->outcome == O_OK && c->count && c->kind != K_RESERVE) rg.push_back(c); if (c->outcome != O_OK && single_kind(c->kind)) failed_single++; }
    std::sort(rg.begin(), rg.end(), [](const CallRec* a, const CallRec* b) { return a->start < b->start; });
    uint64_t sz = v.size(), covered = 0, pos = 0, gaps = 0;
    std::vector<std::pair<uint64_t, uint64_t>> holes;
    for (size_t i = 0; i < rg.size(); i++) {
        const CallRec& c = *rg[i];
        if (c.start < pos) { vd.fail("ranges-overlap", rec_str(*rg[i - 1]) + " and " + rec_str(c) + " received overlapping index ranges"); return; }
        if (c.start > pos) { gaps += c.start - pos; if (holes.size() < 64) holes.emplace_back(pos, c.start); }
        pos = c.start + c.count; covered += c.count; q.tiles++;
    }
    if (mode == 'G') {
        if (gaps || pos != sz) { vd.fail("ranges-do-not-tile", "the returned ranges cover " + std::to_string(covered) + " indices up to " + std::to_string(pos) + " with " + std::to_string(gaps) + " uncovered below; size() = " + std::to_string(sz)); return; }
    } else if (mode == 'E') {
        if (pos < sz) { gaps += sz - pos; if (holes.size() < 64) holes.emplace_back(pos, sz); }
        if (pos > sz || gaps != (uint64_t)failed_single) { vd.fail("ranges-do-not-tile", "returned ranges cover " + std::to_string(covered) + " indices, " + std::to_string(gaps) + " uncovered, but " + std::to_string(failed_single) + " single-element calls failed; size() = " + std::to_string(sz)); return; }
    }
    // every element of a successful call: constructed once, requested value
    bool shadow_ok = cx.shadow_miss.load() == 0 && !cx.overflow.load();
    for (auto* pc : rg) {
        const CallRec& c = *pc;
        for (uint64_t j = 0; j < c.count; j++) {
            const Elem* p = &v[c.start + j]; q.elements++;
            uint64_t ev = expected_value(c, j);
            if (!p->sane() || p->v != ev) { vd.fail("wrong-value-at-quiescence", rec_str(c) + ": element " + std::to_string(c.start + j) + " holds " + hex64(p->v) + "/" + hex64(p->chk) + ", requested " + hex64(ev)); return; }
            if (shadow_ok) {
                Region* r = cx.find((uintptr_t)p);
                if (!r) { vd.fail("element-outside-allocated-storage", rec_str(c) + ": index " + std::to_string(c.start + j) + " at " + hex64((uintptr_t)p)); return; }
                if (Slot* s = r->shadow.load()) {
                    size_t off = ((uintptr_t)p - r->base.load()) / sizeof(Elem);
                    int live = s[off].live.load(), ct = s[off].ctors.load();
                    if (live != 1 || ct != 1) { vd.fail("not-constructed-exactly-once", rec_str(c) + ": element " + std::to_string(c.start + j) + " was constructed " + std::to_string(ct) + " times (" + std::to_string(live) + " live)"); return; }
                }
            }
        }
    }
    if (mode != 'M') {
        check_layout(v, cx, sz, vd, q.layout_checked);
        if (!vd.ok()) return;
        // at() and iterators agree with operator[]
        { Vec::iterator it = v.begin(); uint64_t lim = std::min<uint64_t>(sz, 5000);
          for (uint64_t i = 0; i < lim; i++, ++it) if (&*it != &v[i] || &v.at(i) != &v[i]) { vd.fail("iterator-address-mismatch", "at quiescence index " + std::to_string(i) + ": iterator " + hex64((uintptr_t)&*it) + " at() " + hex64((uintptr_t)&v.at(i)) + " operator[] " + hex64((uintptr_t)&v[i])); return; }
          if ((uint64_t)(v.end() - v.begin()) != sz) { vd.fail("iterator-distance", "end()-begin() != size()"); return; } }
        // holes of class E: one slot per failed single-element call
        for (auto& h : holes) for (uint64_t i = h.first; i < h.second; i++) { const Elem* p = &v[i]; if (p->zero()) q.holes_zero++; else q.holes_raw++; }
        if (mode == 'E' && q.holes_raw) { vd.fail("raw-slot-after-ctor-throw-accessible", std::to_string(q.holes_raw) + " slots of failed push_back/emplace_back calls are inside size() and neither constructed nor zero-filled"); return; }
        // nothing constructed outside the returned ranges
        if (shadow_ok) {
            int n = std::min(cx.nreg.load(), (int)Ctx::kMax);
            for (int i = 0; i < n; i++) {
                Region& r = cx.reg[i]; if (!r.base.load() || !r.elem) continue;
                Slot* s = r.shadow.load(); if (!s) continue;
                uint64_t first = (sz && r.base.load() == (uintptr_t)&v[0]) ? 0 : r.n.load();
                long live = 0; for (uint64_t o = 0; o < r.n.load(); o++) if (s[o].live.load()) live++;
                uint64_t in_ranges = 0; for (auto* pc : rg) { uint64_t a = std::max(pc->start, first), b = std::min(pc->start + pc->count, first + r.n.load()); if (b > a) in_ranges += b - a; }
                if ((uint64_t)live != in_ranges) { vd.fail("constructed-outside-returned-ranges", "block of indices [" + std::to_string(first) + "," + std::to_string(first + r.n.load()) + ") holds " + std::to_string(live) + " live elements, the returned ranges cover " + std::to_string(in_ranges) + " of its slots"); return; }
            }
        }
    }
    for (auto& s : samples) {
        if (mode == 'M' && s.index >= v.size()) continue;
        const Elem* now = &v[s.index];
        if (now != s.addr) { vd.fail("element-address-changed", "index " + std::to_string(s.index) + " was at " + hex64((uintptr_t)s.addr) + " during growth and is at " + hex64((uintptr_t)now) + " at quiescence"); return; }
    }
    // evidence: who allocated which segment, interleaving signature
    uint64_t h = 0x11;
    for (auto* pc : rg) h = mix(h, (uint64_t)pc->tid * 16 + pc->kind);
    int n = std::min(cx.nreg.load(), (int)Ctx::kMax);
    for (int i = 0; i < n; i++) {
        Region& r = cx.reg[i];
        if (!r.elem) { q.table_blocks++; continue; }
        if (!r.base.load()) { q.loser_blocks++; h = mix(h, 0x1000 + r.thread); continue; }
        q.elem_blocks++;
        h = mix(h, (uint64_t)r.n.load() * 32 + (uint64_t)(r.thread + 1));
        if (mode == 'M' || !sz) continue;
        uint64_t first = r.base.load() == (uintptr_t)&v[0] ? 0 : r.n.load();
        for (auto* pc : rg) if (pc->start <= first && first < pc->start + pc->count) { if (pc->tid != r.thread && pc->tid < Pool::kMax) q.nonclaimant_segments++; break; }
    }
    q.signature = h;
    // real concurrency: calls of different threads overlapped in time
    std::vector<const CallRec*> byt;
    for (auto* c : recs) if (c->tid < Pool::kMax) byt.push_back(c);
    std::set<int> tids; for (auto* c : byt) tids.insert(c->tid);
    q.threads_with_calls = (int)tids.size();
    for (size_t i = 0; i < byt.size() && !q.overlapped; i++) for (size_t j = i + 1; j < byt.size(); j++)
        if (byt[i]->tid != byt[j]->tid && byt[i]->t0 < byt[j]->t1 && byt[j]->t0 < byt[i]->t1) { q.overlapped = true; break; }
}

// keys of a KNOWN finding are emitted once per process (the violation list of a process is capped; the rest is counted)
inline bool first_time(const std::string& key) { static std::mutex m; static std::set<std::string> seen; std::lock_guard<std::mutex> l(m); return seen.insert(key).second; }

inline const std::vector<int>& hook_ids() { static const std::vector<int> v{ 150, 151, 152, 153, 150, 152 }; return v; }

// after a fault: every index below size() either is handed out by at() or at() throws; what it hands out lies in allocated storage
struct Sweep { long ok = 0, threw = 0, constructed = 0, zero = 0, raw = 0; };
inline void sweep_at(Vec& v, Ctx& cx, Verdict& vd, Sweep& sw, int cls) {
    size_t sz = v.size();
    for (size_t i = 0; i < sz; i++) {
        try {
            Elem& e = v.at(i);
            sw.ok++;
            Region* r = cx.find((uintptr_t)&e);
            if (!r) { if (!cx.overflow.load()) vd.fail("access-outside-allocated-storage", "at(" + std::to_string(i) + ") returned " + hex64((uintptr_t)&e) + ", inside no allocated block"); continue; }
            Slot* s = r->shadow.load(); if (!s) continue;
            size_t off = ((uintptr_t)&e - r->base.load()) / sizeof(Elem);
            if (s[off].live.load()) { sw.constructed++; if (!e.sane()) vd.fail("constructed-element-corrupted", "at(" + std::to_string(i) + ") is a live element whose contents are damaged: " + hex64(e.v) + "/" + hex64(e.chk)); }
            else if (e.zero()) sw.zero++; else sw.raw++;
        } catch (std::exception&) { sw.threw++; }
    }
    // iteration over [begin, end) stays inside allocated segments
    size_t cnt = 0; for (auto it = v.begin(); it != v.end(); ++it) { volatile uint64_t x = it->v; (void)x; cnt++; }
    if (cnt != sz && v.size() == sz) vd.fail("iterator-distance", "iteration visited " + std::to_string(cnt) + " elements, size() = " + std::to_string(sz));
    (void)cls;
}

// ---------------------------------------------------------------------------------------------- scenario driver (G / E / M)
inline void run_growth(Engine& E, const Plan& p, Rng& r) {
    Result& R = result(); HangCtx& hc = hang_ctx();
    const int cls = p.cls; const std::string C = cls_name(cls);
    std::string pj = plan_json(p);
    hc.begin(cls, pj);
    uint64_t scn = ++E.scn;
    CtxScope cx;
    Verdict vd; Quiescent q; Sweep sw;
    ExecCfg cfg{ cls, p.fault != F_NONE, p.fault == F_ALLOC || p.fault == F_TABLE || p.fault == F_FIRST, E.strict_gtal };
    ExecCfg cfg_pre{ cls, false, false, E.strict_gtal };
    for (int t = 0; t < Pool::kMax + 2; t++) E.ts[t].reset(mix(p.seed, 77 + t));
    std::vector<const CallRec*> recs; std::vector<Sample> samples;
    long gtal_short = 0, gtal_returns = 0, own_checked = 0, calls = 0, excs = 0;
    {
        Vec v;
        ThreadLocal& T0 = tl(); T0 = ThreadLocal{}; T0.tid = kPreTid;
        int cn = 0; for (auto& o : p.pre) exec_op(v, o, kPreTid, cn++, scn, E.ts[kPreTid], cfg_pre);
        cx->alloc_delay_prob.store(p.alloc_delay_prob);
        if (p.fault == F_CTOR) cx->ctor_arm.store(p.fault_at); else if (p.fault == F_ALLOC) cx->alloc_arm.store(p.fault_at);
        else if (p.fault == F_TABLE) { cx->table_delay_us.store(p.table_delay_us); cx->table_arm.store(p.fault_at); }
        else if (p.fault == F_FIRST) { cx->table_delay_us.store(p.table_delay_us); cx->first_arm.store(p.fault_at); }
        perturb_random(r, hook_ids());
        hc.phase.store(1);
        E.pool.run(p.nthreads, [&](int t) {
            ThreadLocal& T = tl(); T = ThreadLocal{}; T.tid = t;
            ThreadState& ts = E.ts[t]; int k = 0;
            for (const Op& o : p.ops[t]) { if (o.delay) spin_iters(o.delay); exec_op(v, o, t, k++, scn, ts, cfg); progress(); }
        });
        perturb().clear();
        cx->ctor_arm.store(-1); cx->alloc_arm.store(-1); cx->table_arm.store(-1); cx->first_arm.store(-1); cx->alloc_delay_prob.store(0);
        T0.tid = kPostTid;
        if (!p.post.empty()) {
            hc.phase.store(2);
            ExecCfg cfg_post{ cls, false, p.fault == F_ALLOC, E.strict_gtal };
            int k = 0; for (auto& o : p.post) { exec_op(v, o, kPostTid, k++, scn, E.ts[kPostTid], cfg_post); progress(); }
        }
        hc.phase.store(3);
        for (int t = 0; t < Pool::kMax + 2; t++) {
            ThreadState& ts = E.ts[t];
            for (auto& c : ts.recs) { recs.push_back(&c); if (t < Pool::kMax || t == kPostTid) { calls++; if (c.outcome != O_OK) excs++; } }
            samples.insert(samples.end(), ts.samples.begin(), ts.samples.end());
            gtal_short += ts.gtal_short; gtal_returns += ts.gtal_returns; own_checked += ts.own_checked;
            if (!ts.fail_what.empty()) vd.fail(ts.fail_what, ts.fail_detail);
        }
        if (cls == 'F' && vd.ok()) {
            // a call that returned normally keeps its element: at() must hand it out (checked before anything dereferences operator[])
            for (auto* rc : recs) if (rc->outcome == O_OK && rc->count >= 1) for (uint64_t j = 0; j < rc->count && vd.ok(); j++) {
                try { const Elem& e = v.at((size_t)(rc->start + j)); if (!e.sane() || e.v != expected_value(*rc, j)) vd.fail("element-of-successful-call-damaged", rec_str(*rc) + ": at() hands out " + hex64(e.v) + "/" + hex64(e.chk)); }
                catch (std::exception& ex) { vd.fail("element-of-successful-call-lost", rec_str(*rc) + ": the call returned normally, afterwards at(" + std::to_string(rc->start + j) + ") throws " + ex.what() + " (size() = " + std::to_string(v.size()) + ", capacity() = " + std::to_string(v.capacity()) + ")"); }
            }
        }
        if (vd.ok()) verify_quiescent(v, *cx.c, recs, samples, (cls == 'T' || cls == 'F') ? 'M' : cls, vd, q);
        if (vd.ok() && (cls == 'M' || cls == 'T' || cls == 'F')) sweep_at(v, *cx.c, vd, sw, cls);
        T0.tid = -1;
    }   // the vector is destroyed here
    Ctx& c = *cx.c;
    if (c.live_regions(false) && !c.overflow.load()) vd.fail("storage-leaked-after-destruction", std::to_string(c.live_regions(false)) + " blocks were not returned to the allocator by the destructor");
    { std::lock_guard<std::mutex> l(c.m); for (auto& f : c.flags) vd.fail(f.first, f.second); }
    long dz = c.unconstructed_destroyed_zero.load(), dg = c.unconstructed_destroyed_garbage.load();
    if (cls == 'G' && (dz || dg)) vd.fail("destroyed-unconstructed-slot", "the destructor destroyed " + std::to_string(dz + dg) + " slots that were never constructed although no call failed");
    if (dg) {
        if ((p.fault == F_ALLOC || p.fault == F_FIRST) && c.alloc_fired.load()) {
            R.stat(C + "_unconstructed_slots_destroyed", dg);
            if (E.emit_uninit && first_time(key_of(cls, "unconstructed-slot-destroyed"))) R.violation(key_of(cls, "unconstructed-slot-destroyed"), "after an allocation failure the destructor ran on " + std::to_string(dg) + " slots that were neither constructed nor zero-filled", pj);
        } else if (cls != 'G') vd.fail("raw-slot-after-ctor-throw-destroyed", "the destructor ran on " + std::to_string(dg) + " slots that were neither constructed nor zero-filled (only a constructor was made to throw)");
    }
    if (sw.raw) {
        if ((p.fault == F_ALLOC || p.fault == F_FIRST) && c.alloc_fired.load()) {
            R.stat(C + "_unconstructed_slots_accessible", sw.raw);
            if (E.emit_uninit && first_time(key_of(cls, "unconstructed-slot-accessible"))) R.violation(key_of(cls, "unconstructed-slot-accessible"), "after an allocation failure at() hands out " + std::to_string(sw.raw) + " slots below size() that are neither constructed nor zero-filled", pj);
        } else vd.fail("raw-slot-after-ctor-throw-accessible", "at() hands out " + std::to_string(sw.raw) + " slots below size() that are neither constructed nor zero-filled (only a constructor was made to throw)");
    }
    // bookkeeping
    R.scenarios++;
    R.stat(C + "_scenarios"); R.stat(C + "_calls", calls); R.stat(C + "_tiles_checked", q.tiles); R.stat(C + "_elements_checked", q.elements);
    R.stat(C + "_own_elements_checked_on_return", own_checked); R.stat(C + "_layout_indices_checked", q.layout_checked);
    R.stat(C + "_segments_allocated_by_non_claimant", q.nonclaimant_segments); R.stat(C + "_element_blocks", q.elem_blocks);
    R.stat(C + "_blocks_allocated_and_discarded(first-block/segment race losers)", q.loser_blocks);
    if (q.table_blocks > 1) R.stat(C + "_table_switch_raced");
    if (q.table_blocks >= 1) R.stat(C + "_table_switches");
    R.stat(C + "_alloc_entry_delays", c.alloc_delays.load());
    R.stat("gtal_returns_checked", gtal_returns); R.stat("gtal_returns_with_unallocated_lower_segment", gtal_short);
    if (c.shadow_miss.load()) R.stat("shadow_lookup_raced", c.shadow_miss.load());
    if (c.overflow.load()) R.stat("registry_overflow");
    if (p.fault != F_NONE) {
        R.stat(C + "_calls_ended_by_exception", excs);
        if (c.ctor_fired.load()) R.stat(C + "_ctor_faults_fired"); if (c.alloc_fired.load()) R.stat(C + "_alloc_faults_fired");
        if (c.first_fired.load()) {
            long ok_calls = calls - excs;
            R.stat("F_first_block_allocation_failed"); if (p.pre_sized_first_block && ok_calls >= 1) R.stat("F_call_into_segment_1_or_2_succeeded_while_the_first_block_failed"); R.stat(ok_calls == 1 ? "F_other_call_succeeded_and_kept_its_element" : ok_calls == 0 ? "F_both_calls_threw" : "F_both_calls_succeeded");
        }
        if (c.table_fired.load()) { R.stat("T_table_allocation_failed"); if (excs >= 2) R.stat("T_scenarios_where_other_calls_threw_too"); R.stat("T_calls_ended_by_exception_besides_the_allocating_one", std::max(0L, excs - 1)); }
        if (!c.ctor_fired.load() && !c.alloc_fired.load()) R.stat(C + "_fault_not_reached");
        R.stat(C + "_holes_zero_filled", q.holes_zero + sw.zero); R.stat(C + "_at_ok", sw.ok); R.stat(C + "_at_threw", sw.threw);
    }
    bool nontrivial = q.threads_with_calls >= 2 && q.overlapped;
    if (nontrivial) { R.nontrivial++; R.signature(mix(q.signature, (uint64_t)cls)); R.stat(C + "_scenarios_with_overlapping_calls"); }
    if (!vd.ok()) {
        Json j; j.obj(); j.key("plan").raw(pj); j.key("calls").arr(); int shown = 0;
        for (auto* rc : recs) { if (++shown > 60) break; j.val(rec_str(*rc)); }
        j.end_arr(); j.end_obj();
        R.violation(key_of(cls, vd.what), vd.detail.substr(0, 1500), j.s);
    } else if (nontrivial && R.want_sample()) {
        Json j; j.obj(); j.kv("class", C); j.kv("threads", p.nthreads); j.kv("size", (unsigned long long)q.elements); j.key("ranges[thread,call,start,count]").arr();
        std::vector<const CallRec*> rg; for (auto* rc : recs) if (rc->outcome == O_OK && rc->count) rg.push_back(rc);
        std::sort(rg.begin(), rg.end(), [](const CallRec* a, const CallRec* b) { return a->start < b->start; });
        int shown = 0; for (auto* rc : rg) { if (++shown > 24) break; j.arr(); j.val(rc->tid); j.val(kind_names[rc->kind]); j.val((unsigned long long)rc->start); j.val((unsigned long long)rc->count); j.end_arr(); }
        j.end_arr(); j.kv("segments_allocated_by_non_claimant", q.nonclaimant_segments); j.kv("blocks_discarded", q.loser_blocks); j.end_obj();
        R.sample(j.s);
    }
}

} // namespace c11
