// C09 short histories (classes L: plain, U: throwing constructor on concurrent_queue, G: failing page allocation):
// random plans, real execution, WGL + aspect checks.
#pragma once
#include "c09_run.h"

namespace c09 {

static const int kSizes[] = { 8, 16, 32, 64, 128, 200 };
static const int kPerPage[] = { 32, 16, 8, 4, 2, 1 };

template <int SZ> using QL = tbb::concurrent_queue<El<SZ, false>>;
template <int SZ> using BL = tbb::concurrent_bounded_queue<El<SZ, false>>;
template <int SZ> using QU = tbb::concurrent_queue<El<SZ, true>>;
template <int SZ> using BU = tbb::concurrent_bounded_queue<El<SZ, true>>;
template <int SZ> using QG = tbb::concurrent_queue<El<SZ, false>, FailAlloc<El<SZ, false>>>;
template <int SZ> using BG = tbb::concurrent_bounded_queue<El<SZ, false>, FailAlloc<El<SZ, false>>>;

template <class F> void by_size(int size_class, F&& f) {
    switch (size_class) {
    case 0: f(std::integral_constant<int, 8>()); break;
    case 1: f(std::integral_constant<int, 16>()); break;
    case 2: f(std::integral_constant<int, 32>()); break;
    case 3: f(std::integral_constant<int, 64>()); break;
    case 4: f(std::integral_constant<int, 128>()); break;
    default: f(std::integral_constant<int, 200>()); break;
    }
}

inline int near_page_boundary(Rng& r, int size_class) {
    int period = 8 * kPerPage[size_class];
    int k = period * (1 + (int)r.below(2)) - (int)r.below(14);
    return std::max(0, std::min(k, 600));
}

// A random plan of 2-4 threads x 3-12 operations.
inline Plan gen_plan(Rng& r, int cls, long case_index) {
    Plan p; p.cls = cls; p.seed = r.next();
    p.nthreads = 2 + (int)r.below(3);
    p.size_class = (int)r.below(6);
    p.bounded = cls == 'L' ? r.chance(3, 5) : cls == 'G' ? r.chance(1, 3) : false;
    p.cap = -1;
    if (p.bounded && cls == 'L') p.cap = r.pick(std::vector<long>{ 1, 1, 2, 3, -1 });
    p.preadvance = r.chance(1, 2) ? near_page_boundary(r, p.size_class) : (int)r.below(4);
    if (p.size_class <= 1 && r.chance(1, 2)) p.preadvance = (int)r.below(10);      // the long pre-advance is costly for 32/16 items per page
    long maxfill = p.cap >= 0 ? p.cap : 6;
    p.prefill = r.chance(1, 2) ? (int)r.below((uint64_t)std::min<long>(maxfill, 5) + 1) : 0;
    p.wall_clock = r.chance(1, 4);
    int profile = (int)r.below(3); unsigned pp = profile == 0 ? 65 : profile == 1 ? 50 : 35;
    int maxops = p.nthreads == 4 ? 11 : 12;
    for (int t = 0; t < p.nthreads; t++) {
        int n = 3 + (int)r.below((uint64_t)maxops - 2);
        for (int i = 0; i < n; i++) {
            PlanOp o; o.val = t * 1000 + i; o.delay = r.chance(1, 4) ? (uint16_t)r.below(400) : 0;
            if (r.below(100) < pp) {
                unsigned x = (unsigned)r.below(100);
                o.kind = p.bounded ? (x < 40 ? K_PUSH : x < 55 ? K_EMPLACE : K_TRY_PUSH) : (x < 70 ? K_PUSH : K_EMPLACE);
            } else o.kind = (p.bounded && r.chance(35, 100)) ? K_POP : K_TRY_POP;
            p.ops[t].push_back(o);
        }
    }
    if (cls == 'L' && r.chance(1, 6)) {
        // negative-size shape: some threads sit in blocking pops on an empty bounded queue (more blocked pops than items) while the
        // others issue try_push / try_emplace (which must succeed unless the queue is really full), a few try_pops and pushes
        p.bounded = true; p.cap = r.pick(std::vector<long>{ 1, 1, 2, 3, -1 }); p.prefill = 0;
        int poppers = 1 + (int)r.below((uint64_t)p.nthreads - 1);
        for (int t = 0; t < p.nthreads; t++) {
            p.ops[t].clear();
            if (t < poppers) { int k = 2 + (int)r.below(4); for (int i = 0; i < k; i++) p.ops[t].push_back(PlanOp{ (uint8_t)K_POP, 0, (uint16_t)(r.chance(1, 3) ? r.below(300) : 0) }); }
            else {
                int k = 3 + (int)r.below(8);
                for (int i = 0; i < k; i++) { unsigned x = (unsigned)r.below(100); PlanOp o; o.val = t * 1000 + i; o.kind = (uint8_t)(x < 70 ? K_TRY_PUSH : x < 85 ? K_TRY_POP : K_PUSH); o.delay = (uint16_t)(i == 0 ? 500 + r.below(3000) : (r.chance(1, 3) ? r.below(600) : 0)); p.ops[t].push_back(o); }
            }
        }
    }
    p.max_help = p.total() + 8;
    int npush = 0; for (int t = 0; t < p.nthreads; t++) for (auto& o : p.ops[t]) if (is_push(o.kind)) npush++;
    if (cls == 'U') {           // fault enumeration: the k-th in-queue construction throws, k sweeps 0..npush
        p.arm_ctor[0] = case_index % (npush + 1);
        if (r.chance(1, 4)) p.arm_ctor[1] = (long)r.below((uint64_t)npush + 1);
    }
    if (cls == 'G' && r.chance(1, 3)) {
        // targeted shape: one page per item (or two), one slow pusher, one fast pusher that runs >= 8 tickets ahead and whose
        // page allocation fails for the ticket that follows the slow pusher's in the same lane, one popping thread
        p.bounded = false; p.cap = -1; p.size_class = r.chance(2, 3) ? 5 : 4; p.prefill = 0; p.preadvance = (int)r.below(9);
        p.nthreads = 3; for (auto& v : p.ops) v.clear();
        int slow = 1 + (int)r.below(2), fast = 9 + (int)r.below(3), pops = 4 + (int)r.below(8);
        for (int i = 0; i < slow; i++) p.ops[0].push_back(PlanOp{ (uint8_t)K_PUSH, i, 0 });
        for (int i = 0; i < fast; i++) p.ops[1].push_back(PlanOp{ (uint8_t)(i & 1 ? K_EMPLACE : K_PUSH), 1000 + i, 0 });
        for (int i = 0; i < pops; i++) p.ops[2].push_back(PlanOp{ (uint8_t)K_TRY_POP, 0, (uint16_t)r.below(300) });
        p.focus_page_switch = true;
        p.arm_alloc = 7 + (long)r.below(4);
        p.max_help = p.total() + 8;
        return p;
    }
    if (cls == 'G') {           // the k-th page allocation after the pre-advance fails
        int pages = std::max(1, std::min(npush + p.prefill, 8 + (npush + p.prefill) / kPerPage[p.size_class]));
        p.arm_alloc = case_index % (pages + 1);
        p.prefill = r.chance(1, 2) ? p.prefill : 0;
    }
    return p;
}

struct LinStats { long checked = 0, budget = 0, too_long = 0, overlapping = 0; };

// Runs one plan, checks it, records evidence. Returns false if a violation was reported.
inline bool run_case(Engine& E, const Plan& p, Rng& r, LinStats& ls) {
    Result& R = result();
    HangCtx& hc = hang_ctx();
    hc.begin(p.cls, p.bounded ? p.cap : -1, plan_json(p));
    Outcome out;
    perturb_random(r, hook_ids());
    if (p.focus_page_switch) perturb().focus(std::vector<int>{ 131 }, 20000 + (uint32_t)r.below(30000), 0);
    by_size(p.size_class, [&](auto sz) {
        constexpr int SZ = decltype(sz)::value;
        if (p.cls == 'U') { QU<SZ> q; E.run(q, p, out); }
        else if (p.cls == 'G') { if (p.bounded) { BG<SZ> q; E.run(q, p, out); } else { QG<SZ> q; E.run(q, p, out); } }
        else if (p.bounded) { BL<SZ> q; E.run(q, p, out); }
        else { QL<SZ> q; E.run(q, p, out); }
    });
    perturb().clear();
    if (p.cls == 'G') { long lk = alloc_book().sweep(); if (lk) R.stat("G_pages_leaked_by_queue_after_failed_allocation", lk); }
    R.scenarios++;
    Aspect as;
    long cap = p.bounded ? p.cap : -1;
    aspect_check(out.ops, E.out_initial, cap, out, as);
    // the exception must reach the caller whose construction / allocation it was, and nobody else
    if (p.cls == 'U') {
        long threw = 0; for (auto& o : out.ops) if (o.res == RS_THREW) threw++;
        R.stat("U_pushes_that_threw", threw);
        for (auto& o : out.ops) if (o.res == RS_BADALLOC || o.res == RS_BADLAST) out.fail("unexpected-exception", "push ended with bad_alloc although no allocation was made to fail");
    }
    if (p.cls == 'G') {
        long ba = 0, bl = 0; for (auto& o : out.ops) { if (o.res == RS_BADALLOC) ba++; if (o.res == RS_BADLAST) bl++; }
        R.stat("G_bad_alloc", ba); R.stat("G_bad_last_alloc", bl);
        if (ba > 1) out.fail("bad_alloc-delivered-twice", std::to_string(ba) + " pushes received bad_alloc for one failed page allocation");
        if (bl && !ba) out.fail("bad_last_alloc-without-failure", "a push received bad_last_alloc although no page allocation failed");
    }
    if (p.cls == 'L') for (auto& o : out.ops) if (o.res <= RS_THREW && o.res != RS_CORRUPT) out.fail("unexpected-exception", std::string(kind_names[o.kind]) + " ended with exception code " + std::to_string(o.res));
    int n = (int)out.ops.size();
    int ov = overlapping_pairs(out.ops);
    R.stat("ops", n); R.stat("overlapping_pairs", ov); R.stat("helper_ops", out.helper_ops); R.stat("helper_skipped_because_a_thread_was_not_provably_asleep", out.helper_not_sure);
    R.stat("try_push_while_pop_blocked", out.try_push_while_pop_blocked); R.stat("try_push_full_while_pop_blocked", out.try_push_full_while_pop_blocked);
    R.stat("pops", as.pops); R.stat("try_pop_empty", as.empties); R.stat("try_push_full", as.fulls); R.stat("push_exceptions", as.exceptions);
    bool nontrivial = ov > 0;
    if (nontrivial) { R.nontrivial++; R.signature(mix(history_signature(out.ops), (uint64_t)p.cls)); ls.overlapping++; }
    Lin res = Lin::OK; uint64_t steps = 0;
    if (out.fail_key.empty()) {
        if (n <= 62) {
            res = wgl_check(out.ops, E.out_initial, cap, 3000000, &steps);
            R.stat_max("max_wgl_steps", (long long)steps);
            if (res == Lin::OK) { ls.checked++; R.stat(std::string("wgl_ok_") + (char)p.cls); }
            else if (res == Lin::BUDGET) { ls.budget++; R.inconclusive++; R.stat("wgl_budget"); }
            else out.fail("not-linearizable", "no linearization of the recorded history against the sequential " + std::string(cap >= 0 ? "bounded " : "") + "FIFO model");
        } else { ls.too_long++; R.stat("history_too_long_for_wgl"); }
    }
    if (out.reported) return false;
    if (!out.fail_key.empty()) {
        Json j; j.obj(); j.key("plan").raw(plan_json(p)); j.key("initial").arr(); for (long v : E.out_initial) j.val(v); j.end_arr();
        j.key("history[thread,op,arg,result,call,ret]").raw(history_json(out.ops, kind_names)); j.end_obj();
        R.violation(cls_key(p.cls, out.fail_key), out.fail_detail + "\n" + rings_dump(6), j.s);
        return false;
    }
    if (nontrivial && ov >= 3 && R.want_sample()) {
        Json j; j.obj(); j.kv("class", std::string(1, (char)p.cls)); j.kv("queue", p.bounded ? "concurrent_bounded_queue" : "concurrent_queue"); j.kv("capacity", cap); j.kv("elem_bytes", kSizes[p.size_class]);
        j.kv("overlapping_pairs", ov); j.kv("wgl_steps", (unsigned long long)steps);
        j.key("history[thread,op,arg,result,call,ret]").raw(history_json(out.ops, kind_names)); j.end_obj();
        R.sample(j.s);
    }
    return true;
}

} // namespace c09
