// C11 shared parts: allocation registry + instrumented allocator (fault injection, delay point, shadow construction counters),
// element type, thread pool, hang context.
#pragma once
#include "vrt.h"
#include <oneapi/tbb/concurrent_vector.h>
#include <sys/mman.h>
#include <new>
#include <stdexcept>

namespace c11 {
using namespace vrt;

// In the tsan variant the monitors must not add happens-before edges between the threads under test: everything the
// hot path shares is a relaxed atomic there (relaxed atomics create no edge for ThreadSanitizer).
#if VRT_TSAN
constexpr std::memory_order kRel = std::memory_order_relaxed, kAcq = std::memory_order_relaxed;
#else
constexpr std::memory_order kRel = std::memory_order_release, kAcq = std::memory_order_acquire;
#endif
constexpr std::memory_order kRlx = std::memory_order_relaxed;

inline void relax(int& sp) { if (++sp < 200) _mm_pause(); else sched_yield(); }

struct Boom {};                                   // the injected element-constructor exception

// ------------------------------------------------------------------------------------------------ per-thread state
struct ThreadLocal {
    int tid = -1;                 // scenario-local thread index (0..n-1), -1 outside
    bool fault_ok = true;         // constructor faults may fire in the call this thread is executing
    int booms = 0;                // Boom thrown by this thread (in-vector constructor) during the current call
    int bad_allocs = 0;           // injected bad_alloc thrown by this thread during the current call
    long vec_ctors = 0;           // in-vector constructions by this thread (scenario)
    long allocs = 0;              // allocator calls by this thread (scenario)
    unsigned tick = 0;
};
inline ThreadLocal& tl() { static thread_local ThreadLocal t; return t; }

// ------------------------------------------------------------------------------------------------ registry
struct Slot { std::atomic<uint8_t> live, ctors; };

struct Region {
    std::atomic<uintptr_t> base{0}, end{0};       // 0/0 = erased (freed) or not yet published
    std::atomic<Slot*> shadow{nullptr};
    uintptr_t base0 = 0;                          // as allocated (kept after the entry is erased, for evidence only)
    std::atomic<size_t> n{0}, esize{0};
    int thread = -1;                              // scenario-local index of the allocating thread
    bool elem = false, freed = false, lazy = false;
};

struct Ctx {
    static constexpr int kMax = 384;
    Region reg[kMax];
    std::atomic<int> nreg{0};
    std::atomic<bool> overflow{false};
    std::atomic<long> n_alloc{0}, n_free{0};
    // fault injection: countdown; the call that finds 0 throws; negative = disarmed
    std::atomic<long> ctor_arm{-1}, alloc_arm{-1};
    std::atomic<int> ctor_fired{0}, alloc_fired{0};
    // class T: the allocation of the long segment table (64 pointers) fails, after a delay that lets other growth calls reach their wait for it
    std::atomic<long> table_arm{-1}; std::atomic<int> table_fired{0}; std::atomic<uint32_t> table_delay_us{0};
    std::atomic<long> first_arm{-1}; std::atomic<int> first_fired{0};      // class F: the k-th element-storage allocation fails, after table_delay_us
    // harness-side delay point at the entry of allocate(): probability in 1/65536
    std::atomic<uint32_t> alloc_delay_prob{0};
    std::atomic<long> alloc_delays{0};
    std::atomic<long> shadow_miss{0};             // tsan variant only: a lookup raced with the publication of a region
    std::atomic<long> unconstructed_destroyed_zero{0}, unconstructed_destroyed_garbage{0};
    bool lazy = false;                            // huge class: mmap(MAP_NORESERVE), no fill pattern, no shadow
    std::mutex m;
    std::vector<std::pair<std::string, std::string>> flags;   // violations seen on the hot path (what, detail)
    void flag(const std::string& what, const std::string& detail) { std::lock_guard<std::mutex> l(m); if (flags.size() < 8) flags.emplace_back(what, detail); }
    bool flagged() { std::lock_guard<std::mutex> l(m); return !flags.empty(); }

    Region* find(uintptr_t a) {
        int n = std::min(nreg.load(kAcq), (int)kMax);
        for (int i = 0; i < n; i++) {
            uintptr_t b = reg[i].base.load(kAcq);
            if (b && a >= b && a < reg[i].end.load(kRlx)) return &reg[i];
        }
        return nullptr;
    }
    Region* find_base(uintptr_t a) {
        int n = std::min(nreg.load(kAcq), (int)kMax);
        for (int i = 0; i < n; i++) if (reg[i].base.load(kAcq) == a) return &reg[i];
        return nullptr;
    }
    int live_regions(bool elem_only) {
        int c = 0, n = std::min(nreg.load(), (int)kMax);
        for (int i = 0; i < n; i++) if (reg[i].base.load() && (!elem_only || reg[i].elem)) c++;
        return c;
    }
    ~Ctx() {
        int n = std::min(nreg.load(), (int)kMax);
        for (int i = 0; i < n; i++) if (Slot* s = reg[i].shadow.load()) free(s);
    }
};
inline std::atomic<Ctx*>& g_ctx() { static std::atomic<Ctx*> c{nullptr}; return c; }
struct CtxScope {                                  // installs a fresh registry for one vector under test
    Ctx* c;
    CtxScope() : c(new Ctx) { g_ctx().store(c); }
    ~CtxScope() { g_ctx().store(nullptr); delete c; }
    Ctx* operator->() { return c; }
};

struct Elem;
template <class T> struct is_elem : std::false_type {};
template <> struct is_elem<Elem> : std::true_type {};
struct HugeElem;
template <> struct is_elem<HugeElem> : std::true_type {};

inline void* raw_allocate(size_t n, size_t esize, bool elem) {
    Ctx* c = g_ctx().load(kRlx);
    if (!c) return ::operator new(n * esize);
    ThreadLocal& t = tl();
    t.allocs++;
    if (uint32_t p = c->alloc_delay_prob.load(kRlx)) {
        Rng& r = trng(); uint32_t x = r.u32();
        if ((x & 0xffff) < p) {
            c->alloc_delays.fetch_add(1, kRlx);
            unsigned k = (x >> 16) % 100;
            if (k < 40) spin_iters(50 + (x >> 20) % 3000); else if (k < 70) sched_yield(); else sleep_us(20 + (x >> 20) % 400);
        }
    }
    long a = c->alloc_arm.load(kRlx);
    if (a >= 0 && c->alloc_arm.fetch_sub(1, kRlx) == 0) { c->alloc_fired.fetch_add(1, kRlx); t.bad_allocs++; throw std::bad_alloc(); }
    if (elem && c->first_arm.load(kRlx) >= 0 && c->first_arm.fetch_sub(1, kRlx) == 0) {
        if (uint32_t d = c->table_delay_us.load(kRlx)) sleep_us(d);
        c->first_fired.fetch_add(1, kRlx); c->alloc_fired.fetch_add(1, kRlx); t.bad_allocs++; throw std::bad_alloc();
    }
    if (!elem && n == 64 && esize == sizeof(void*) && c->table_arm.load(kRlx) >= 0 && c->table_arm.fetch_sub(1, kRlx) == 0) {
        if (uint32_t d = c->table_delay_us.load(kRlx)) sleep_us(d);
        c->table_fired.fetch_add(1, kRlx); c->alloc_fired.fetch_add(1, kRlx); t.bad_allocs++; throw std::bad_alloc();
    }
    c->n_alloc.fetch_add(1, kRlx);
    size_t bytes = n * esize;
    void* p;
    if (c->lazy) {
        p = mmap(nullptr, bytes, PROT_READ | PROT_WRITE, MAP_PRIVATE | MAP_ANONYMOUS | MAP_NORESERVE, -1, 0);
        if (p == MAP_FAILED) { fprintf(stderr, "[c11] mmap of %zu bytes failed (address space / overcommit limit of this machine)\n", bytes); throw std::bad_alloc(); }
    } else {
        p = ::operator new(bytes);
        if (elem) memset(p, 0xA5, bytes);          // fresh element storage is recognisable: neither constructed nor zero-filled
    }
    int i = c->nreg.fetch_add(1, kRlx);
    if (i >= Ctx::kMax) { c->overflow.store(true, kRlx); return p; }
    Region& r = c->reg[i];
    r.base0 = (uintptr_t)p; r.n.store(n, kRlx); r.esize.store(esize, kRlx); r.thread = t.tid; r.elem = elem; r.lazy = c->lazy;
    if (elem && !c->lazy) r.shadow.store((Slot*)calloc(n, sizeof(Slot)), kRlx);
    r.end.store((uintptr_t)p + bytes, kRlx);
    r.base.store((uintptr_t)p, kRel);              // publication
    return p;
}

inline void raw_deallocate(void* p, size_t n, size_t esize, bool elem) {
    Ctx* c = g_ctx().load(kRlx);
    if (!c) { ::operator delete(p); return; }
    c->n_free.fetch_add(1, kRlx);
    Region* r = c->find_base((uintptr_t)p);
    if (!r) {
        if (!c->overflow.load(kRlx)) c->flag("deallocate-unknown-block", "deallocate(" + hex64((uintptr_t)p) + ", " + std::to_string(n) + ") for a block the allocator did not hand out (or handed out and already took back)");
    } else {
        if (r->n.load(kRlx) != n) c->flag("deallocate-size-mismatch", "block of " + std::to_string(r->n.load(kRlx)) + " objects returned as " + std::to_string(n));
        if (Slot* s = r->shadow.load(kRlx)) {
            size_t live = 0, first = 0;
            for (size_t i = 0; i < std::min(n, r->n.load(kRlx)); i++) if (s[i].live.load(kRlx)) { if (!live) first = i; live++; }
            if (live) c->flag("storage-freed-with-live-elements", std::to_string(live) + " constructed elements were never destroyed before their segment (" + std::to_string(n) + " slots) was freed; first at offset " + std::to_string(first));
        }
        r->freed = true;
        r->end.store(0, kRlx); r->base.store(0, kRel);      // erase the entry: the address may be handed out again
    }
    if (c->lazy) munmap(p, n * esize); else ::operator delete(p);
}

template <class T> struct TAlloc {
    using value_type = T;
    TAlloc() = default;
    template <class U> TAlloc(const TAlloc<U>&) {}
    T* allocate(size_t n) { return (T*)raw_allocate(n, sizeof(T), is_elem<T>::value); }
    void deallocate(T* p, size_t n) { raw_deallocate((void*)p, n, sizeof(T), is_elem<T>::value); }
    template <class U> bool operator==(const TAlloc<U>&) const { return true; }
    template <class U> bool operator!=(const TAlloc<U>&) const { return false; }
};

// ------------------------------------------------------------------------------------------------ element
constexpr uint64_t kMagic = 0x5EEDC0DE0C11C11Full;
constexpr uint64_t kDef = 0xD0D0D0D000000001ull;       // value of a default-constructed element
constexpr uint64_t kMoved = 0xDEAD00000000DEADull;

inline void note_ctor(const void* p) {
    Ctx* c = g_ctx().load(kRlx); if (!c) return;
    Region* r = c->find((uintptr_t)p);
    if (!r) return;                                        // a temporary outside the vector
    ThreadLocal& t = tl();
    if (t.fault_ok) {
        long a = c->ctor_arm.load(kRlx);
        if (a >= 0 && c->ctor_arm.fetch_sub(1, kRlx) == 0) { c->ctor_fired.fetch_add(1, kRlx); t.booms++; throw Boom{}; }
    }
    t.vec_ctors++;
    if ((++t.tick & 0x3fff) == 0) progress();
    Slot* s = r->shadow.load(kRlx);
    if (!s) { c->shadow_miss.fetch_add(1, kRlx); return; }
    size_t i = ((uintptr_t)p - r->base.load(kRlx)) / r->esize.load(kRlx);
    if (s[i].live.fetch_add(1, kRlx) != 0) c->flag("constructed-twice", "an element was constructed in a slot that already holds a live element (offset " + std::to_string(i) + " of a " + std::to_string(r->n.load(kRlx)) + "-slot block)");
    uint8_t k = s[i].ctors.load(kRlx); if (k < 200) s[i].ctors.store(k + 1, kRlx);
}
// returns 0 destroyed a live element, 1 slot was zero-filled, 2 slot was raw/garbage, -1 not in the vector
inline int note_dtor(const void* p, bool bytes_zero) {
    Ctx* c = g_ctx().load(kRlx); if (!c) return -1;
    Region* r = c->find((uintptr_t)p);
    if (!r) return -1;
    Slot* s = r->shadow.load(kRlx);
    if (!s) { c->shadow_miss.fetch_add(1, kRlx); return -1; }
    size_t i = ((uintptr_t)p - r->base.load(kRlx)) / r->esize.load(kRlx);
    if (s[i].live.load(kRlx) == 0) {
        if (bytes_zero) { c->unconstructed_destroyed_zero.fetch_add(1, kRlx); return 1; }
        c->unconstructed_destroyed_garbage.fetch_add(1, kRlx); return 2;
    }
    s[i].live.fetch_sub(1, kRlx);
    return 0;
}

struct Elem {
    uint64_t v, chk;
    Elem() : v(kDef), chk(kDef ^ kMagic) { note_ctor(this); }
    explicit Elem(uint64_t x) : v(x), chk(x ^ kMagic) { note_ctor(this); }
    Elem(uint64_t a, uint64_t b) : v(a ^ b), chk(a ^ b ^ kMagic) { note_ctor(this); }
    Elem(const Elem& o) : v(o.v), chk(o.chk) { note_ctor(this); }
    Elem(Elem&& o) : v(o.v), chk(o.chk) { note_ctor(this); o.v = kMoved; o.chk = kMoved ^ kMagic; }
    Elem& operator=(const Elem& o) { v = o.v; chk = o.chk; return *this; }
    ~Elem() { note_dtor(this, v == 0 && chk == 0); }
    bool sane() const { return chk == (v ^ kMagic); }
    bool zero() const { return v == 0 && chk == 0; }
};
using Vec = tbb::concurrent_vector<Elem, TAlloc<Elem>>;

// huge class: construction touches no memory (only a thread-local tick so that the watchdog sees construction going on)
inline thread_local unsigned h_tick = 0;
struct HugeElem {
    HugeElem() { if ((++h_tick & 0xffffff) == 0) progress(); }
    char c;
};
using HugeVec = tbb::concurrent_vector<HugeElem, TAlloc<HugeElem>>;

// ------------------------------------------------------------------------------------------------ thread pool
struct Pool {
    static constexpr int kMax = 8;
    std::mutex m; std::condition_variable cv;
    uint64_t round = 0; int n_active = 0; bool quit = false;
    std::function<void(int)> job;
    std::atomic<int> arrived{0}, finished{0};
    std::vector<std::thread> th;
    Pool() {
        for (int t = 0; t < kMax; t++) th.emplace_back([this, t] {
            hook_thread();
            uint64_t seen = 0;
            for (;;) {
                int na;
                { std::unique_lock<std::mutex> l(m); cv.wait(l, [&] { return quit || round != seen; }); if (quit) return; seen = round; na = n_active; }
                if (t < na) {
                    arrived.fetch_add(1);
                    int sp = 0; while (arrived.load(std::memory_order_acquire) < na) relax(sp);
                    job(t);
                    finished.fetch_add(1, std::memory_order_release);
                }
            }
        });
    }
    void start(int n, std::function<void(int)> f) {
        job = std::move(f); arrived.store(0); finished.store(0);
        { std::lock_guard<std::mutex> l(m); n_active = n; round++; }
        cv.notify_all();
    }
    void wait() { int sp = 0; while (finished.load(std::memory_order_acquire) < n_active) relax(sp); }
    void run(int n, std::function<void(int)> f) { start(n, std::move(f)); wait(); }
};

// ------------------------------------------------------------------------------------------------ hang context
struct HangCtx {
    std::atomic<int> cls{'G'};
    std::atomic<int> inflight{0};            // threads inside a growth call
    std::atomic<int> exceptions{0};          // growth calls of this scenario that ended with an exception
    std::atomic<int> phase{0};               // 0 preparing, 1 concurrent part, 2 sequential growth after the fault, 3 checking
    std::atomic<int> cur_kind[Pool::kMax + 2]; std::atomic<long> cur_arg[Pool::kMax + 2];   // [kMax], [kMax+1]: the coordinator (prefix / growth after the fault)
    std::mutex m; std::string scenario;
    HangCtx() { for (auto& k : cur_kind) k.store(-1); for (auto& a : cur_arg) a.store(0); }
    void begin(int c, const std::string& scen) { cls.store(c); exceptions.store(0); phase.store(0); inflight.store(0); for (auto& k : cur_kind) k.store(-1); std::lock_guard<std::mutex> l(m); scenario = scen; }
    std::string scen() { std::lock_guard<std::mutex> l(m); return scenario; }
};
inline HangCtx& hang_ctx() { static HangCtx h; return h; }
struct InCall {
    int slot;
    InCall(int tid, int kind, long arg) : slot(tid < 0 || tid > Pool::kMax + 1 ? Pool::kMax + 1 : tid) { HangCtx& h = hang_ctx(); h.cur_arg[slot].store(arg, kRlx); h.cur_kind[slot].store(kind, kRlx); h.inflight.fetch_add(1, kRlx); }
    ~InCall() { HangCtx& h = hang_ctx(); h.inflight.fetch_sub(1, kRlx); h.cur_kind[slot].store(-1, kRlx); }
};

inline const char* cls_name(int c) {
    switch (c) { case 'G': return "G"; case 'E': return "E"; case 'S': return "S"; case 'a': return "Salloc"; case 'M': return "M"; case 'T': return "T"; case 'F': return "F"; case 'H': return "H"; }
    return "X";
}
inline std::string key_of(int cls, const std::string& what) { return std::string("c11.") + cls_name(cls) + "." + what; }

// segment arithmetic of the documented layout (segment k >= 1 holds indices [2^k, 2^(k+1)), segment 0 holds 0 and 1)
inline unsigned seg_of(uint64_t i) { return 63u - (unsigned)__builtin_clzll(i | 1); }
inline uint64_t seg_base(unsigned k) { return k == 0 ? 0 : (uint64_t)1 << k; }

} // namespace c11
