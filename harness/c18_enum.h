// C18 class E: deterministic single-threaded operation traces over the entry points of the default allocator, with the
// k-th OS mapping call refused. The parent first runs the trace once without faults to count the M mapping calls it makes,
// then one fresh process per fault plan: every single k <= M, a window k..k+j per k, and every subset for short traces.
#pragma once
#include "c18_common.h"

namespace c18 {

enum OpKind : uint8_t { O_MALLOC, O_CALLOC, O_AMALLOC, O_PMEMALIGN, O_REALLOC, O_AREALLOC, O_FREE, O_ALLOCATOR, O_PMR, O_MSIZE, O_CLEAN, O_REALLOC_NULL, O_REALLOC_ZERO, O_KINDS };
static const char* const op_names[] = { "malloc", "calloc", "aligned_malloc", "posix_memalign", "realloc", "aligned_realloc", "free", "scalable_allocator::allocate", "scalable_memory_resource::allocate", "msize", "allocation_command", "realloc(null)", "realloc(p,0)" };
struct Op { uint8_t kind; uint32_t sel; size_t n; size_t al; };
enum Shape { SH_TINY, SH_MIX, SH_SLAB, SH_BACKREF, SH_HUGE, SH_ALIGNED, SH_SHAPES };
static const char* const shape_names[] = { "tiny", "mix", "slab", "backref", "huge", "aligned" };
struct Trace { uint64_t seed = 0; int shape = 0; bool huge_pages = false; bool sparse_fill = false; std::vector<Op> ops; };

struct A48 { char c[48]; };

inline size_t pick_size(Rng& r, int cls) {
    static const std::vector<size_t> edges = { 8, 64, 1024, 1025, 8127, 8128, 8129, 8192, 16384, 65536, 128 * KB - 64, 128 * KB, MB - 16384, MB - 128, MB, MB + 1, 2 * MB, 4 * MB, 4 * MB + 1 };
    switch (cls) {
    case 0: return 1 + r.below(64);
    case 1: return 65 + r.below(960);
    case 2: return 1025 + r.below(7104);
    case 3: return r.pick(edges);
    case 4: return 8129 + r.below(128 * KB - 8129);
    case 5: return 128 * KB + r.below(MB - 128 * KB);
    case 6: return MB + r.below(11 * MB);
    default: return 64 * MB + 1 + r.below(16 * MB);
    }
}
inline size_t pick_align(Rng& r, bool posix) {
    unsigned lo = posix ? 3 : 0;
    unsigned k = r.chance(3, 4) ? lo + (unsigned)r.below(13 - lo) : 13 + (unsigned)r.below(9);     // up to 2 MB
    return (size_t)1 << k;
}

inline Trace gen_trace(uint64_t seed, int shape) {
    Trace t; t.seed = seed; t.shape = shape;
    Rng r(mix(seed, 0xE18));
    t.huge_pages = r.chance(1, 6);
    auto cls_of = [&](const std::vector<int>& w) { int tot = 0; for (int x : w) tot += x; int v = (int)r.below(tot); for (size_t i = 0; i < w.size(); i++) { if (v < w[i]) return (int)i; v -= w[i]; } return 0; };
    auto alloc_op = [&](const std::vector<int>& w, bool plain_only = false) {
        Op o{}; o.sel = r.u32(); o.n = pick_size(r, cls_of(w)); o.al = 0;
        unsigned k = plain_only ? 0 : (unsigned)r.below(100);
        if (k < 40) o.kind = O_MALLOC;
        else if (k < 50) { o.kind = O_CALLOC; o.al = r.chance(1, 2) ? 1 : (size_t)1 << r.below(5); if (o.n < o.al) o.n = o.al; }   // calloc(n/al, al)
        else if (k < 65) { o.kind = O_AMALLOC; o.al = pick_align(r, false); }
        else if (k < 75) { o.kind = O_PMEMALIGN; o.al = pick_align(r, true); }
        else if (k < 85) { o.kind = O_ALLOCATOR; o.al = r.chance(1, 2) ? 1 : 48; }
        else if (k < 92) { o.kind = O_PMR; o.al = pick_align(r, false); }
        else o.kind = O_REALLOC_NULL;
        return o;
    };
    switch (shape) {
    case SH_TINY: {
        int n = 1 + (int)r.below(4);
        for (int i = 0; i < n; i++) {
            unsigned k = (unsigned)r.below(10);
            if (i > 0 && k < 3) { Op o{}; o.kind = k == 0 ? O_FREE : (r.chance(1, 3) ? O_AREALLOC : O_REALLOC); o.sel = r.u32(); o.n = pick_size(r, cls_of({ 0, 0, 1, 2, 2, 2, 3, 1 })); o.al = o.kind == O_AREALLOC ? pick_align(r, false) : 0; t.ops.push_back(o); }
            else t.ops.push_back(alloc_op({ 1, 1, 1, 2, 2, 2, 3, 1 }));
        }
        break;
    }
    case SH_SLAB: {            // many objects of a few KB: slab regions are requested from the OS again and again
        int n = 500 + (int)r.below(900);
        for (int i = 0; i < n; i++) {
            if (r.chance(1, 6)) { Op o{}; o.kind = O_FREE; o.sel = r.u32(); t.ops.push_back(o); }
            else { Op o{}; o.kind = r.chance(1, 8) ? O_CALLOC : O_MALLOC; o.al = 1; o.sel = r.u32(); o.n = r.chance(3, 4) ? 2700 + r.below(5400) : 1 + r.below(8128); t.ops.push_back(o); }
        }
        t.sparse_fill = true;
        break;
    }
    case SH_BACKREF: {         // thousands of live large objects: the back-reference table has to grow
        int n = 2100 + (int)r.below(600);
        for (int i = 0; i < n; i++) { Op o{}; o.kind = O_MALLOC; o.sel = r.u32(); o.n = 8129 + r.below(200); t.ops.push_back(o); if (r.chance(1, 40)) { Op f{}; f.kind = O_FREE; f.sel = r.u32(); t.ops.push_back(f); } }
        t.sparse_fill = true; t.huge_pages = false;
        break;
    }
    case SH_HUGE: {            // blocks that own their region: one mapping per request, mremap on realloc
        int n = 8 + (int)r.below(24);
        for (int i = 0; i < n; i++) {
            unsigned k = (unsigned)r.below(10);
            Op o{}; o.sel = r.u32(); o.n = pick_size(r, cls_of({ 0, 0, 0, 1, 0, 1, 5, 3 }));
            if (k < 4 || i == 0) { o.kind = r.chance(1, 5) ? O_AMALLOC : r.chance(1, 6) ? O_CALLOC : O_MALLOC; o.al = o.kind == O_CALLOC ? 1 : pick_align(r, false); }
            else if (k < 8) { o.kind = r.chance(1, 4) ? O_AREALLOC : O_REALLOC; o.al = (size_t)1 << r.below(13); }
            else o.kind = O_FREE;
            t.ops.push_back(o);
        }
        break;
    }
    case SH_ALIGNED: {
        int n = 30 + (int)r.below(60);
        for (int i = 0; i < n; i++) {
            unsigned k = (unsigned)r.below(10);
            Op o{}; o.sel = r.u32(); o.n = pick_size(r, cls_of({ 2, 2, 3, 3, 3, 2, 1, 0 }));
            if (k < 5 || i == 0) { o.kind = r.chance(1, 3) ? O_PMEMALIGN : r.chance(1, 4) ? O_PMR : O_AMALLOC; o.al = pick_align(r, o.kind == O_PMEMALIGN); }
            else if (k < 8) { o.kind = O_AREALLOC; o.al = pick_align(r, false); }
            else o.kind = O_FREE;
            t.ops.push_back(o);
        }
        break;
    }
    default: {                 // SH_MIX
        int n = 40 + (int)r.below(90);
        std::vector<int> w = r.chance(1, 2) ? std::vector<int>{ 3, 3, 4, 3, 4, 2, 1, 0 } : std::vector<int>{ 2, 2, 3, 3, 4, 3, 2, r.chance(1, 3) ? 1 : 0 };
        for (int i = 0; i < n; i++) {
            unsigned k = (unsigned)r.below(100);
            if (k < 50 || i == 0) t.ops.push_back(alloc_op(w));
            else if (k < 70) { Op o{}; o.kind = O_FREE; o.sel = r.u32(); t.ops.push_back(o); }
            else if (k < 84) { Op o{}; o.kind = O_REALLOC; o.sel = r.u32(); o.n = pick_size(r, cls_of(w)); t.ops.push_back(o); }
            else if (k < 90) { Op o{}; o.kind = O_AREALLOC; o.sel = r.u32(); o.n = pick_size(r, cls_of(w)); o.al = pick_align(r, false); t.ops.push_back(o); }
            else if (k < 94) { Op o{}; o.kind = O_MSIZE; o.sel = r.u32(); t.ops.push_back(o); }
            else if (k < 97) { Op o{}; o.kind = O_CLEAN; o.sel = r.u32(); t.ops.push_back(o); }
            else { Op o{}; o.kind = O_REALLOC_ZERO; o.sel = r.u32(); t.ops.push_back(o); }
        }
    }
    }
    return t;
}

inline std::string trace_json(const Trace& t, size_t max_ops = 40) {
    Json j; j.obj(); j.kv("class", "E"); j.kv("trace_seed", vrt::hex64(t.seed)); j.kv("shape", shape_names[t.shape]); j.kv("huge_pages_requested", t.huge_pages); j.kv("ops", (long long)t.ops.size());
    j.key("first_ops").arr();
    for (size_t i = 0; i < t.ops.size() && i < max_ops; i++) { const Op& o = t.ops[i]; std::string s = op_names[o.kind]; if (o.kind != O_FREE && o.kind != O_MSIZE && o.kind != O_CLEAN && o.kind != O_REALLOC_ZERO) { s += " " + szs(o.n); if (o.al && (o.kind == O_CALLOC || o.kind == O_ALLOCATOR)) s += " unit " + szs(o.al); else if (o.al && (o.kind == O_AMALLOC || o.kind == O_PMEMALIGN || o.kind == O_AREALLOC || o.kind == O_PMR)) s += " align " + szs(o.al); } j.val(s); }
    j.end_arr(); j.end_obj();
    return j.s;
}

// --------------------------------------------------------------------------------------------- trace execution (child)
struct TraceRun {
    Child& C; Shadow S; const Trace& t; bool sparse;
    long api_failures = 0, api_success = 0; uint64_t fail_sig = 0;
    TraceRun(Child& c, const Trace& tr) : C(c), t(tr), sparse(tr.sparse_fill) {}
    void fail(const std::string& what, const std::string& detail) { C.violation(cls_key('E', what), detail + " | during: " + const_cast<const char*>(g_shared->op), g_scenario_json); }
    void fill_blk(const Blk& b) { if (sparse && b.n > 64) { b.p[0] = pat(b.id, 0); b.p[b.n - 1] = pat(b.id, b.n - 1); b.p[b.n / 2] = pat(b.id, b.n / 2); } else fill(b.p, b.n, b.id); }
    long damage(const Blk& b, size_t limit = SIZE_MAX) {
        if (sparse && b.n > 64) { for (size_t i : { (size_t)0, b.n / 2, b.n - 1 }) if (i < limit && b.p[i] != pat(b.id, i)) return (long)i; return -1; }
        return first_damage(b.p, b.n, b.id, limit);
    }
    void sweep(const char* when) {
        for (auto& kv : S.by_addr) { long d = damage(kv.second); if (d >= 0) { fail("live-block-damaged", std::string(when) + ": block #" + std::to_string(kv.second.id) + " (" + std::to_string(kv.second.n) + " bytes at " + hexs(kv.first) + ") lost its pattern at offset " + std::to_string(d)); return; } }
    }
    // a request that came back empty: was it allowed to?
    void judge_failure(const Out& o, int kind, long fired_before, const std::string& what) {
        api_failures++; fail_sig = mix(fail_sig, (uint64_t)g_shared->op_index);
        C.stat(std::string("E_failed_") + op_names[kind]);
        if (kind == O_PMEMALIGN) { if (o.rc != ENOMEM) fail("wrong-error-code", what + " returned " + std::to_string(o.rc) + " instead of ENOMEM" + (o.rc <= -1000 ? " (and stored into *memptr although it failed)" : "")); }
        else if (kind == O_ALLOCATOR || kind == O_PMR) { if (!o.threw_bad_alloc) fail("no-bad_alloc", what + (o.threw_other ? " threw something that is not std::bad_alloc" : " returned null without throwing")); }
        else if (o.err != ENOMEM) fail("wrong-errno", what + " returned null with errno " + std::to_string(o.err) + " instead of ENOMEM");
        if (g_map_inj.fired.load() == fired_before) fail("fails-without-refusal", what + " failed although no mapping request was refused during the call (memory was available)");
    }
    // a request that returned a block (a block it replaces has been taken out of the shadow by the caller)
    bool judge_block(const Out& o, int kind, size_t n, size_t al, const std::string& what) {
        api_success++; (void)kind;
        uintptr_t a = (uintptr_t)o.p;
        if (o.threw_bad_alloc || o.threw_other) { fail("exception-and-result", what + " threw and returned"); return false; }
        if (o.err != 0) C.stat("E_errno_changed_by_successful_call");
        if (al > 1 && (a & (al - 1))) fail("misaligned", what + " returned " + hexs(a) + " which is not aligned to " + std::to_string(al));
        size_t ms = x_msize(o.p);
        if (ms < n) { fail("msize-too-small", what + " returned a block whose msize is " + std::to_string(ms)); return false; }
        std::string ov = S.overlap(a, a + n);
        if (!ov.empty()) { fail("overlaps-live-block", what + " returned " + hexs(a) + "+" + std::to_string(n) + " which overlaps live " + ov); return false; }
        g_os.mu.lock(); bool inside = g_os.covered(a, a + n); g_os.mu.unlock();
        if (!inside) { fail("block-outside-mapped-memory", what + " returned " + hexs(a) + "+" + std::to_string(n) + " which is not inside memory the allocator currently holds from the OS"); return false; }
        return true;
    }
    void release(Blk b) {
        long d = damage(b); if (d >= 0) fail("live-block-damaged", "before free: block #" + std::to_string(b.id) + " (" + std::to_string(b.n) + " bytes) lost its pattern at offset " + std::to_string(d));
        if (b.id & 1) x_free(b.p); else x_aligned_free(b.p);
    }

    void run(const FaultPlan& plan) {
        g_shadow = &S; g_live_overlap = shadow_overlap_cb;
        if (t.huge_pages) { InCall ic; scalable_allocation_mode(TBBMALLOC_USE_HUGE_PAGES, 1); }
        g_map_inj.reset_counts(); g_map_inj.arm(plan);
        bool used_huge = false;
        for (size_t i = 0; i < t.ops.size(); i++) {
            Op o = t.ops[i];
            if ((o.kind == O_FREE || o.kind == O_REALLOC || o.kind == O_AREALLOC || o.kind == O_MSIZE || o.kind == O_REALLOC_ZERO) && S.size() == 0) { o.kind = O_MALLOC; if (!o.n) o.n = 100; }
            long fired0 = g_map_inj.fired.load();
            if (o.n >= 32 * MB) used_huge = true;
            char what[160];
            switch (o.kind) {
            case O_MALLOC: case O_REALLOC_NULL: case O_CALLOC: case O_AMALLOC: case O_PMEMALIGN: case O_ALLOCATOR: case O_PMR: {
                Out r; size_t n = o.n, al = 0;
                if (o.kind == O_MALLOC) { snprintf(what, sizeof what, "malloc(%zu)", n); note_op((long)i, "%s", what); r = x_malloc(n); }
                else if (o.kind == O_REALLOC_NULL) { snprintf(what, sizeof what, "realloc(null,%zu)", n); note_op((long)i, "%s", what); r = x_realloc(nullptr, n); }
                else if (o.kind == O_CALLOC) { size_t cnt = n / o.al; n = cnt * o.al; snprintf(what, sizeof what, "calloc(%zu,%zu)", cnt, o.al); note_op((long)i, "%s", what); r = x_calloc(cnt, o.al); }
                else if (o.kind == O_AMALLOC) { al = o.al; snprintf(what, sizeof what, "aligned_malloc(%zu,%zu)", n, al); note_op((long)i, "%s", what); r = x_aligned_malloc(n, al); }
                else if (o.kind == O_PMEMALIGN) { al = o.al; snprintf(what, sizeof what, "posix_memalign(%zu,%zu)", al, n); note_op((long)i, "%s", what); r = x_posix_memalign(al, n); }
                else if (o.kind == O_ALLOCATOR) { size_t cnt = std::max<size_t>(1, n / o.al); n = cnt * o.al; snprintf(what, sizeof what, "scalable_allocator<%zu bytes>::allocate(%zu)", o.al, cnt); note_op((long)i, "%s", what); r = o.al == 1 ? x_allocator<char>(cnt) : x_allocator<A48>(cnt); }
                else { al = o.al; snprintf(what, sizeof what, "scalable_memory_resource::allocate(%zu,%zu)", n, al); note_op((long)i, "%s", what); r = x_pmr(n, al); }
                if (!r.p) judge_failure(r, o.kind, fired0, what);
                else if (judge_block(r, o.kind, n, al, what)) {
                    if (o.kind == O_CALLOC) { long nz = -1; for_positions(n, 0, [&](size_t k) { if (nz < 0 && ((unsigned char*)r.p)[k]) nz = (long)k; }); if (nz >= 0) fail("calloc-not-zero", std::string(what) + " returned memory with a non-zero byte at offset " + std::to_string(nz)); }
                    Blk& b = S.add(r.p, n, al, -1); fill_blk(b);
                }
                break;
            }
            case O_REALLOC: case O_AREALLOC: {
                size_t idx = o.sel % S.size(); Blk old = S.at(idx);
                size_t al = o.kind == O_AREALLOC ? o.al : 0;
                snprintf(what, sizeof what, "%s(block #%u of %zu bytes, %zu%s%s)", o.kind == O_AREALLOC ? "aligned_realloc" : "realloc", old.id, old.n, o.n, al ? ", align " : "", al ? std::to_string(al).c_str() : ""); note_op((long)i, "%s", what);
                Out r; { Exempt ex(old.p); r = o.kind == O_AREALLOC ? x_aligned_realloc(old.p, o.n, al) : x_realloc(old.p, o.n); }
                if (!r.p) {
                    judge_failure(r, o.kind, fired0, what);
                    long d = damage(old); if (d >= 0) fail("failed-realloc-damaged-block", std::string(what) + " failed and the old block lost its pattern at offset " + std::to_string(d));
                    if (x_msize(old.p) < old.n) fail("failed-realloc-damaged-block", std::string(what) + " failed and the old block's msize shrank below its size");
                } else {
                    size_t keep = std::min(old.n, o.n);
                    Blk moved = old; moved.p = (unsigned char*)r.p;
                    long d = damage(moved, keep);    // compares the old pattern at the new place
                    if (d >= 0) fail("realloc-lost-content", std::string(what) + " succeeded but byte " + std::to_string(d) + " of the kept prefix differs");
                    S.take(idx);
                    if (judge_block(r, o.kind, o.n, al, what)) { Blk& b = S.add(r.p, o.n, al, -1); fill_blk(b); }
                }
                break;
            }
            case O_REALLOC_ZERO: {
                size_t idx = o.sel % S.size(); Blk b = S.take(idx);
                note_op((long)i, "realloc(block #%u of %zu bytes, 0)", b.id, b.n);
                long d = damage(b); if (d >= 0) fail("live-block-damaged", "before realloc(p,0): block #" + std::to_string(b.id) + " lost its pattern at offset " + std::to_string(d));
                Out r = x_realloc(b.p, 0);
                if (r.p) fail("realloc-zero-returned-block", "realloc(p,0) returned non-null");
                break;
            }
            case O_FREE: { size_t idx = o.sel % S.size(); Blk b = S.take(idx); note_op((long)i, "free(block #%u of %zu bytes)", b.id, b.n); release(b); break; }
            case O_MSIZE: { Blk& b = S.at(o.sel % S.size()); note_op((long)i, "msize(block #%u)", b.id); if (x_msize(b.p) < b.n) fail("msize-too-small", "msize of live block #" + std::to_string(b.id) + " is below its requested size " + std::to_string(b.n)); break; }
            case O_CLEAN: { int cmd = (o.sel & 1) ? TBBMALLOC_CLEAN_ALL_BUFFERS : TBBMALLOC_CLEAN_THREAD_BUFFERS; note_op((long)i, "allocation_command(%s)", cmd == TBBMALLOC_CLEAN_ALL_BUFFERS ? "CLEAN_ALL_BUFFERS" : "CLEAN_THREAD_BUFFERS"); int rc = x_command(cmd); if (rc != TBBMALLOC_OK && rc != TBBMALLOC_NO_EFFECT) fail("command-error", "scalable_allocation_command returned " + std::to_string(rc)); break; }
            }
            vrt::progress();
            if ((i & 15) == 15 && !sparse) sweep("periodic sweep");
            if (C.violations > 3) break;
        }
        publish_counts();
        long calls_in_trace = g_map_inj.calls.load(), fired = g_map_inj.fired.load();
        g_map_inj.disarm();
        sweep("after the faulty phase");
        // memory is available again: every kind of request must succeed now
        std::vector<size_t> probe = { 8, 1000, 8128, 20000, 300000, 2 * MB + 5 }; if (used_huge) probe.push_back(64 * MB + 1);
        std::vector<Blk> extra;
        for (size_t n : probe) {
            note_op((long)t.ops.size(), "recovery malloc(%zu)", n);
            Out r = (n & 1) ? x_aligned_malloc(n, 128) : x_malloc(n);
            if (!r.p) { fail("still-failing-after-faults-stopped", "request of " + std::to_string(n) + " bytes fails (errno " + std::to_string(r.err) + ") although no mapping request is refused any more"); continue; }
            if (judge_block(r, O_MALLOC, n, (n & 1) ? 128 : 0, "recovery request")) { Blk& b = S.add(r.p, n, 0, -1); fill_blk(b); extra.push_back(b); }
            vrt::progress();
        }
        sweep("after recovery requests");
        note_op((long)t.ops.size() + 1, "freeing everything");
        while (S.size()) { Blk b = S.take((S.size() * 7 + 3) % S.size()); release(b); }
        vrt::progress();
        note_op((long)t.ops.size() + 2, "allocation_command(CLEAN_ALL_BUFFERS) at the end");
        x_command(TBBMALLOC_CLEAN_ALL_BUFFERS); x_command(TBBMALLOC_CLEAN_THREAD_BUFFERS);
        note_op((long)t.ops.size() + 3, "final malloc(5 MB)");
        Out z = x_malloc(5 * MB); if (!z.p) fail("still-failing-after-faults-stopped", "malloc(5 MB) fails after everything was freed"); else { memset(z.p, 0x5C, 4096); x_free(z.p); }
        g_shadow = nullptr; g_live_overlap = nullptr;
        C.stat("E_mapping_calls_in_trace", calls_in_trace); C.stat("E_refusals_fired", fired); C.stat("E_api_failures", api_failures); C.stat("E_api_successes", api_success);
        C.stat("E_os_maps", g_os.maps.load()); C.stat("E_os_unmaps", g_os.unmaps.load()); C.stat("E_os_remaps", g_os.remaps.load());
        C.stat("fired", fired); C.stat("calls", calls_in_trace); C.stat("api_failures", api_failures);
        if (fired) C.signature(mix(mix(t.seed, fail_sig), mix((uint64_t)plan.kind, mix((uint64_t)plan.from, mix((uint64_t)plan.to, plan.mask)))));
    }
};

// --------------------------------------------------------------------------------------------- class I
// N requests in a row while every mapping call is refused (the library cannot initialise), then memory comes back.
// N >= 1024 is the reproducer of a defect this check found (every failed initialisation leaked a pthread key; repaired by 252356a).
inline void init_failure_child(Child& C, long n) {
    FaultPlan all; all.kind = FaultPlan::RANGE; all.from = 1; all.to = LONG_MAX;
    g_map_inj.reset_counts(); g_map_inj.arm(all);
    long without_attempt = 0, first_without = -1;
    for (long i = 1; i <= n; i++) {
        note_op(i, "malloc(100) number %ld with every mapping refused", i);
        long c0 = g_map_inj.calls.load();
        Out o = (i % 3) == 0 ? x_aligned_malloc(100, 64) : (i % 3) == 1 ? x_malloc(100) : x_calloc(10, 10);
        if (o.p) { C.violation(cls_key('I', "block-without-memory"), "a request succeeded although every mapping call is refused", g_scenario_json); break; }
        if (o.err != ENOMEM) C.violation(cls_key('I', "wrong-errno"), "request " + std::to_string(i) + " returned null with errno " + std::to_string(o.err), g_scenario_json);
        if (g_map_inj.calls.load() == c0) { without_attempt++; if (first_without < 0) first_without = i; }
        vrt::progress();
    }
    publish_counts();
    long refused = g_map_inj.fired.load();
    g_map_inj.disarm();
    pthread_key_t k; int krc = pthread_key_create(&k, nullptr); if (krc == 0) pthread_key_delete(k);
    note_op(n + 1, "malloc(100) after memory came back");
    long c0 = g_map_inj.calls.load();
    Out o = x_malloc(100);
    C.stat("I_failed_initialisations", n); C.stat("I_refusals_fired", refused); C.stat("fired", refused);
    if (!o.p) {
        std::string d = "after " + std::to_string(n) + " requests that failed because the library's first mapping was refused, malloc(100) still fails (errno " + std::to_string(o.err) + ") although nothing is refused any more; mapping calls attempted by it: " +
                        std::to_string(g_map_inj.calls.load() - c0) + "; first request that did not even ask the OS: #" + std::to_string(first_without) + "; pthread_key_create in the application returns " + std::to_string(krc) + (krc == EAGAIN ? " (EAGAIN: the process is out of TLS keys)" : "");
        C.violation(cls_key('I', n >= 1024 && krc == EAGAIN ? "init-failures-exhaust-tls-keys" : "no-recovery-after-failed-initialisation"), d, g_scenario_json);
    } else {
        C.stat("I_recovered"); memset(o.p, 1, 100); x_free(o.p);
        Out z = x_malloc(3 * MB); if (!z.p) C.violation(cls_key('I', "no-recovery-after-failed-initialisation"), "malloc(3 MB) fails after recovery", g_scenario_json); else x_free(z.p);
    }
    C.signature(mix(0x1111, (uint64_t)n));
}
inline void run_init_failures(Runner& P, const std::vector<long>& ns) {
    vrt::Result& R = vrt::result();
    for (long n : ns) {
        std::string scen; { Json j; j.obj(); j.kv("class", "I"); j.kv("requests_while_every_mapping_is_refused", (long long)n); j.end_obj(); scen = j.s; }
        Report rep = P.run([&](Child& C) { g_scenario_json = scen; init_failure_child(C, n); });
        P.absorb(rep, scen); R.scenarios++; if (rep.st("fired") > 0) R.nontrivial++;
        for (auto h : rep.sigs) R.signature(h);
        if (R.want_sample()) { Json j; j.obj(); j.key("case").raw(scen); j.kv("recovered", rep.st("I_recovered") > 0); j.end_obj(); R.sample(j.s); }
    }
}

// --------------------------------------------------------------------------------------------- enumeration (parent)
struct EnumCfg { long budget = 1000; int cap = 400; int subset_max = 8; bool thorough = false; std::string only_shape; };

inline std::string plan_json(const FaultPlan& p, long M) { Json j; j.obj(); j.kv("plan", p.str()); j.kv("mapping_calls_in_fault_free_run", (long long)M); j.end_obj(); return j.s; }

inline void run_enum(Runner& P, const EnumCfg& cfg, Rng& top) {
    vrt::Result& R = vrt::result();
    static const int rot[] = { SH_TINY, SH_MIX, SH_HUGE, SH_MIX, SH_ALIGNED, SH_TINY, SH_MIX, SH_SLAB, SH_MIX, SH_HUGE, SH_TINY, SH_MIX, SH_BACKREF };
    long spent = 0; int ti = (int)top.below(5);
    while (spent < cfg.budget) {
        int shape = rot[ti++ % (sizeof rot / sizeof *rot)];
        if (!cfg.only_shape.empty()) { shape = -1; for (int s = 0; s < SH_SHAPES; s++) if (cfg.only_shape == shape_names[s]) shape = s; if (shape < 0) { fprintf(stderr, "unknown shape\n"); exit(2); } }
        if ((shape == SH_SLAB || shape == SH_BACKREF) && cfg.budget - spent < 60) shape = SH_MIX;
        Trace t = gen_trace(top.next(), shape);
        std::string tj = trace_json(t);
        auto one = [&](const FaultPlan& pl, long M) {
            std::string scen; { Json j; j.obj(); j.key("trace").raw(tj); j.key("fault").raw(plan_json(pl, M)); j.end_obj(); scen = j.s; }
            Report rep = P.run([&](Child& C) { g_scenario_json = scen; TraceRun tr(C, t); tr.run(pl); });
            P.absorb(rep, scen); spent++; R.scenarios++;
            for (auto h : rep.sigs) R.signature(h);
            return rep;
        };
        Report base = one(FaultPlan{}, -1);
        if (!base.done) { R.stat("E_traces_whose_fault_free_run_failed"); continue; }     // already reported by absorb
        if (base.st("api_failures")) R.violation("c18.E.fails-without-refusal", "the fault-free run of a trace had " + std::to_string(base.st("api_failures")) + " failing requests", tj);
        long M = (long)base.st("calls");
        R.stat("E_traces"); R.stat_max("max_E_mapping_calls_per_trace", M); R.stat(std::string("E_traces_") + shape_names[shape]);
        std::vector<FaultPlan> plans;
        bool exhaustive = true; long ks = 0;
        if (M <= cfg.subset_max) {
            for (uint64_t m = 1; m < ((uint64_t)1 << M); m++) { FaultPlan p; p.kind = FaultPlan::MASK; p.mask = m; plans.push_back(p); }
            ks = M; R.stat("E_traces_with_every_subset"); R.stat("E_subset_cases", (long long)plans.size());
        } else {
            std::vector<long> kv;
            if (M <= cfg.cap) for (long k = 1; k <= M; k++) kv.push_back(k);
            else { exhaustive = false; for (long k = 1; k <= 40; k++) kv.push_back(k); for (int i = 0; i < cfg.cap - 40; i++) kv.push_back(41 + (long)((M - 41) * (double)i / (cfg.cap - 41))); kv.erase(std::unique(kv.begin(), kv.end()), kv.end()); }
            ks = (long)kv.size();
            static const long widths[] = { 1, LONG_MAX, 2, LONG_MAX, 3, 7 };
            for (long k : kv) {
                FaultPlan p; p.kind = FaultPlan::RANGE; p.from = p.to = k; plans.push_back(p);
                long w = widths[k % 6];
                FaultPlan q = p; q.to = w == LONG_MAX ? LONG_MAX : k + w; plans.push_back(q);
                if (cfg.thorough) { FaultPlan q2 = p; q2.to = w == LONG_MAX ? k + 1 + k % 5 : LONG_MAX; plans.push_back(q2); }
            }
        }
        long fired_cases = 0, not_fired = 0, api_fail_cases = 0;
        for (auto& pl : plans) {
            Report rep = one(pl, M);
            if (rep.done || rep.term_sig || !rep.viols.empty()) {
                long f = rep.done ? (long)rep.st("fired") : rep.map_fired;
                if (f > 0) { fired_cases++; R.nontrivial++; } else not_fired++;
                if (rep.st("api_failures") > 0) api_fail_cases++;
            }
            if (R.want_sample() && rep.done && rep.st("api_failures") > 0 && (spent % 7) == 0) {
                Json j; j.obj(); j.key("trace").raw(trace_json(t, 12)); j.kv("fault", pl.str()); j.kv("mapping_calls_fault_free", (long long)M); j.kv("mapping_calls_this_run", (long long)rep.st("calls"));
                j.kv("refusals_fired", (long long)rep.st("fired")); j.kv("requests_that_reported_failure", (long long)rep.st("api_failures")); j.kv("requests_that_succeeded", (long long)rep.st("E_api_successes")); j.kv("outcome", rep.viols.empty() ? "clean" : "violation"); j.end_obj();
                R.sample(j.s);
            }
        }
        if (not_fired) exhaustive = false;
        R.stat("E_k_values_enumerated", ks); R.stat("E_k_values_total", M); R.stat("E_fault_cases", (long long)plans.size()); R.stat("E_fault_cases_fired", fired_cases); R.stat("E_fault_cases_not_fired", not_fired);
        R.stat("E_fault_cases_with_api_failure", api_fail_cases);
        if (exhaustive) R.stat("E_traces_exhaustive");
        // one record per trace for the evidence file (the check module turns these keys into a list)
        char key[200]; snprintf(key, sizeof key, "T|E|%s|%s|ops=%zu|M=%ld|k=%ld|cases=%zu|fired=%ld|exhaustive=%d|subsets=%d", shape_names[shape], vrt::hex64(t.seed).c_str(), t.ops.size(), M, ks, plans.size(), fired_cases, exhaustive ? 1 : 0, M <= cfg.subset_max ? 1 : 0);
        R.stat(key, 1);
    }
}

} // namespace c18
