// C19: collaborative_call_once runs the function to successful completion exactly once per flag (callers return only after
// it and see its effects; a throw reaches exactly one caller, the flag becomes callable again and a later or concurrent call
// retries); enumerable_thread_specific / combinable give every thread exactly one element (one initialiser call, stable
// address, no sharing while the table grows, iteration / combine visit every element exactly once).
//
// Scenario classes (violation keys c19.once.* / c19.ets.*):
//  once : fresh heap-allocated collaborative_once_flag; 2-12 callers released from a barrier. Callers are persistent external
//         threads calling directly (own implicit arena), through task_arena::execute of one of nine long-lived arenas of 1-8
//         slots (delegation when the arena is full), as parallel_for tasks inside such an arena, or as enqueued tasks. The
//         function spins, or runs a nested parallel_for (moonlighting helpers take part), and throws on a planned subset of the
//         first four attempts (before / inside / after the nested loop). Callers retry a planned number of times after catching.
//         The last caller to finish deletes the flag at once. Oracle: invocations mutually exclusive, <= 1 completion, nobody
//         returns before the completion stamp, plain payload visible (tsan: happens-before), every thrown attempt caught by exactly
//         one caller (the one whose functor ran), attempts == planned throws + 1, nothing invoked after completion, a flag all
//         callers gave up on is still callable, nobody stuck (watchdog verdict).
//  ets  : fresh container (ets_no_key / ets_key_per_instance with std::allocator, default ETS, combinable) + 1-4 waves of
//         2-136 threads (persistent pool threads, old and new to the container, plus a few really fresh std::threads whose ids
//         get recycled) released from a barrier onto local(); every thread repeats the lookup 1-24 times while others grow the
//         table. Oracle speaks about thread *ids* alive at the same time: distinct ids <-> distinct addresses, known id -> same
//         address, exists flag, exactly one initialiser call per new id, size() == initialiser calls == distinct ids, per-element
//         update counts, iteration / const iteration / range / combine_each / combine visit each element exactly once.
//  etsw : the same container oracle with oneTBB worker threads as the arriving threads (parallel_for in 1-3 hot arenas).
#define VRT_IMPL
#include "vrt_tbb.h"
#include <oneapi/tbb/collaborative_call_once.h>
#include <oneapi/tbb/enumerable_thread_specific.h>
#include <oneapi/tbb/combinable.h>
#include <oneapi/tbb/parallel_for.h>
#include <oneapi/tbb/task_arena.h>
#include <oneapi/tbb/global_control.h>
#include <unordered_map>
#include <unordered_set>
#include <memory>

using namespace vrt;

#if VRT_ASAN
// vrt's per-thread hook records are never freed by design; records of threads that have exited would be reported.
extern "C" const char* __lsan_default_suppressions() { return "leak:vrt::hook_thread\n"; }
extern "C" int __lsan_do_recoverable_leak_check();
#endif

static const auto RLX = std::memory_order_relaxed;

// ------------------------------------------------------------------------------------------------ failure collection
static std::atomic<int> g_fails{0};
static std::mutex g_fail_m;
static std::string g_fail_key, g_fail_detail;
static void fail(const std::string& key, const std::string& what) {
    if (g_fails.fetch_add(1, RLX) == 0) { std::lock_guard<std::mutex> l(g_fail_m); g_fail_key = key; g_fail_detail = what; }
}

static bool g_light = false;       // tsan variant: no shared event log inside the hooks

// ------------------------------------------------------------------------------------------------ event log (interleaving signature)
static const unsigned EVCAP = 160;
static std::atomic<unsigned> g_evn{0};
static std::atomic<uint32_t> g_ev[EVCAP];
static std::atomic<uint32_t> g_hk[6];        // hooks 190..195 reached during the current scenario
static std::atomic<uint32_t> g_cas_lg[40];   // root-array CAS attempts by log2(size) during the current scenario
static inline void ev(unsigned code) {
    if (g_light) return;
    unsigned i = g_evn.fetch_add(1, RLX);
    if (i < EVCAP) g_ev[i].store((code << 16) | ((unsigned)thread_ordinal() & 0xffffu), RLX);
}
static void observer(int id, const void*, long arg) {
    if (id < 190 || id > 195) return;
    g_hk[id - 190].fetch_add(1, RLX);
    if (id == 193 && arg >= 0 && arg < 40) g_cas_lg[arg].fetch_add(1, RLX);
    ev((unsigned)id * 64u + (unsigned)(arg < 0 ? 63 : (arg > 62 ? 62 : arg)));
}
static void ev_reset() { g_evn.store(0, RLX); for (auto& h : g_hk) h.store(0, RLX); for (auto& c : g_cas_lg) c.store(0, RLX); }
// hash of the event order with threads renamed in order of first appearance
static uint64_t ev_signature() {
    unsigned n = std::min(g_evn.load(RLX), EVCAP);
    uint64_t h = n; std::vector<unsigned> names;
    for (unsigned i = 0; i < n; i++) {
        uint32_t e = g_ev[i].load(RLX); unsigned th = e & 0xffffu, k = 0;
        for (; k < names.size(); k++) if (names[k] == th) break;
        if (k == names.size()) names.push_back(th);
        h = mix(h, ((uint64_t)(e >> 16) << 8) | k);
    }
    return h;
}

static inline void delay(int d) {
    if (d <= 0) return;
    if (d < 100000) { spin_iters((unsigned)d); return; }
    if (d == 100000) { sched_yield(); return; }
    sleep_us((unsigned)(d - 100000));
}

// ------------------------------------------------------------------------------------------------ start gate
// Few threads: spinning barrier (they really start together). Many threads (more than cores): a yielding barrier costs millions of
// context switches, so early arrivals block on a futex and the last one wakes them all.
#include <linux/futex.h>
#include <climits>
struct Gate {
    std::atomic<int> count{0}, gen{0}; int n; bool spin;
    Gate(int n_, bool spin_) : n(n_), spin(spin_) {}
    void wait() {
        int g = gen.load();
        if (count.fetch_add(1) + 1 == n) { count.store(0); gen.fetch_add(1); if (!spin) syscall(SYS_futex, reinterpret_cast<int*>(&gen), FUTEX_WAKE_PRIVATE, INT_MAX, nullptr, nullptr, 0); return; }
        if (spin) { int spins = 0; while (gen.load() == g) { if (++spins > 200) sched_yield(); else _mm_pause(); } }
        else while (gen.load() == g) syscall(SYS_futex, reinterpret_cast<int*>(&gen), FUTEX_WAIT_PRIVATE, g, nullptr, nullptr, 0);
    }
};
static int g_spin_max = 12;     // largest group released through the spinning barrier

// ------------------------------------------------------------------------------------------------ persistent thread pool
// Idle threads block without a timeout (condition variable) so that a wedged scenario lets the process become quiescent.
struct Latch {
    std::atomic<long> left{0}; std::mutex m; std::condition_variable cv;
    void arm(long n) { left.store(n); }
    void hit() { std::lock_guard<std::mutex> l(m); if (left.fetch_sub(1, std::memory_order_acq_rel) == 1) cv.notify_all(); }
    void wait() {
        for (int i = 0; i < 260 && left.load(std::memory_order_acquire) != 0; i++) { if (i < 200) _mm_pause(); else sched_yield(); }
        std::unique_lock<std::mutex> l(m); cv.wait(l, [&] { return left.load(std::memory_order_acquire) == 0; });
    }
};
struct PThread { std::mutex m; std::condition_variable cv; std::atomic<uint64_t> gen{0}; std::thread th; };
static std::vector<std::unique_ptr<PThread>> g_pool;
static std::function<void(int)> g_job;
static Latch g_latch;
static void pool_thread(PThread* p, int t) {
    uint64_t seen = 0;
    for (;;) {
        int spins = 0;
        while (p->gen.load(std::memory_order_acquire) == seen) {
            if (++spins < 300) _mm_pause();
            else if (spins < 320) sched_yield();
            else { std::unique_lock<std::mutex> l(p->m); p->cv.wait(l, [&] { return p->gen.load(std::memory_order_acquire) != seen; }); }
        }
        seen++;
        g_job(t);
        g_latch.hit();
    }
}
static void ensure_pool(int n) {
    while ((int)g_pool.size() < n) { g_pool.emplace_back(new PThread); PThread* p = g_pool.back().get(); int t = (int)g_pool.size() - 1; p->th = std::thread(pool_thread, p, t); }
}
static void pool_start(const std::vector<int>& idxs, std::function<void(int)> job) {
    int mx = 0; for (int t : idxs) mx = std::max(mx, t + 1);
    ensure_pool(mx);
    g_job = std::move(job);
    g_latch.arm((long)idxs.size());
    for (int t : idxs) { PThread& p = *g_pool[t]; { std::lock_guard<std::mutex> l(p.m); p.gen.fetch_add(1, std::memory_order_release); } p.cv.notify_one(); }
}
static void pool_wait() { g_latch.wait(); }

// ------------------------------------------------------------------------------------------------ long-lived arenas + keeper
struct ArenaBox { int conc, reserved; std::unique_ptr<tbb::task_arena> a; };
static std::vector<ArenaBox> g_arenas;
static std::atomic<uint32_t> g_hot_mask{0};
static std::atomic<long> g_k_enq{0}, g_k_ran{0};
static void keeper_main() {
    for (;;) {
        suspend_gate();
        uint32_t m = g_hot_mask.load(RLX);
        if (m && g_k_enq.load(RLX) - g_k_ran.load(RLX) < 128)
            for (size_t i = 0; i < g_arenas.size(); i++) if (m >> i & 1)
                for (int k = 0; k < 3; k++) { g_k_enq.fetch_add(1, RLX); g_arenas[i].a->enqueue([] { spin_iters(300); g_k_ran.fetch_add(1, std::memory_order_release); }); }
        sleep_us(m ? 40 : 150);
    }
}
static thread_local bool tl_warm = false;
static void warm_thread() { if (!tl_warm) { tbb::parallel_for(0, 2, [](int) {}); tl_warm = true; } }   // the thread gets its implicit arena once

// =================================================================================================== ONCE
static const int MAXA = 16;
struct OnceErr { int attempt; long uid; };
enum DKind { D_DIRECT, D_EXEC, D_EXECPF, D_ENQ, D_NKINDS };
static const char* dkind_name[] = { "direct", "arena.execute", "parallel_for-tasks-in-arena", "enqueued-tasks" };
struct DriverSpec { int kind, arena, first, k; };
struct alignas(64) CallerRec {
    int idx = 0, retries = 0, pre = 0; bool repeat_after = false;
    // outcome: written by the thread that runs the caller, read by main after the latch
    int tries = 0, ncaught = 0, caught[MAXA] = {}, ret_order = -1, thread_ord = -1;
    unsigned ran_mask = 0, helper_refs = 0, assists = 0;
    bool ok = false, overlapped = false, ran_nested = false, repeat_done = false;
    std::atomic<int> state{0};          // 0 not started, 1 inside collaborative_call_once, 2 finished
};
struct OnceScen {
    uint64_t seed = 0; long uid = 0;
    int ncallers = 0, throw_mask = 0, throw_site = 0, fn_spin = 0, nested_n = 0, nested_spin = 0, throw_iter = 0;
    bool hot = false, delete_by_last = false, classX = false; int placement = 0;
    std::vector<DriverSpec> drivers;
    std::unique_ptr<CallerRec[]> callers;       // ncallers + 1 (the last one is main's final call)
    std::atomic<tbb::collaborative_once_flag*> flag{nullptr};
    std::atomic<int> attempts{0}, running{0}, completions{0}, inside{0}, ret_counter{0}, drivers_left{0}, in_user_delay{0};
    std::atomic<int> helper_bodies{0}, worker_bodies{0}, deleted_by_last{0};
    std::atomic<int> attempt_runner[MAXA]; std::atomic<int> attempt_threw[MAXA];
    long payload = 0;                           // plain: the tsan variant checks the happens-before edge to every returning caller
    std::atomic<int> done{0};
    OnceScen() { for (auto& a : attempt_runner) a.store(-1, RLX); for (auto& a : attempt_threw) a.store(0, RLX); }
    long expected_payload() const { return uid * 7919 + 13; }
    std::string describe(bool outcome) const {
        static const char* pl_name[] = { "any (no throw planned)", "all callers direct", "all callers inside one arena", "spread over an arena and outside it (class X)" };
        Json j; j.obj(); j.kv("class", classX ? "onceX" : "once"); j.kv("placement", pl_name[placement]); j.kv("scn_seed", (unsigned long long)seed); j.kv("callers", ncallers); j.kv("throw_mask_first4_attempts", throw_mask);
        j.kv("throw_site", throw_site == 0 ? "before nested work" : throw_site == 1 ? "inside nested parallel_for body" : "after nested work");
        j.kv("function_spin", fn_spin); j.kv("nested_parallel_for", nested_n); j.kv("hot_arenas", hot); j.kv("flag_deleted_by_last_caller", delete_by_last);
        j.key("drivers").arr();
        for (auto& d : drivers) { j.obj(); j.kv("kind", dkind_name[d.kind]); if (d.kind != D_DIRECT) j.kv("arena", std::to_string(g_arenas[d.arena].conc) + "," + std::to_string(g_arenas[d.arena].reserved)); j.kv("callers", d.k); j.end_obj(); }
        j.end_arr();
        if (outcome) {
            j.kv("attempts", attempts.load()); j.kv("completions", completions.load()); j.kv("callers_inside_now", inside.load()); j.kv("invocations_running_now", running.load());
            j.kv("columns", "caller,retries_allowed,state(0 idle/1 inside/2 finished),returned_normally,tries,attempts_run_mask,attempts_caught,helper_refs,assists,ran_nested_work,return_order,thread");
            j.key("callers_outcome").arr();
            for (int i = 0; i <= ncallers; i++) {
                const CallerRec& c = callers[i]; if (i == ncallers && c.tries == 0) break;
                j.arr(); j.val(i); j.val(c.retries); j.val(c.state.load()); j.val(c.ok); j.val(c.tries); j.val(c.ran_mask);
                std::string cs; for (int k = 0; k < c.ncaught && k < MAXA; k++) cs += (k ? "," : "") + std::to_string(c.caught[k]); j.val(cs);
                j.val(c.helper_refs); j.val(c.assists); j.val(c.ran_nested); j.val(c.ret_order); j.val(c.thread_ord); j.end_arr();
            }
            j.end_arr();
        }
        j.kv("replay", std::string("c19 --mode ") + (classX ? "oncex" : "once") + " --scn " + std::to_string(seed) + " --cases 2000");
        j.end_obj(); return j.s;
    }
};
static thread_local CallerRec* tl_rec = nullptr;
static thread_local int tl_depth = 0;

struct Dec { std::atomic<int>& a; ~Dec() { a.fetch_sub(1, RLX); } };

static void once_body(OnceScen& s, CallerRec& me) {
    int a = s.attempts.fetch_add(1, RLX);
    int r = s.running.fetch_add(1, RLX);
    Dec dec{ s.running };
    ev(1000 + (unsigned)std::min(a, 15));
    if (r != 0) fail("c19.once.concurrent-invocations", "the function was entered (attempt " + std::to_string(a) + ") while " + std::to_string(r) + " other invocation(s) of the same flag were running");
    if (s.completions.load(RLX) != 0) fail("c19.once.invoked-after-completion", "the function was invoked (attempt " + std::to_string(a) + ") after an invocation had already completed successfully");
    if (a < MAXA) s.attempt_runner[a].store(me.idx, RLX);
    if (a < 32) me.ran_mask |= 1u << a;
    bool thr = a < 4 && (s.throw_mask >> a & 1);
    { s.in_user_delay.fetch_add(1, RLX); Dec d2{ s.in_user_delay }; spin_iters((unsigned)s.fn_spin); }
    if (thr && (s.throw_site == 0 || s.nested_n == 0)) { if (a < MAXA) s.attempt_threw[a].store(1, RLX); ev(1100 + (unsigned)a); throw OnceErr{ a, s.uid }; }
    if (s.nested_n > 0) {
        tbb::parallel_for(0, s.nested_n, [&](int i) {
            if (tl_depth > 0 && tl_rec != &me) { s.helper_bodies.fetch_add(1, RLX); tl_rec->ran_nested = true; }
            else if (tl_depth == 0) s.worker_bodies.fetch_add(1, RLX);
            spin_iters((unsigned)s.nested_spin);
            if (thr && s.throw_site == 1 && i == s.throw_iter) { if (a < MAXA) s.attempt_threw[a].store(1, RLX); ev(1100 + (unsigned)a); throw OnceErr{ a, s.uid }; }
        }, tbb::simple_partitioner());
    }
    if (thr) { if (a < MAXA) s.attempt_threw[a].store(1, RLX); ev(1100 + (unsigned)a); throw OnceErr{ a, s.uid }; }
    s.payload = s.expected_payload();
    s.done.store(1, RLX);
    ev(1200);
    if (s.completions.fetch_add(1, RLX) != 0) fail("c19.once.completed-more-than-once", "a second invocation of the function completed successfully (attempt " + std::to_string(a) + ")");
}

static void once_caller(OnceScen& s, CallerRec& me) {
    me.thread_ord = thread_ordinal();
    delay(me.pre);
    HookThread& ht = hook_thread();
    uint32_t h191 = ht.hist[191][1].load(RLX); uint64_t h192 = ht.cnt[192].load(RLX);
    CallerRec* saved = tl_rec; tl_rec = &me; tl_depth++;
    auto fn = [&] { once_body(s, me); };
    for (;;) {
        me.tries++;
        int before = s.inside.fetch_add(1, RLX);
        if (before > 0 && s.completions.load(RLX) == 0) me.overlapped = true;
        me.state.store(1, RLX);
        tbb::collaborative_once_flag* f = s.flag.load(RLX);
        try {
            tbb::collaborative_call_once(*f, fn);
            s.inside.fetch_sub(1, RLX);
            if (s.done.load(RLX) != 1) fail("c19.once.returned-before-completion", "caller " + std::to_string(me.idx) + " returned normally although no invocation of the function has completed (attempts so far " + std::to_string(s.attempts.load()) + ")");
            else if (s.payload != s.expected_payload()) fail("c19.once.effects-not-visible", "caller " + std::to_string(me.idx) + " returned but does not see the value written by the function");
            me.ok = true;
            break;
        } catch (const OnceErr& e) {
            s.inside.fetch_sub(1, RLX);
            if (e.uid != s.uid) fail("c19.once.foreign-exception", "caller caught an exception thrown for another flag");
            if (me.ncaught < MAXA) me.caught[me.ncaught] = e.attempt;
            me.ncaught++;
            ev(1300 + (unsigned)std::min(e.attempt, 15));
            if (me.ncaught > me.retries) break;       // gives up: the flag must stay callable for the others
            if (me.ncaught > 12) break;
        } catch (...) {
            s.inside.fetch_sub(1, RLX);
            fail("c19.once.foreign-exception", "caller caught an exception of an unknown type");
            break;
        }
    }
    if (me.ok && me.repeat_after) {      // fast path: once_body would report invoked-after-completion
        try { tbb::collaborative_call_once(*s.flag.load(RLX), fn); }
        catch (...) { fail("c19.once.invoked-after-completion", "a call made after the function had completed threw (the function was run again)"); }
        if (s.payload != s.expected_payload()) fail("c19.once.effects-not-visible", "second call of caller " + std::to_string(me.idx) + " does not see the value written by the function");
        me.repeat_done = true;
    }
    me.ret_order = s.ret_counter.fetch_add(1, RLX);
    ev(1400);
    me.helper_refs = ht.hist[191][1].load(RLX) - h191;
    me.assists = (unsigned)(ht.cnt[192].load(RLX) - h192);
    tl_depth--; tl_rec = saved;
    me.state.store(2, RLX);
    progress();
}

static void once_driver(OnceScen& s, int di, Gate& bar) {
    const DriverSpec& d = s.drivers[di];
    if (d.kind == D_DIRECT) warm_thread();
    bar.wait();
    switch (d.kind) {
    case D_DIRECT: once_caller(s, s.callers[d.first]); break;
    case D_EXEC: g_arenas[d.arena].a->execute([&] { once_caller(s, s.callers[d.first]); }); break;
    case D_EXECPF: g_arenas[d.arena].a->execute([&] { tbb::parallel_for(0, d.k, [&](int i) { once_caller(s, s.callers[d.first + i]); }, tbb::simple_partitioner()); }); break;
    case D_ENQ: {
        Latch dl; dl.arm(d.k);
        for (int i = 0; i < d.k; i++) g_arenas[d.arena].a->enqueue([&s, &d, &dl, i] { once_caller(s, s.callers[d.first + i]); dl.hit(); });
        dl.wait();
        break;
    }
    }
    // the last caller to finish destroys the flag immediately: nothing may touch it after every call has returned
    if (s.drivers_left.fetch_sub(1, std::memory_order_acq_rel) == 1 && s.delete_by_last && s.completions.load(RLX) == 1) {
        delete s.flag.exchange(nullptr); s.deleted_by_last.store(1, RLX);
    }
}

static int leading_throws(int mask) { int n = 0; while (n < 4 && (mask >> n & 1)) n++; return n; }
// Placement of the callers. A throwing attempt makes a second thread win while the first winner may still be spinning in its
// runner's destructor *inside its arena slot*, waiting for a helper that holds the lifetime guard and is parked at the entrance
// of that (full) arena: a known defect (class X, own processes). The strict classes cannot reach it: without a throw there is one
// winner only; with throws all callers are either direct (16-slot implicit arenas) or inside one and the same arena (helpers enter inline).
enum Placement { PL_ANY, PL_ALL_DIRECT, PL_SAME_ARENA, PL_SPREAD };
static void gen_once(OnceScen& s, Rng& r, int cpus, bool classX) {
    unsigned x = (unsigned)r.below(100);
    s.ncallers = x < 25 ? 2 : x < 45 ? 3 : x < 60 ? 4 : x < 90 ? 5 + (int)r.below(4) : 9 + (int)r.below(4);
    s.throw_mask = r.chance(35, 100) ? 0 : ((int)r.below(16) | (r.chance(1, 2) ? 1 : 0));
    if (classX) { s.throw_mask |= 1; if (s.ncallers < 4) s.ncallers = 4 + (int)r.below(5); }
    s.classX = classX;
    s.throw_site = (int)r.below(3);
    unsigned k = (unsigned)r.below(100);
    s.fn_spin = k < 30 ? 0 : k < 70 ? (int)r.below(2000) : k < 95 ? 2000 + (int)r.below(30000) : 40000;
    s.nested_n = r.chance(1, 2) ? 0 : 2 + (int)r.below(r.chance(1, 2) ? 8 : 63);
    s.nested_spin = (int)r.below(r.chance(1, 3) ? 3000 : 200);
    s.throw_iter = s.nested_n ? (int)r.below(s.nested_n) : 0;
    s.hot = r.chance(7, 10);
    s.delete_by_last = r.chance(7, 10);
    int pl = classX ? PL_SPREAD : leading_throws(s.throw_mask) == 0 ? PL_ANY : r.chance(2, 5) ? PL_ALL_DIRECT : PL_SAME_ARENA;
    s.placement = pl;
    bool same_arena = pl == PL_SAME_ARENA || (pl == PL_ANY && r.chance(1, 2));
    int shared_arena = (int)r.below(g_arenas.size());
    if (pl == PL_SPREAD) shared_arena = (int)r.pick(std::vector<int>{ 1, 1, 2, 3, 6, 6, 7 });      // small arenas
    s.callers.reset(new CallerRec[s.ncallers + 1]);
    int left = s.ncallers, first = 0;
    while (left > 0) {
        DriverSpec d{}; d.first = first;
        bool last_slot = s.drivers.size() == 11;
        unsigned y = (unsigned)r.below(100);
        d.kind = y < 30 ? D_DIRECT : y < 50 ? D_EXEC : y < 85 ? D_EXECPF : D_ENQ;
        if (pl == PL_ALL_DIRECT) d.kind = D_DIRECT;
        if (pl == PL_SAME_ARENA && d.kind == D_DIRECT) d.kind = D_EXECPF;
        if (pl == PL_SPREAD) { if (s.drivers.empty()) d.kind = D_EXECPF; else if (s.drivers.size() == 1) d.kind = D_DIRECT; }
        d.arena = same_arena || (pl == PL_SPREAD && r.chance(3, 4)) ? shared_arena : (int)r.below(g_arenas.size());
        if (d.kind == D_ENQ && g_arenas[d.arena].conc < 2) d.kind = D_EXECPF;
        d.k = (d.kind == D_EXECPF || d.kind == D_ENQ) ? 1 + (int)r.below(std::min(left, 4)) : 1;
        if (pl == PL_SPREAD && s.drivers.empty()) d.k = std::min(left - 1, 2 + (int)r.below(3));
        if (last_slot) { d.k = left; if (d.kind == D_EXEC) d.kind = D_EXECPF; }
        s.drivers.push_back(d); left -= d.k; first += d.k;
    }
    bool lowcpu = cpus > 0 && cpus <= 2;
    for (int i = 0; i <= s.ncallers; i++) {
        CallerRec& c = s.callers[i]; c.idx = i;
        c.retries = i == s.ncallers ? 10 : (int)r.below(6);
        c.repeat_after = r.chance(3, 10);
        unsigned p = (unsigned)r.below(100);
        c.pre = p < 50 ? 0 : p < (lowcpu ? 75u : 92u) ? (int)r.below(3000) : 100000;
    }
}

// =================================================================================================== ETS
struct Elem { long count = 0; uint64_t owner = 0; long serial = 0; int busy = 0; };
using EtsNoKey = tbb::enumerable_thread_specific<Elem, std::allocator<Elem>, tbb::ets_no_key>;
using EtsTls = tbb::enumerable_thread_specific<Elem, std::allocator<Elem>, tbb::ets_key_per_instance>;
using EtsDef = tbb::enumerable_thread_specific<Elem>;
using Comb = tbb::combinable<Elem>;
enum CKind { K_NOKEY, K_TLS, K_DEFAULT, K_COMBINABLE, K_NKINDS };
static const char* ckind_name[] = { "enumerable_thread_specific<ets_no_key,std::allocator>", "enumerable_thread_specific<ets_key_per_instance,std::allocator>",
                                    "enumerable_thread_specific<default>", "combinable" };
template <class C> struct HasIter { static const bool value = true; };
template <> struct HasIter<Comb> { static const bool value = false; };

static thread_local int tl_inits = 0;
static thread_local uint64_t tl_idhash = 0;
static inline uint64_t my_idhash() { if (!tl_idhash) tl_idhash = (uint64_t)std::hash<std::thread::id>{}(std::this_thread::get_id()); return tl_idhash; }

struct alignas(64) PartRec {
    uint64_t id = 0; Elem* first = nullptr; bool ex_first = false, fresh = false; int init_first = 0, init_total = 0;
    bool addr_changed = false, ex_false_later = false, busy_clash = false, owner_mismatch = false, first_overlap = false;
    long incs = 0; int L = 0, style = 0, pre = 0;
    std::atomic<int> in_local{0};
};
struct WaveSpec { std::vector<int> pool; int nfresh = 0; int nold = 0; };
struct EtsScen {
    uint64_t seed = 0; long uid = 0; int kind = 0; bool workers = false;
    std::vector<WaveSpec> waves; int maxL = 1;
    // workers mode
    int ndrv = 0; int drv_arena[3] = {}; int drv_n[3] = {};
    std::atomic<int> inits{0}, serials{0}, in_first{0}, nrec{0};
    std::vector<std::unique_ptr<PartRec[]>> recs; std::vector<int> nparts;
    int cur_wave = -1;
    std::string describe() const {
        Json j; j.obj(); j.kv("class", workers ? "etsw" : "ets"); j.kv("scn_seed", (unsigned long long)seed); j.kv("container", ckind_name[kind]);
        if (workers) { j.key("parallel_for_drivers").arr(); for (int i = 0; i < ndrv; i++) { j.arr(); j.val(std::to_string(g_arenas[drv_arena[i]].conc) + "," + std::to_string(g_arenas[drv_arena[i]].reserved)); j.val(drv_n[i]); j.end_arr(); } j.end_arr(); }
        else { j.kv("columns", "pool threads new to the container, pool threads seen before, fresh std::threads"); j.key("waves").arr(); for (auto& w : waves) { j.arr(); j.val((int)w.pool.size() - w.nold); j.val(w.nold); j.val(w.nfresh); j.end_arr(); } j.end_arr(); }
        j.kv("initialiser_calls", inits.load()); j.kv("wave_in_flight", cur_wave);
        j.kv("replay", std::string("c19 --mode ") + (workers ? "etsw" : "ets") + " --scn " + std::to_string(seed) + " --cases 2000");
        j.end_obj(); return j.s;
    }
};

static inline void touch(Elem* q, PartRec& r, int spin) {
    int b = __atomic_fetch_add(&q->busy, 1, __ATOMIC_RELAXED);
    if (b != 0) r.busy_clash = true;
    if (q->owner != r.id) r.owner_mismatch = true;
    q->count++;                                   // plain: a shared element is a data race (tsan) and loses updates
    if (spin) spin_iters((unsigned)spin);
    __atomic_fetch_sub(&q->busy, 1, __ATOMIC_RELAXED);
    r.incs++;
}

template <class C> static void ets_part(EtsScen& s, C& c, PartRec& r, Gate& bar) {
    r.id = my_idhash();
    int i0 = tl_inits;
    bar.wait();
    delay(r.pre);
    bool ex = false;
    int of = s.in_first.fetch_add(1, RLX); if (of > 0) r.first_overlap = true;
    r.in_local.store(1, RLX);
    Elem* p = &c.local(ex);
    r.in_local.store(0, RLX);
    s.in_first.fetch_sub(1, RLX);
    r.first = p; r.ex_first = ex; r.init_first = tl_inits - i0;
    touch(p, r, 0);
    for (int i = 0; i < r.L; i++) {
        bool e2 = true;
        r.in_local.store(1, RLX);
        Elem* q = (r.style & 1) && (i & 1) ? &c.local() : &c.local(e2);
        r.in_local.store(0, RLX);
        if (q != p) { r.addr_changed = true; p = q; }
        if (!e2) r.ex_false_later = true;
        touch(q, r, (r.style & 2) ? 40 : 0);
        if ((r.style & 4) && (i % 5) == 4) sched_yield();
    }
    r.init_total = tl_inits - i0;
    progress();
}

// shadow state of one container, owned by main
struct Shadow {
    std::unordered_map<uint64_t, Elem*> known;        // thread id -> its element
    std::unordered_map<Elem*, uint64_t> owner_of;
    std::unordered_map<uint64_t, long> expect;        // thread id -> updates made
    long reused_ids = 0, total_parts = 0, first_overlaps = 0;
};

static void check_part(EtsScen& s, Shadow& sh, const PartRec& r, std::unordered_map<Elem*, uint64_t>& in_wave, const char* where) {
    std::string who = std::string(where) + " thread id " + hex64(r.id) + (r.fresh ? " (fresh std::thread)" : "");
    if (r.addr_changed) fail("c19.ets.address-changed", who + ": local() returned a different address than the thread's first call");
    if (r.ex_false_later) fail("c19.ets.exists-false-on-repeated-access", who + ": local(exists) reported exists=false on a repeated access");
    if (r.busy_clash) fail("c19.ets.element-shared", who + ": another thread was using the element at the same time");
    if (r.owner_mismatch) fail("c19.ets.element-shared", who + ": obtained an element that was created for another thread id");
    auto iw = in_wave.find(r.first);
    if (iw != in_wave.end() && iw->second != r.id) fail("c19.ets.element-shared", who + " and thread id " + hex64(iw->second) + ", alive at the same time, obtained the same element " + hex64((uint64_t)r.first));
    in_wave[r.first] = r.id;
    auto kn = sh.known.find(r.id);
    if (kn != sh.known.end()) {
        if (kn->second != r.first) fail("c19.ets.second-element-for-thread", who + ": had element " + hex64((uint64_t)kn->second) + ", now obtained " + hex64((uint64_t)r.first));
        if (!r.ex_first) fail("c19.ets.exists-false-for-known-thread", who + ": exists=false although the id already has an element");
        if (r.init_total != 0) fail("c19.ets.initializer-count", who + ": " + std::to_string(r.init_total) + " initialiser call(s) for an id that already has an element");
        if (r.fresh) sh.reused_ids++;
    } else {
        if (r.ex_first) fail("c19.ets.exists-true-on-first-access", who + ": exists=true on the first access of a new id");
        if (r.init_total != 1) fail("c19.ets.initializer-count", who + ": " + std::to_string(r.init_total) + " initialiser calls on the thread's first access (expected 1)");
        auto ow = sh.owner_of.find(r.first);
        if (ow != sh.owner_of.end()) fail("c19.ets.element-shared", who + ": a new id obtained element " + hex64((uint64_t)r.first) + " that belongs to id " + hex64(ow->second));
        sh.known[r.id] = r.first; sh.owner_of[r.first] = r.id;
    }
    sh.expect[r.id] += r.incs;
    sh.total_parts++;
    if (r.first_overlap) sh.first_overlaps++;
    (void)s;
}

template <class C> static void quiescent_check(EtsScen& s, C& c, Shadow& sh, bool final_) {
    long want_sum = 0; for (auto& e : sh.expect) want_sum += e.second;
    size_t nids = sh.known.size();
    if ((size_t)s.inits.load() != nids) fail("c19.ets.initializer-count", "initialiser ran " + std::to_string(s.inits.load()) + " times for " + std::to_string(nids) + " distinct thread ids");
    auto visit = [&](std::unordered_map<Elem*, int>& seen, Elem* e, const char* how) {
        auto ow = sh.owner_of.find(e);
        if (ow == sh.owner_of.end()) { fail("c19.ets.visit-unknown-element", std::string(how) + " visits an element no thread obtained"); return; }
        if (++seen[e] > 1) fail("c19.ets.element-visited-twice", std::string(how) + " visits the element of thread id " + hex64(ow->second) + " twice");
        long w = sh.expect[ow->second];
        if (e->count != w) fail("c19.ets.lost-update", std::string(how) + ": element of thread id " + hex64(ow->second) + " counts " + std::to_string(e->count) + " updates, its thread(s) made " + std::to_string(w));
        if (e->owner != ow->second) fail("c19.ets.element-shared", std::string(how) + ": element owner stamp differs from the id that obtained it");
    };
    auto all_seen = [&](std::unordered_map<Elem*, int>& seen, const char* how) {
        if (seen.size() != nids) fail("c19.ets.element-not-visited", std::string(how) + " visited " + std::to_string(seen.size()) + " of " + std::to_string(nids) + " elements");
    };
    if constexpr (HasIter<C>::value) {
        if (c.size() != nids) fail("c19.ets.size-mismatch", "size() = " + std::to_string(c.size()) + " but " + std::to_string(nids) + " distinct thread ids obtained an element");
        if (c.empty() != (nids == 0)) fail("c19.ets.size-mismatch", "empty() disagrees with the number of elements");
        { std::unordered_map<Elem*, int> seen; for (auto it = c.begin(); it != c.end(); ++it) visit(seen, &*it, "iteration"); all_seen(seen, "iteration"); }
        if (final_) {
            { std::unordered_map<Elem*, int> seen; const C& cc = c; for (auto it = cc.begin(); it != cc.end(); ++it) visit(seen, const_cast<Elem*>(&*it), "const iteration"); all_seen(seen, "const iteration"); }
            { std::unordered_map<Elem*, int> seen; auto rg = c.range(); for (auto it = rg.begin(); it != rg.end(); ++it) visit(seen, &*it, "range()"); all_seen(seen, "range()"); }
        }
    }
    if (final_ || !HasIter<C>::value) {
        long n = 0, sum = 0; std::unordered_map<uint64_t, int> owners;
        c.combine_each([&](const Elem& e) { n++; sum += e.count; if (++owners[e.owner] > 1) fail("c19.ets.element-visited-twice", "combine_each visits the element of thread id " + hex64(e.owner) + " twice"); if (!sh.known.count(e.owner)) fail("c19.ets.visit-unknown-element", "combine_each visits an element no thread obtained"); });
        if ((size_t)n != nids) fail("c19.ets.element-not-visited", "combine_each visited " + std::to_string(n) + " of " + std::to_string(nids) + " elements");
        if (sum != want_sum) fail("c19.ets.lost-update", "combine_each sums " + std::to_string(sum) + " updates, threads made " + std::to_string(want_sum));
        if (nids > 0) {
            Elem tot = c.combine([](const Elem& a, const Elem& b) { Elem x = a; x.count += b.count; x.serial = -1; return x; });
            if (tot.count != want_sum) fail("c19.ets.lost-update", "combine() sums " + std::to_string(tot.count) + " updates, threads made " + std::to_string(want_sum));
        }
    }
}

template <class C> static C* make_container(EtsScen& s) {
    EtsScen* sp = &s;
    return new C([sp] { sp->inits.fetch_add(1, RLX); tl_inits++; Elem e; e.owner = my_idhash(); e.serial = sp->serials.fetch_add(1, RLX) + 1; return e; });
}

static long g_fresh_budget = 2500;

template <class C> static void run_ets_threads(EtsScen& s, Rng& r, Shadow& sh) {
    std::unique_ptr<C> c(make_container<C>(s));
    for (size_t w = 0; w < s.waves.size(); w++) {
        WaveSpec& ws = s.waves[w];
        int n = (int)ws.pool.size() + ws.nfresh;
        s.recs.emplace_back(new PartRec[n]); s.nparts.push_back(n);
        PartRec* recs = s.recs.back().get();
        for (int i = 0; i < n; i++) {
            PartRec& pr = recs[i];
            pr.L = 1 + (int)r.below((uint64_t)s.maxL); pr.style = (int)r.below(8); unsigned p = (unsigned)r.below(100);
            pr.pre = p < 60 ? 0 : p < 92 ? (int)r.below(1500) : 100000;
            pr.fresh = i >= (int)ws.pool.size();
        }
        Gate bar(n, n <= g_spin_max);
        s.cur_wave = (int)w;
        std::vector<std::thread> fresh;
        C& cr = *c;
        for (int i = (int)ws.pool.size(); i < n; i++) fresh.emplace_back([&s, &cr, recs, i, &bar] { ets_part(s, cr, recs[i], bar); });
        std::unordered_map<int, int> slot_of; for (size_t i = 0; i < ws.pool.size(); i++) slot_of[ws.pool[i]] = (int)i;
        pool_start(ws.pool, [&s, &cr, recs, &bar, &slot_of](int t) { ets_part(s, cr, recs[slot_of.find(t)->second], bar); });
        for (auto& t : fresh) t.join();
        pool_wait();
        std::unordered_map<Elem*, uint64_t> in_wave;
        std::unordered_set<uint64_t> ids_in_wave;
        for (int i = 0; i < n; i++) {
            if (!ids_in_wave.insert(recs[i].id).second) fail("c19.harness.duplicate-live-thread-id", "two threads alive at the same time report the same std::thread::id");
            check_part(s, sh, recs[i], in_wave, "wave");
        }
        quiescent_check(s, *c, sh, w + 1 == s.waves.size());
        // clear() at the quiescent point (it is not concurrency-safe), then the container starts over: every thread of a later wave, also a
        // pool thread that had an element before, is new to it - exists=false, one initialiser call, one fresh element each
        if (w + 1 < s.waves.size() && r.chance(1, 3) && !g_fails.load()) {
            c->clear();
            if constexpr (HasIter<C>::value) if (c->size() != 0 || !c->empty()) fail("c19.ets.size-mismatch", "size() = " + std::to_string(c->size()) + " right after clear()");
            sh.known.clear(); sh.owner_of.clear(); sh.expect.clear(); s.inits.store(0, RLX);
            result().stat("ets_clear_between_waves"); result().stat("ets_pool_threads_that_had_an_element_before_a_clear", (long long)ws.pool.size());
        }
        progress();
    }
    s.cur_wave = -1;
    c.reset();
}

// ---- oneTBB worker threads as the arriving threads
struct WShared { EtsScen* s; PartRec* recs; int cap; };
static thread_local long tl_wscen = 0; static thread_local PartRec* tl_wrec = nullptr; static thread_local Elem* tl_welem = nullptr;
template <class C> static void wbody(EtsScen& s, C& c, PartRec* recs, int cap, int spin) {
    bool ex = true; int i0 = tl_inits;
    bool firsttime = tl_wscen != s.uid;
    int of = 0; if (firsttime) { of = s.in_first.fetch_add(1, RLX); }
    Elem* q = &c.local(ex);
    if (firsttime) {
        s.in_first.fetch_sub(1, RLX);
        int slot = s.nrec.fetch_add(1, RLX);
        static PartRec overflow;
        if (slot >= cap) fail("c19.harness.too-many-threads", "more threads than record slots");
        PartRec& r = slot >= cap ? overflow : recs[slot]; r.id = my_idhash(); r.first = q; r.ex_first = ex; r.init_first = r.init_total = tl_inits - i0; r.first_overlap = of > 0;
        tl_wscen = s.uid; tl_wrec = &r; tl_welem = q;
    } else {
        PartRec& r = *tl_wrec;
        if (q != tl_welem) r.addr_changed = true;
        if (!ex) r.ex_false_later = true;
        r.init_total += tl_inits - i0;
    }
    touch(q, *tl_wrec, spin);
}
template <class C> static void run_ets_workers(EtsScen& s, Rng& r, Shadow& sh) {
    std::unique_ptr<C> c(make_container<C>(s));
    const int cap = 96;
    s.recs.emplace_back(new PartRec[cap]); s.nparts.push_back(0);
    PartRec* recs = s.recs.back().get();
    C& cr = *c;
    int rounds = 1 + (int)r.below(2);
    for (int round = 0; round < rounds; round++) {
        uint32_t mask = 0; for (int i = 0; i < s.ndrv; i++) if (g_arenas[s.drv_arena[i]].conc >= 2) mask |= 1u << s.drv_arena[i];
        g_hot_mask.store(mask, RLX);
        Gate bar(s.ndrv, true);
        std::vector<int> idx; for (int i = 0; i < s.ndrv; i++) idx.push_back(i);
        int spin = (int)r.below(3) * 30;
        s.cur_wave = round;
        pool_start(idx, [&s, &cr, recs, &bar, spin](int t) {
            bar.wait();
            g_arenas[s.drv_arena[t]].a->execute([&] { tbb::parallel_for(0, s.drv_n[t], [&](int) { wbody(s, cr, recs, cap, spin); }, tbb::simple_partitioner()); });
            progress();
        });
        pool_wait();
        g_hot_mask.store(0, RLX);
    }
    s.cur_wave = -1;
    int n = std::min(s.nrec.load(), cap); s.nparts.back() = n;
    std::unordered_map<Elem*, uint64_t> in_wave; std::unordered_set<uint64_t> ids;
    for (int i = 0; i < n; i++) {
        if (!ids.insert(recs[i].id).second) fail("c19.harness.duplicate-live-thread-id", "two live threads report the same std::thread::id");
        check_part(s, sh, recs[i], in_wave, "worker");
    }
    quiescent_check(s, *c, sh, true);
    c.reset();
}

static void gen_ets(EtsScen& s, Rng& r, int maxthreads, bool allow_fresh) {
    s.kind = (int)r.below(K_NKINDS);
    unsigned x = (unsigned)r.below(100);
    int target = x < 45 ? 2 + (int)r.below(7) : x < 72 ? 9 + (int)r.below(25) : x < 92 ? 34 + (int)r.below(37) : 71 + (int)r.below(66);
    target = std::max(2, std::min(target, maxthreads));
    int nw = 1 + (int)r.below(target <= 3 ? 2 : 4);
    bool fresh = allow_fresh && r.chance(1, 4);
    s.maxL = (int)r.pick(std::vector<int>{ 1, 4, 8, 24 });
    if (target > 40) s.maxL = std::min(s.maxL, 8);
    // pool threads 0..target-1 become known to the container in the wave they are assigned to
    bool skew = r.chance(1, 2);
    std::vector<int> share(nw, 0);
    for (int i = 0; i < target; i++) share[i < 2 ? 0 : (skew ? (int)std::min(r.below(nw), r.below(nw)) : (int)r.below(nw))]++;
    int used = 0;
    for (int w = 0; w < nw; w++) {
        WaveSpec ws;
        // old threads re-appear: their key sits in an older array if the table has grown since
        for (int t = 0; t < used; t++) if (r.chance(1, 2)) { ws.pool.push_back(t); ws.nold++; }
        for (int t = 0; t < share[w]; t++) ws.pool.push_back(used + t);
        used += share[w];
        if (fresh) ws.nfresh = 1 + (int)r.below(5);
        if ((int)ws.pool.size() + ws.nfresh < 2) { ws.pool.clear(); ws.nold = 2; ws.pool.push_back(0); ws.pool.push_back(1); }
        s.waves.push_back(ws);
    }
}
static void gen_etsw(EtsScen& s, Rng& r) {
    s.workers = true;
    s.kind = (int)r.below(K_NKINDS);
    s.ndrv = 1 + (int)r.below(3);
    int shared = (int)r.below(g_arenas.size());
    for (int i = 0; i < s.ndrv; i++) { s.drv_arena[i] = r.chance(1, 2) ? shared : (int)r.below(g_arenas.size()); s.drv_n[i] = (int)r.pick(std::vector<int>{ 8, 40, 200, 1000 }) + (int)r.below(8); }
}

// =================================================================================================== main
static std::atomic<OnceScen*> g_once{nullptr};
static std::atomic<EtsScen*> g_ets{nullptr};

int main(int argc, char** argv) {
    Args a = standard_init(argc, argv, "c19");
    Result& R = result();
    long cases = a.num("cases", 2000);
    g_light = (R.variant == "tsan") || a.has("light");
    long fixed_scn = a.num("scn", 0);
    int cpus = (int)a.num("cpus", 0);
    std::string mode = R.mode;
    int maxthreads = (int)a.num("maxthreads", cpus > 0 ? 24 : R.variant == "tsan" ? 48 : R.variant == "asan" ? 72 : 136);
    g_fresh_budget = a.num("fresh", 2500);
    g_spin_max = cpus > 0 ? 4 : 12;
    Rng top(mix(R.seed, 0xC19));
    tbb::global_control gc(tbb::global_control::max_allowed_parallelism, 16);
    if (!g_light) set_point_observer(observer);
    std::vector<int> once_ids = { 190, 191, 192 }, ets_ids = { 193, 194, 195 };

    const int shapes[][2] = { { 1, 1 }, { 2, 1 }, { 3, 1 }, { 4, 1 }, { 6, 1 }, { 8, 1 }, { 2, 0 }, { 4, 0 }, { 8, 0 } };
    for (auto& sh : shapes) { ArenaBox b; b.conc = sh[0]; b.reserved = sh[1]; b.a.reset(new tbb::task_arena(sh[0], (unsigned)sh[1])); b.a->initialize(); g_arenas.push_back(std::move(b)); }
    std::thread(keeper_main).detach();
    ensure_pool(8);
    warm_thread();
    int once_samples = 0, ets_samples = 0;

    WatchdogCfg wcfg;
    if (mode == "oncex") wcfg.hard_limit_s = 1200;      // the spinning winners yield: on a loaded box 10 s of CPU each take long
    watchdog_start(wcfg, [&](const HangInfo& hi) {
        OnceScen* os = g_once.load(); EtsScen* es = g_ets.load();
        std::string d = "no progress for " + std::to_string(hi.stalled_for) + "s; threads: " + hi.threads + "\n" + rings_dump();
        std::string key, scen = "{}";
        if (os) {
            // neither the function nor the callers ever wait for anything but oneTBB; a harness-made delay in progress means "not yet"
            int inside = 0; for (int i = 0; i <= os->ncallers; i++) if (os->callers[i].state.load() == 1) inside++;
            scen = os->describe(true);
            if (inside > 0 && os->in_user_delay.load() == 0) key = os->classX ? "c19.onceX.hang" : "c19.once.hang";
            d = "callers inside collaborative_call_once: " + std::to_string(inside) + ", invocations running: " + std::to_string(os->running.load()) + ", completions: " + std::to_string(os->completions.load()) + "; " + d;
        } else if (es) {
            long in_local = 0;
            for (size_t w = 0; w < es->recs.size(); w++) for (int i = 0; i < es->nparts[w]; i++) in_local += es->recs[w][i].in_local.load();
            scen = es->describe();
            if (in_local > 0) key = "c19.ets.hang";      // local() never waits for another thread beyond a bounded CAS retry
            else if (es->workers && es->cur_wave >= 0) key = "c19.etsw.hang";   // the parallel_for bodies do nothing but local() and a private update
            d = "threads inside local(): " + std::to_string(in_local) + "; " + d;
        }
        if ((!hi.quiescent && !hi.spin_stall) || key.empty()) { R.inconclusive++; fprintf(stderr, "[c19] watchdog: inconclusive stall\n%s\n", d.substr(0, 3000).c_str()); R.finish_and_exit(4); }
        R.violation(key + (hi.quiescent ? ".quiescent" : ".spin-stall"), d.substr(0, 1500), scen);
        R.finish_and_exit(3);
    });

    long uid = 0;
    for (long done = 0; done < cases; done++) {
        uint64_t sseed = fixed_scn ? (uint64_t)fixed_scn : top.next() >> 1;
        Rng r(sseed);
        unsigned pickm = (unsigned)r.below(100);
        std::string cls = mode == "once" || mode == "oncex" || mode == "ets" || mode == "etsw" ? mode : (pickm < 50 ? "once" : pickm < 85 ? "ets" : "etsw");
        uid++;
        ev_reset();
        std::string scen_json; bool nontrivial = false; uint64_t sig = 0;

        if (cls == "once" || cls == "oncex") {
            OnceScen s; s.seed = sseed; s.uid = uid + (long)(R.seed << 20);
            gen_once(s, r, cpus, cls == "oncex");
            s.flag.store(new tbb::collaborative_once_flag);
            int nd = (int)s.drivers.size();
            s.drivers_left.store(nd);
            uint32_t mask = 0; if (s.hot) for (auto& d : s.drivers) if (d.kind != D_DIRECT && g_arenas[d.arena].conc >= 2) mask |= 1u << d.arena;
            g_hot_mask.store(mask, RLX);
            g_once.store(&s);
            perturb_random(top, once_ids);
            Gate bar(nd, nd <= g_spin_max);
            std::vector<int> idx; for (int i = 0; i < nd; i++) idx.push_back(i);
            pool_start(idx, [&s, &bar](int t) { once_driver(s, t, bar); });
            pool_wait();
            g_hot_mask.store(0, RLX);
            bool anyok = false; for (int i = 0; i < s.ncallers; i++) anyok |= s.callers[i].ok;
            bool final_call = false;
            if (!anyok && g_fails.load() == 0) {
                // every caller gave up after catching: the flag must have returned to the not-called state
                if (s.completions.load() != 0) fail("c19.once.completed-but-nobody-returned", "an invocation completed but no caller returned normally");
                final_call = true;
                once_caller(s, s.callers[s.ncallers]);
                if (!s.callers[s.ncallers].ok) fail("c19.once.flag-not-retriable", "after all callers gave up, a later call did not run the function to completion");
            }
            perturb().clear();
            if (tbb::collaborative_once_flag* f = s.flag.exchange(nullptr)) delete f;
            // ---- accounting
            int A = s.attempts.load(), nthrew = 0, comp = s.completions.load();
            int caught_cnt[MAXA] = {}; int caught_by[MAXA]; for (auto& c : caught_by) c = -1;
            int total_caught = 0, gave_up = 0, helper_refs = 0, assists = 0, overl = 0, nested_helpers = 0;
            for (int i = 0; i <= s.ncallers; i++) {
                CallerRec& c = s.callers[i];
                for (int k = 0; k < c.ncaught && k < MAXA; k++) { int at = c.caught[k]; total_caught++; if (at < 0 || at >= MAXA) { fail("c19.once.exception-unknown", "caught an exception with attempt number " + std::to_string(at)); continue; } caught_cnt[at]++; caught_by[at] = i; }
                if (c.tries > 0 && !c.ok) { gave_up++; if (c.ncaught <= c.retries && c.ncaught <= 12) fail("c19.once.caller-neither-returned-nor-caught", "caller " + std::to_string(i) + " stopped without a normal return or an exception"); }
                helper_refs += c.helper_refs; assists += c.assists; overl += c.overlapped; nested_helpers += c.ran_nested;
            }
            for (int at = 0; at < std::min(A, MAXA); at++) {
                bool threw = s.attempt_threw[at].load() != 0; nthrew += threw;
                if (threw && caught_cnt[at] == 0) fail("c19.once.exception-lost", "attempt " + std::to_string(at) + " threw but no caller caught its exception");
                if (threw && caught_cnt[at] > 1) fail("c19.once.exception-delivered-twice", "the exception of attempt " + std::to_string(at) + " reached " + std::to_string(caught_cnt[at]) + " callers");
                if (!threw && caught_cnt[at] > 0) fail("c19.once.exception-unknown", "a caller caught an exception for attempt " + std::to_string(at) + " which did not throw");
                if (threw && caught_cnt[at] == 1 && caught_by[at] != s.attempt_runner[at].load()) fail("c19.once.exception-to-wrong-caller", "attempt " + std::to_string(at) + " was run through the call of caller " + std::to_string(s.attempt_runner[at].load()) + " but caller " + std::to_string(caught_by[at]) + " caught its exception");
            }
            for (int at = A; at < MAXA; at++) if (caught_cnt[at]) fail("c19.once.exception-unknown", "a caller caught an exception for attempt " + std::to_string(at) + " which never ran");
            if (A <= MAXA && A != nthrew + comp) fail("c19.once.attempt-accounting", "attempts " + std::to_string(A) + " != throws " + std::to_string(nthrew) + " + completions " + std::to_string(comp));
            int firstok = 0; while (firstok < 4 && (s.throw_mask >> firstok & 1)) firstok++;
            if (comp == 1 && A != firstok + 1) fail("c19.once.attempt-accounting", "the function completed but ran " + std::to_string(A) + " times; the throw plan needs exactly " + std::to_string(firstok + 1));
            if ((anyok || final_call) && comp != 1 && g_fails.load() == 0) fail("c19.once.returned-before-completion", "a caller returned normally but completions = " + std::to_string(comp));
            R.scenarios++;
            R.stat(s.classX ? "onceX_scenarios" : "once_scenarios"); R.stat(std::string("once_placement_") + (s.placement == PL_ANY ? "any_nothrow" : s.placement == PL_ALL_DIRECT ? "all_direct" : s.placement == PL_SAME_ARENA ? "same_arena" : "spread_classX")); R.stat("once_callers", s.ncallers); R.stat("once_attempts", A); R.stat("once_throws", nthrew); R.stat("once_exceptions_caught", total_caught);
            R.stat("once_retry_rounds_after_throw", std::max(0, A - 1)); R.stat("once_callers_gave_up", gave_up); R.stat("once_helper_refs_on_running_runner", helper_refs);
            R.stat("once_assists", assists); R.stat("once_callers_overlapping", overl); R.stat("once_helper_callers_ran_nested_work", nested_helpers);
            R.stat("once_nested_bodies_on_helper_callers", s.helper_bodies.load()); R.stat("once_nested_bodies_on_plain_workers", s.worker_bodies.load());
            if (final_call) R.stat("once_flags_all_gave_up_then_called_by_main");
            if (s.deleted_by_last.load()) R.stat("once_flags_deleted_by_last_caller");
            for (auto& d : s.drivers) R.stat(std::string("once_callers_") + dkind_name[d.kind], d.k);
            if (s.nested_n) R.stat("once_scenarios_nested_parallel_for");
            for (int i = 0; i < s.ncallers; i++) if (s.callers[i].repeat_done) R.stat("once_repeat_calls_after_done");
            nontrivial = overl > 0;
            sig = mix(ev_signature(), mix(s.ncallers, s.throw_mask));
            for (int i = 0; i < s.ncallers; i++) { CallerRec& c = s.callers[i]; sig = mix(sig, mix(mix(c.ran_mask, (uint64_t)c.ncaught * 64 + c.tries), mix(c.helper_refs * 16 + c.assists, (uint64_t)c.ret_order * 2 + c.ok))); }
            if (nontrivial && helper_refs > 0) R.stat("once_scenarios_with_helper_on_running_runner");
            scen_json = s.describe(true);
            g_once.store(nullptr);
            if (!g_fails.load() && nontrivial && assists > 0 && once_samples < 3 && R.want_sample() && (nthrew > 0 || done > 200)) { once_samples++; R.sample(scen_json); }
        } else {
            EtsScen s; s.seed = sseed; s.uid = uid + (long)(R.seed << 20);
            Shadow sh;
            if (cls == "etsw") gen_etsw(s, r); else gen_ets(s, r, maxthreads, g_fresh_budget > 0);
            g_ets.store(&s);
            perturb_random(top, ets_ids);
            if (s.workers) {
                switch (s.kind) { case K_NOKEY: run_ets_workers<EtsNoKey>(s, r, sh); break; case K_TLS: run_ets_workers<EtsTls>(s, r, sh); break; case K_DEFAULT: run_ets_workers<EtsDef>(s, r, sh); break; default: run_ets_workers<Comb>(s, r, sh); }
            } else {
                for (auto& w : s.waves) g_fresh_budget -= w.nfresh;
                switch (s.kind) { case K_NOKEY: run_ets_threads<EtsNoKey>(s, r, sh); break; case K_TLS: run_ets_threads<EtsTls>(s, r, sh); break; case K_DEFAULT: run_ets_threads<EtsDef>(s, r, sh); break; default: run_ets_threads<Comb>(s, r, sh); }
            }
            perturb().clear();
            g_ets.store(nullptr);
            R.scenarios++;
            long nfresh = 0; for (auto& w : s.waves) nfresh += w.nfresh;
            R.stat(s.workers ? "etsw_scenarios" : "ets_scenarios"); R.stat(std::string("ets_kind_") + (s.kind == K_NOKEY ? "no_key" : s.kind == K_TLS ? "key_per_instance" : s.kind == K_DEFAULT ? "default" : "combinable"));
            R.stat("ets_thread_participations", sh.total_parts); R.stat("ets_distinct_ids", (long long)sh.known.size()); R.stat("ets_fresh_threads", nfresh);
            R.stat("ets_recycled_ids_inheriting_element", sh.reused_ids); R.stat("ets_first_accesses_overlapping", sh.first_overlaps);
            R.stat_max("max_ets_ids_in_one_container", (long long)sh.known.size());
            int maxlg = 0, raced = 0, casn = 0;
            if (!g_light) {
                for (int lg = 0; lg < 40; lg++) { int c = (int)g_cas_lg[lg].load(); if (c) { maxlg = lg; casn += c; R.stat("ets_root_cas_attempts_lg" + std::to_string(lg), c); if (c > 1) raced += c - 1; } }
                R.stat("ets_root_cas_attempts", casn); R.stat("ets_root_cas_raced_same_size", raced); R.stat("ets_found_in_older_array", g_hk[5].load()); R.stat("ets_slot_claims", g_hk[4].load());
                R.stat_max("max_ets_table_lg_size", maxlg);
                if (raced) R.stat("ets_scenarios_with_raced_growth");
            }
            nontrivial = sh.first_overlaps > 0;
            sig = mix(mix(ev_signature(), s.kind), mix(sh.total_parts, sh.known.size()));
            for (size_t w = 0; w < s.recs.size(); w++) { int ov = 0; for (int i = 0; i < s.nparts[w]; i++) ov += s.recs[w][i].first_overlap; sig = mix(sig, mix(s.nparts[w], ov)); }
            scen_json = s.describe();
            if (!g_fails.load() && nontrivial && ets_samples < 3 && R.want_sample() && (raced > 0 || g_light || done > 200)) {
                ets_samples++;
                Json j; j.obj(); j.key("scenario").raw(scen_json); j.kv("distinct_thread_ids", (long long)sh.known.size()); j.kv("participations", sh.total_parts); j.kv("first_accesses_overlapping", sh.first_overlaps);
                j.kv("recycled_ids", sh.reused_ids); j.kv("root_cas_attempts", casn); j.kv("root_cas_raced_same_size", raced); j.kv("table_lg_size_reached", maxlg); j.kv("found_in_older_array", (long long)g_hk[5].load()); j.end_obj();
                R.sample(j.s);
            }
        }
        if (nontrivial) { R.nontrivial++; R.signature(sig); }
        if (g_fails.load()) {
            R.violation(g_fail_key, g_fail_detail.substr(0, 1400) + " (" + std::to_string(g_fails.load()) + " failed checks in this scenario)", scen_json);
            g_fails.store(0);
            if (R.violations_total <= 5) R.write();
            if (R.violations_total >= 25) break;          // a broken protocol fails everywhere: enough witnesses
        }
        progress();
    }
    watchdog_stop();
    R.stat("hook_delays", (long long)perturb().delays.load());
    R.stat("keeper_tasks", g_k_ran.load());
#if VRT_ASAN
    // the process leaves through _exit (threads are alive), so the leak check is run by hand: containers, flags and table arrays
    // of every finished scenario must have been released
    if (__lsan_do_recoverable_leak_check()) R.stat("lsan_leak_reports");
#endif
    R.finish_and_exit(0);      // pool threads, keeper, arenas and workers are still alive: leave without static destructors
}
