// C14 harness, part 1: message type, probes (per-body monitors), scenario state, body functors, helper thread pools.
#pragma once
#include "vrt_tbb.h"
#include <oneapi/tbb/flow_graph.h>
#include <oneapi/tbb/task_arena.h>
#include <oneapi/tbb/global_control.h>
#include <memory>
#include <tuple>
#include <deque>

using namespace vrt;
namespace fl = tbb::flow;
static constexpr auto RLX = std::memory_order_relaxed;

static std::atomic<uint64_t> g_seq{1};
static bool g_light = false;                 // tsan: no global stamps (they would add happens-before edges)
static inline uint64_t stamp() { return g_light ? 0 : g_seq.fetch_add(1, RLX); }
template <class T> static inline void atomic_max(std::atomic<T>& a, T v) { T c = a.load(RLX); while (v > c && !a.compare_exchange_weak(c, v, RLX)) {} }

// one message type for every edge
struct Msg { int id = -1; int seq = 0; short src = 0 /*0 external put, 1 input_node, 2 emitted by a continue_node*/; short rnd = 0; unsigned chk = 0; };
struct MsgLess { bool operator()(const Msg& a, const Msg& b) const { return a.id < b.id; } };
struct KeyOf { int operator()(const Msg& m) const { return m.id; } };
struct SeqOf { size_t operator()(const Msg& m) const { return (size_t)m.seq; } };
typedef std::tuple<Msg, Msg> Pair;
typedef fl::async_node<Msg, Msg> async_t;
struct Boom { int at; };

// ---- process-wide evidence counters
struct Glob {
    std::atomic<long long> bodies{0}, msgs{0}, puts_while_running{0}, limit_reached{0}, limited_nodes{0}, waits_checked{0}, early_waits{0}, rounds{0}, lossy_drops{0},
        async_done{0}, ext_accepted{0}, ext_rejected{0}, cancels_fired{0}, throws_fired{0}, resets{0}, drained{0}, scen_overlap{0}, inline_bodies{0},
        lossy_dropped{0}, l3_direct_accepted{0};
    std::atomic<long long> max_live{0}, max_threads{0};
    std::atomic<long long> kind[32];
} G;

struct Scen;
// A probe monitors one body (or one logical stream inside a body): per-id invocation counts, live counter, plain serial state.
struct Probe {
    std::string name; int limit = 0;                 // 0 = unlimited
    int group = -1;                                  // probes of one group share the expectation (sum of their counts is compared)
    bool counts_live = true;
    bool lossy = false;                              // the expectation is an upper bound only (a non-buffering sender drops what this node rejects)
    std::unique_ptr<std::atomic<uint32_t>[]> cnt;    // per message id
    std::vector<uint32_t> exp;                       // cumulative expected invocations per id (upper bound for group members)
    std::atomic<int> live{0}, maxlive{0};
    std::atomic<long> inv{0};
    long plain_pos = 0; std::unique_ptr<int[]> order; int cap = 0;   // plain state of a serial body (TSan watches it)
    int dpat = 0; unsigned diters = 0; uint64_t dseed = 0;
};

struct NodeRec {
    int kind = 0, idx = 0, nin = 1, nout = 1;
    fl::receiver<Msg>* in[2] = { nullptr, nullptr };
    fl::sender<Msg>* out[2] = { nullptr, nullptr };
    bool single_out[2] = { false, false };           // this port hands each message to exactly one successor
    std::vector<std::pair<int, int>> succ[2];        // (node, input port)
    int npred[2] = { 0, 0 };
    std::vector<std::shared_ptr<fl::graph_node>> parts;
    std::vector<std::unique_ptr<Probe>> probes;
    int limit = 0, policy = 0, variant = 0, front = 0, k = 0, th = 0;
    fl::sender<Msg>* drain = nullptr;                // terminal buffer: content is checked at the end
    fl::input_node<Msg>* input = nullptr;
    // source state (input_node)
    std::vector<int> src_ids; std::atomic<int> src_cur{0};
    // continue_node state
    std::atomic<long> emit_ctr{0}; long fires_total = 0;
    std::string desc;
    ~NodeRec() { while (!parts.empty()) parts.pop_back(); }
};

// ---------------------------------------------------------------------------------------------- helper threads (live for the whole process)
// Completes async_node work from foreign threads after a short random delay.
struct Foreign {
    struct Job { async_t::gateway_type* gw; Msg m; unsigned delay; Scen* s; };
    std::mutex m; std::condition_variable cv; std::deque<Job> q; std::atomic<int> busy{0};
    std::vector<std::thread> th;
    void start(int n);
    void push(const Job& j) { { std::lock_guard<std::mutex> l(m); q.push_back(j); } cv.notify_one(); }
    bool idle() { std::lock_guard<std::mutex> l(m); return q.empty() && busy.load() == 0; }
};
static Foreign& foreign() { static Foreign* f = new Foreign; return *f; }

// External putter threads.
struct Putters {
    std::mutex m; std::condition_variable cv, cv_done; long gen = 0; int want = 0, done = 0; std::function<void(int)> job;
    std::vector<std::thread> th;
    void start(int n) {
        for (int i = 0; i < n; i++) th.emplace_back([this, i] {
            long seen = 0;
            for (;;) {
                std::function<void(int)> j;
                { std::unique_lock<std::mutex> l(m); cv.wait(l, [&] { return gen != seen; }); seen = gen; if (i >= want) continue; j = job; }
                j(i);
                { std::lock_guard<std::mutex> l(m); done++; }
                cv_done.notify_all();
            }
        });
    }
    void launch(int n, std::function<void(int)> j) { { std::lock_guard<std::mutex> l(m); job = std::move(j); want = n; done = 0; gen++; } cv.notify_all(); }
    void wait() { std::unique_lock<std::mutex> l(m); cv_done.wait(l, [&] { return done >= want; }); }
};
static Putters& putters() { static Putters* p = new Putters; return *p; }

// Keeps the current arena hot; can be pointed at another arena or parked. Blocks (no polling) while parked or while the watchdog decides.
struct HotKeeper {
    std::mutex m; std::condition_variable cv; tbb::task_arena* target = nullptr;
    std::atomic<long> enq{0}, ran{0};
    std::thread th;
    void start() {
        th = std::thread([this] {
            for (;;) {
                suspend_gate();
                tbb::task_arena* a;
                { std::unique_lock<std::mutex> l(m); cv.wait(l, [&] { return target != nullptr; }); a = target;
                  if (enq.load(RLX) - ran.load(RLX) < 256)
                      for (int i = 0; i < 4; i++) { enq.fetch_add(1, RLX); a->enqueue([this] { spin_iters(300); ran.fetch_add(1, std::memory_order_release); }); } }
                sleep_us(40);
            }
        });
    }
    void set(tbb::task_arena* a) { { std::lock_guard<std::mutex> l(m); target = a; } cv.notify_all(); }
};
static HotKeeper& keeper() { static HotKeeper* k = new HotKeeper; return *k; }

// ---------------------------------------------------------------------------------------------- scenario
enum { MODE_G = 0, MODE_L = 1, MODE_C = 2 };
struct Scen {
    uint64_t seed = 0; int mode = MODE_G, lossy_kind = 0; int conc = 0; tbb::task_arena* arena = nullptr;
    int M = 0, NN = 0, rounds = 1, nput = 1; bool early_wait = false; unsigned inside_mask = 0; bool ne = true;
    std::unique_ptr<fl::graph> g;
    std::vector<std::unique_ptr<NodeRec>> nodes;
    std::unique_ptr<long[]> payload;                 // plain, written by the putter just before try_put, read by every body
    std::vector<Msg> table;                          // message per id for the current round
    std::vector<std::pair<int, int>> ext_target;     // per id: (node, port) it is put to from outside, or (-1,-1)
    std::vector<signed char> ret;                    // lossy mode: result of the external try_put per id
    unsigned salt = 0; int round = 0; long seq_base = 0;
    // triggers (mode C)
    long trigger_at = -1; bool trigger_throw = false; std::atomic<bool> fired{false};
    // run-time state
    std::atomic<int> live_total{0}, max_total{0}, async_inflight{0};
    std::atomic<long> inv_total{0}, async_submitted{0}, async_completed{0}, puts_running{0};
    std::atomic<uint64_t> tmask{0}, last_entry{0};
    std::atomic<bool> quiet{false};
    std::atomic<int> fails{0}; std::string fail_first; std::mutex fm;
    bool poisoned = false;

    unsigned chk(int id) const { return (unsigned)mix(salt, (uint64_t)id + 77); }
    long pv(int id, int rnd) const { return (long)mix(seed ^ 0x5151, (uint64_t)id * 16 + rnd); }
    std::string describe() const;
    void fail(const std::string& key, const std::string& what);
    inline bool enter(Probe& p, const Msg& m, bool count_inv = true);
    inline void leave(Probe& p);
    void delay(Probe& p, int id);
};

void Scen::fail(const std::string& key, const std::string& what) {
    int n = fails.fetch_add(1);
    if (n == 0) { std::lock_guard<std::mutex> l(fm); fail_first = key + "|" + what; }
    // a broken graph may re-run bodies for ever (that is "progress" for the watchdog): give the verdict from inside
    if (n == 5000) {
        std::string f; { std::lock_guard<std::mutex> l(fm); f = fail_first; }
        result().violation(f.substr(0, f.find('|')), f.substr(f.find('|') + 1) + " (and 5000 more failed checks in the same graph; last: " + key + ": " + what + ")", describe());
        result().finish_and_exit(3);
    }
}

void Scen::delay(Probe& p, int id) {
    if (!p.dpat) return;
    uint64_t h = mix(p.dseed, (uint64_t)(id + 8) * 4 + round);
    switch (p.dpat) {
    case 1: if (h % 8 == 0) spin_iters((unsigned)((h >> 20) % (p.diters + 1))); break;
    case 2: spin_iters(p.diters / 2 + (unsigned)((h >> 20) % (p.diters / 2 + 1))); break;
    case 3: if (h % 4 == 0) sched_yield(); break;
    default: if (h % 32 == 0) sleep_us(20 + (unsigned)((h >> 20) % 80)); else if (h % 8 == 0) spin_iters(500); break;
    }
}

// returns true when this invocation has to throw (mode C)
inline bool Scen::enter(Probe& p, const Msg& m, bool count_inv) {
    long my = inv_total.fetch_add(1, RLX);
    p.inv.fetch_add(1, RLX);
    if (quiet.load(RLX)) fail("c14.idle.body-started-after-return", "body of " + p.name + " started (message " + std::to_string(m.id) + ") after wait_for_all had returned and before anything new was put into the graph");
    if (p.counts_live) {
        int l = p.live.fetch_add(1, RLX) + 1;
        if (p.limit && l > p.limit) fail("c14.limit.concurrency-exceeded", p.name + " (concurrency limit " + std::to_string(p.limit) + ") had " + std::to_string(l) + " body invocations running at once (message " + std::to_string(m.id) + ")");
        if (l > p.maxlive.load(RLX)) atomic_max(p.maxlive, l);
        int t = live_total.fetch_add(1, RLX) + 1;
        if (t > max_total.load(RLX)) atomic_max(max_total, t);
    }
    uint64_t st = stamp(); if (st) atomic_max(last_entry, st);
    uint64_t bit = 1ull << (thread_ordinal() & 63);
    if (!(tmask.load(RLX) & bit)) tmask.fetch_or(bit, RLX);
    bool ok = m.id >= 0 && m.id < M && m.chk == chk(m.id);
    if (!ok) fail("c14.conserve.phantom-message", p.name + " was handed a message that was never put into the graph (id " + std::to_string(m.id) + ", checksum " + (m.id >= 0 && m.id < M && m.chk == chk(m.id) ? "ok" : "bad") + ")");
    else {
        if (m.src != 2 && payload[m.id] != pv(m.id, m.rnd)) fail("c14.conserve.payload-not-visible", p.name + ": the payload word written by the sender of message " + std::to_string(m.id) + " before its try_put is not visible in the body");
        uint32_t c = p.cnt[m.id].fetch_add(1, RLX) + 1;
        if (c > p.exp[m.id]) fail(mode == MODE_L ? "c14.reject.processed-more-often-than-accepted" : "c14.conserve.message-duplicated", p.name + " processed message " + std::to_string(m.id) + " " + std::to_string(c) + " times, the wiring allows " + std::to_string(p.exp[m.id]));
    }
    if (p.limit == 1 && p.counts_live) { long pos = p.plain_pos; if (pos < p.cap) p.order[pos] = m.id; p.plain_pos = pos + 1; }
    delay(p, m.id);
    (void)count_inv;
    if (my == trigger_at) {
        fired.store(true, RLX);
        if (trigger_throw) return true;
        G.cancels_fired.fetch_add(1, RLX);
        g->cancel();
    }
    return false;
}
inline void Scen::leave(Probe& p) {
    if (p.counts_live) { live_total.fetch_sub(1, RLX); p.live.fetch_sub(1, RLX); }
    progress();
}

struct Scope {
    Scen& s; Probe& p; bool boom;
    Scope(Scen& s_, Probe& p_, const Msg& m) : s(s_), p(p_) { boom = s.enter(p, m); }
    ~Scope() { s.leave(p); }
    void maybe_throw() { if (boom) { G.throws_fired.fetch_add(1, RLX); throw Boom{ 1 }; } }
};

// ---- body functors (NE = noexcept: needed for the lightweight policy to take effect)
template <bool NE> struct FnBody {
    Scen* s; Probe* p;
    Msg operator()(const Msg& m) const noexcept(NE) { Scope sc(*s, *p, m); if (!NE) sc.maybe_throw(); return m; }
};
template <bool NE> struct ToContBody {           // Msg -> continue_msg (decrement adapter, continue adapter)
    Scen* s; Probe* p;
    fl::continue_msg operator()(const Msg& m) const noexcept(NE) { Scope sc(*s, *p, m); if (!NE) sc.maybe_throw(); return fl::continue_msg(); }
};
template <bool NE> struct DupBody {              // Msg -> (Msg, Msg) in front of a split_node
    Scen* s; Probe* p;
    Pair operator()(const Msg& m) const noexcept(NE) { Scope sc(*s, *p, m); if (!NE) sc.maybe_throw(); return Pair(m, m); }
};
template <bool NE> struct PairBody {             // adapter behind a join_node: logs both elements, forwards the first
    Scen* s; Probe* pa; Probe* pb; bool keyed;
    Msg operator()(const Pair& t) const noexcept(NE) {
        const Msg& a = std::get<0>(t); const Msg& b = std::get<1>(t);
        Scope sc(*s, *pa, a);
        bool okb = b.id >= 0 && b.id < s->M && b.chk == s->chk(b.id);
        if (!okb) s->fail("c14.conserve.phantom-message", pb->name + ": second tuple element is not a message of this graph (id " + std::to_string(b.id) + ")");
        else {
            uint32_t c = pb->cnt[b.id].fetch_add(1, RLX) + 1;
            if (c > pb->exp[b.id]) s->fail("c14.conserve.message-duplicated", pb->name + " saw message " + std::to_string(b.id) + " in " + std::to_string(c) + " tuples, the wiring allows " + std::to_string(pb->exp[b.id]));
            if (keyed && a.id != b.id) s->fail("c14.join.tuple-key-mismatch", pa->name + ": key_matching join produced a tuple with keys " + std::to_string(a.id) + " and " + std::to_string(b.id));
        }
        if (!NE) sc.maybe_throw();
        return a;
    }
};
typedef fl::indexer_node<Msg, Msg> idx_node_t;
template <bool NE> struct TagBody {              // adapter behind an indexer_node
    Scen* s; Probe* p0; Probe* p1;
    Msg operator()(const idx_node_t::output_type& t) const noexcept(NE) {
        bool first = t.tag() == 0;
        const Msg& m = fl::cast_to<Msg>(t);
        Scope sc(*s, first ? *p0 : *p1, m); if (!NE) sc.maybe_throw(); return m;
    }
};
typedef fl::multifunction_node<Msg, Pair> mf_q_t;
static inline int route(int id) { return id % 3; }      // 0: both ports, 1: port 0, 2: port 1
template <bool NE> struct MfBody {
    Scen* s; Probe* p; bool has0, has1;
    template <class Ports> void operator()(const Msg& m, Ports& ports) const noexcept(NE) {
        Scope sc(*s, *p, m);
        int r = route(m.id);
        if (r != 2) { bool ok = std::get<0>(ports).try_put(m); if (!ok && has0) s->fail("c14.accept.refused-by-accepting-node", p->name + ": output port 0 try_put returned false although every successor is queueing/buffering"); }
        if (r != 1) { bool ok = std::get<1>(ports).try_put(m); if (!ok && has1) s->fail("c14.accept.refused-by-accepting-node", p->name + ": output port 1 try_put returned false although every successor is queueing/buffering"); }
        if (!NE) sc.maybe_throw();
    }
};
template <bool NE> struct AsyncBody {
    Scen* s; Probe* p;
    void operator()(const Msg& m, async_t::gateway_type& gw) const noexcept(NE) {
        Scope sc(*s, *p, m);
        gw.reserve_wait();
        s->async_inflight.fetch_add(1, RLX); s->async_submitted.fetch_add(1, RLX);
        uint64_t h = mix(p->dseed, (uint64_t)m.id * 8 + 3);
        foreign().push(Foreign::Job{ &gw, m, (unsigned)(h % 4 == 0 ? 30 + (h >> 16) % 250 : (h >> 16) % 40), s });
        if (!NE) sc.maybe_throw();
    }
};
struct ContBody {                                // continue_node<Msg>: emits message (k mod M) on its k-th invocation
    Scen* s; Probe* p; NodeRec* n;
    Msg operator()(const fl::continue_msg&) const noexcept {
        long k = n->emit_ctr.fetch_add(1, RLX);
        Msg m; m.id = (int)(k % s->M); m.src = 2; m.rnd = (short)s->round; m.chk = s->chk(m.id);
        Scope sc(*s, *p, m);
        return m;
    }
};
struct InputBody {                               // input_node<Msg>
    Scen* s; Probe* p; NodeRec* n;
    Msg operator()(tbb::flow_control& fc) const {
        int k = n->src_cur.load(RLX);
        if (k >= (int)n->src_ids.size()) { fc.stop(); return Msg(); }     // (a successor that pulls again makes input_node call the body again: legal)
        n->src_cur.store(k + 1, RLX);
        int id = n->src_ids[k];
        s->payload[id] = s->pv(id, 0);
        Msg m = s->table[id];
        Scope sc(*s, *p, m);
        return m;
    }
};

void Foreign::start(int n) {
    for (int i = 0; i < n; i++) th.emplace_back([this] {
        for (;;) {
            Job j;
            { std::unique_lock<std::mutex> l(m); cv.wait(l, [&] { return !q.empty(); }); j = q.front(); q.pop_front(); busy.fetch_add(1); }
            if (j.delay > 60) sleep_us(j.delay - 40); else spin_iters(j.delay * 40);
            j.gw->try_put(j.m);
            j.s->async_completed.fetch_add(1, RLX);
            j.s->async_inflight.fetch_sub(1, RLX);      // before release_wait: the counter is a lower bound of the reservations really held
            j.gw->release_wait();
            G.async_done.fetch_add(1, RLX);
            busy.fetch_sub(1);
            progress();
        }
    });
}
