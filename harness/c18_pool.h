// C18 class P: memory pools (rml::pool_* with every policy, tbb::memory_pool<Alloc>, tbb::fixed_pool,
// tbb::memory_pool_allocator) on instrumented raw-memory callbacks: a log of the regions each pool holds, refusal of the
// k-th callback for every k, and - separately - refusal of the k-th OS mapping call (pool bookkeeping lives in the
// default allocator). Single-threaded deterministic traces with several pools alive at once; enumeration as in class E.
#pragma once
#include "c18_common.h"
#include <stdexcept>
#include <memory>

namespace c18 {

struct A64 { char c[64]; };

struct PoolLog {
    int slot = 0; int variant = 0;
    bool fixed = false, keep_all = false, cxx = false; size_t granularity = 0;
    SpinLock mu; std::map<uintptr_t, size_t> live;      // regions the pool currently holds
    std::atomic<long> alloc_calls{0}, alloc_ok{0}, free_calls{0};
    char* fixed_buf = nullptr; size_t fixed_size = 0;
    std::atomic<bool> teardown{false};                  // pool_reset / pool_destroy running: all its blocks are dead by contract
    rml::MemoryPool* pool = nullptr; void* cxx_obj = nullptr;
    bool alive = false;
    bool inside(uintptr_t lo, uintptr_t hi) {
        if (fixed) return lo >= (uintptr_t)fixed_buf && hi <= (uintptr_t)fixed_buf + fixed_size;
        mu.lock(); bool ok = false; auto it = live.upper_bound(lo); if (it != live.begin()) { --it; ok = hi <= it->first + it->second; } mu.unlock(); return ok;
    }
    size_t regions() { mu.lock(); size_t n = live.size(); mu.unlock(); return n; }
};
using PoolBlockLiveFn = bool (*)(PoolLog* L, uintptr_t lo, uintptr_t hi, std::string* what);
inline PoolBlockLiveFn g_pool_block_live = nullptr;     // does the harness still own a block of pool L inside [lo,hi)?

inline void* raw_get(PoolLog* L, size_t& bytes) {
    long c = L->alloc_calls.fetch_add(1) + 1;
    if (L->fixed && L->alloc_ok.load() > 0) problem("fixed-pool-raw-allocator-called-twice", "the raw allocator of fixed pool " + std::to_string(L->slot) + " was called again (call " + std::to_string(c) + ", request " + std::to_string(bytes) + " bytes) after it had handed out the pool's buffer");
    if (g_raw_inj.on_call(g_threads_inside.load(std::memory_order_relaxed) - 1)) return nullptr;
    if (L->fixed) { if (L->alloc_ok.load() > 0) return nullptr; bytes = L->fixed_size; L->alloc_ok.fetch_add(1); return L->fixed_buf; }
    if (L->granularity && bytes % L->granularity) problem("raw-request-not-multiple-of-granularity", "pool " + std::to_string(L->slot) + " asked its raw allocator for " + std::to_string(bytes) + " bytes, granularity " + std::to_string(L->granularity));
    void* p = os_map(bytes);
    if (!p) return nullptr;
    L->mu.lock(); L->live[(uintptr_t)p] = bytes; L->mu.unlock();
    L->alloc_ok.fetch_add(1);
    return p;
}
inline int raw_put(PoolLog* L, void* p, size_t bytes) {
    L->free_calls.fetch_add(1);
    if (L->fixed) { problem("fixed-pool-returned-memory", "fixed pool " + std::to_string(L->slot) + " called a raw free function"); return 1; }
    L->mu.lock();
    auto it = L->live.find((uintptr_t)p);
    bool known = it != L->live.end(); size_t sz = known ? it->second : 0;
    if (known) L->live.erase(it);
    L->mu.unlock();
    if (!known) { problem("region-returned-twice-or-unknown", "pool " + std::to_string(L->slot) + " returned " + hexs((uintptr_t)p) + "+" + std::to_string(bytes) + " which it does not hold (returned twice, or never obtained from this pool's raw allocator)"); return 1; }
    if (sz != bytes) problem("region-returned-with-wrong-size", "pool " + std::to_string(L->slot) + " returned region " + hexs((uintptr_t)p) + " as " + std::to_string(bytes) + " bytes, it was obtained as " + std::to_string(sz));
    std::string what;
    if (!L->teardown.load() && g_pool_block_live && g_pool_block_live(L, (uintptr_t)p, (uintptr_t)p + sz, &what))
        problem("region-returned-while-block-live", "pool " + std::to_string(L->slot) + " returned region " + hexs((uintptr_t)p) + "+" + std::to_string(sz) + " while " + what + " inside it was never freed");
    os_unmap(p, sz);
    return 0;
}
inline void* rml_raw_alloc(intptr_t id, size_t& bytes) { return raw_get((PoolLog*)id, bytes); }
inline int rml_raw_free(intptr_t id, void* p, size_t bytes) { return raw_put((PoolLog*)id, p, bytes); }

template <class T> struct RawAllocator {               // underlying allocator of tbb::memory_pool
    using value_type = T;
    PoolLog* log = nullptr;
    RawAllocator() = default;
    explicit RawAllocator(PoolLog* l) : log(l) {}
    template <class U> RawAllocator(const RawAllocator<U>& o) : log(o.log) {}
    T* allocate(size_t n) { size_t bytes = n * sizeof(T); void* p = raw_get(log, bytes); if (!p) throw std::bad_alloc(); return (T*)p; }
    void deallocate(T* p, size_t n) { raw_put(log, p, n * sizeof(T)); }
};
template <class Alloc> struct OpenPool : tbb::memory_pool<Alloc> { explicit OpenPool(const Alloc& a) : tbb::memory_pool<Alloc>(a) {} rml::MemoryPool* raw() { return this->my_pool; } };
struct OpenFixedPool : tbb::fixed_pool { OpenFixedPool(void* b, size_t n) : tbb::fixed_pool(b, n) {} rml::MemoryPool* raw() { return this->my_pool; } };

enum PoolVariant { PV_RML, PV_RML_GRAN, PV_RML_KEEP, PV_RML_FIXED, PV_CXX_CHAR, PV_CXX_A64, PV_CXX_FIXED, PV_VARIANTS };
static const char* const variant_names[] = { "rml", "rml+granularity", "rml+keepAllMemory", "rml fixed", "memory_pool<char>", "memory_pool<64-byte unit>", "fixed_pool" };

// Creates the pool of a slot. Returns "" on success, "refused" when creation reported failure properly, else a problem text.
inline std::string pool_create(PoolLog& L, int variant, size_t param, const char** problem_key) {
    L.variant = variant; L.fixed = variant == PV_RML_FIXED || variant == PV_CXX_FIXED; L.keep_all = variant == PV_RML_KEEP; L.cxx = variant >= PV_CXX_CHAR;
    L.granularity = variant == PV_RML_GRAN ? param : variant == PV_CXX_A64 ? 64 : 0;
    L.alloc_calls.store(0); L.alloc_ok.store(0); L.free_calls.store(0); L.teardown.store(false); L.pool = nullptr; L.cxx_obj = nullptr; L.alive = false;
    if (L.fixed) { L.fixed_size = param; L.fixed_buf = (char*)os_map(param); if (!L.fixed_buf) return "refused"; }
    *problem_key = nullptr;
    InCall ic;
    if (!L.cxx) {
        rml::MemPoolPolicy pol(rml_raw_alloc, L.fixed ? nullptr : rml_raw_free, L.granularity, L.fixed, L.keep_all);
        rml::MemoryPool* p = (rml::MemoryPool*)0x77;
        rml::MemPoolError e = rml::pool_create_v1((intptr_t)&L, &pol, &p);
        if (e == rml::POOL_OK) { if (!p || p == (rml::MemoryPool*)0x77) { *problem_key = "pool_create-ok-without-pool"; return "pool_create_v1 returned POOL_OK but no pool"; } L.pool = p; L.alive = true; return ""; }
        if (e != rml::NO_MEMORY) { *problem_key = "pool_create-wrong-error"; return "pool_create_v1 returned error " + std::to_string((int)e) + " instead of NO_MEMORY"; }
        if (p != nullptr) { *problem_key = "pool_create-failed-with-pool"; return "pool_create_v1 failed but left *pool non-null"; }
    } else {
        try {
            if (variant == PV_CXX_CHAR) { auto* o = new OpenPool<RawAllocator<char>>(RawAllocator<char>(&L)); L.cxx_obj = o; L.pool = o->raw(); }
            else if (variant == PV_CXX_A64) { auto* o = new OpenPool<RawAllocator<A64>>(RawAllocator<A64>(&L)); L.cxx_obj = o; L.pool = o->raw(); }
            else { auto* o = new OpenFixedPool(L.fixed_buf, L.fixed_size); L.cxx_obj = o; L.pool = o->raw(); }
            L.alive = true; return "";
        } catch (const std::bad_alloc&) { /* what the reference documents */ }
        catch (const std::runtime_error&) { if (g_child) g_child->stat("P_pool_ctor_threw_runtime_error_where_bad_alloc_is_documented"); }
        catch (...) { *problem_key = "pool-ctor-threw-unknown"; return "pool constructor threw something that is neither bad_alloc nor runtime_error"; }
    }
    if (L.fixed) { os_unmap(L.fixed_buf, L.fixed_size); L.fixed_buf = nullptr; }
    return "refused";
}
// pool_destroy / destructor. The caller has forgotten the pool's blocks. Returns problem text or "".
inline std::string pool_kill(PoolLog& L, const char** problem_key) {
    *problem_key = nullptr; std::string res;
    L.teardown.store(true);
    {
        InCall ic;
        if (!L.cxx) { if (!rml::pool_destroy(L.pool)) { *problem_key = "pool_destroy-failed"; res = "pool_destroy returned false"; } }
        else if (L.variant == PV_CXX_CHAR) delete (OpenPool<RawAllocator<char>>*)L.cxx_obj;
        else if (L.variant == PV_CXX_A64) delete (OpenPool<RawAllocator<A64>>*)L.cxx_obj;
        else delete (OpenFixedPool*)L.cxx_obj;
    }
    L.teardown.store(false); L.alive = false; L.pool = nullptr; L.cxx_obj = nullptr;
    if (!L.fixed && L.regions() && res.empty()) {
        *problem_key = "region-not-returned-by-destroy";
        L.mu.lock(); res = "after pool_destroy the pool still holds " + std::to_string(L.live.size()) + " raw region(s), e.g. " + hexs(L.live.begin()->first) + "+" + std::to_string(L.live.begin()->second) + " (obtained by " + std::to_string(L.alloc_ok.load()) + " raw allocations, " + std::to_string(L.free_calls.load()) + " raw frees)";
        for (auto& kv : L.live) os_unmap((void*)kv.first, kv.second); L.live.clear(); L.mu.unlock();
    }
    if (L.fixed && L.fixed_buf) { os_unmap(L.fixed_buf, L.fixed_size); L.fixed_buf = nullptr; }
    return res;
}
inline void* cxx_malloc(PoolLog& L, size_t n) {
    if (L.variant == PV_CXX_CHAR) return ((OpenPool<RawAllocator<char>>*)L.cxx_obj)->malloc(n);
    if (L.variant == PV_CXX_A64) return ((OpenPool<RawAllocator<A64>>*)L.cxx_obj)->malloc(n);
    return ((OpenFixedPool*)L.cxx_obj)->malloc(n);
}
inline void* cxx_realloc(PoolLog& L, void* p, size_t n) {
    if (L.variant == PV_CXX_CHAR) return ((OpenPool<RawAllocator<char>>*)L.cxx_obj)->realloc(p, n);
    if (L.variant == PV_CXX_A64) return ((OpenPool<RawAllocator<A64>>*)L.cxx_obj)->realloc(p, n);
    return ((OpenFixedPool*)L.cxx_obj)->realloc(p, n);
}
inline void cxx_free(PoolLog& L, void* p) {
    if (L.variant == PV_CXX_CHAR) ((OpenPool<RawAllocator<char>>*)L.cxx_obj)->free(p);
    else if (L.variant == PV_CXX_A64) ((OpenPool<RawAllocator<A64>>*)L.cxx_obj)->free(p);
    else ((OpenFixedPool*)L.cxx_obj)->free(p);
}
inline void cxx_recycle(PoolLog& L) {
    if (L.variant == PV_CXX_CHAR) ((OpenPool<RawAllocator<char>>*)L.cxx_obj)->recycle();
    else if (L.variant == PV_CXX_A64) ((OpenPool<RawAllocator<A64>>*)L.cxx_obj)->recycle();
    else ((OpenFixedPool*)L.cxx_obj)->recycle();
}
// memory_pool_allocator<A48>::allocate(n): std::bad_alloc on failure
struct B48 { char c[48]; };
inline Out cxx_allocator_allocate(PoolLog& L, size_t count) {
    Out o; errno = 0;
    try {
        InCall ic;
        if (L.variant == PV_CXX_CHAR) o.p = tbb::memory_pool_allocator<B48>(*(tbb::memory_pool<RawAllocator<char>>*)(OpenPool<RawAllocator<char>>*)L.cxx_obj).allocate(count);
        else if (L.variant == PV_CXX_A64) o.p = tbb::memory_pool_allocator<B48>(*(tbb::memory_pool<RawAllocator<A64>>*)(OpenPool<RawAllocator<A64>>*)L.cxx_obj).allocate(count);
        else o.p = tbb::memory_pool_allocator<B48>(*(tbb::fixed_pool*)(OpenFixedPool*)L.cxx_obj).allocate(count);
    } catch (const std::bad_alloc&) { o.threw_bad_alloc = true; }
    catch (...) { o.threw_other = true; }
    o.err = errno; return o;
}
inline Out p_malloc(PoolLog& L, size_t n) { if (!L.cxx) return xp_malloc(L.pool, n); return C18_CALL(cxx_malloc(L, n)); }
inline Out p_realloc(PoolLog& L, void* p, size_t n) { if (!L.cxx) return xp_realloc(L.pool, p, n); return C18_CALL(cxx_realloc(L, p, n)); }
inline void p_free(PoolLog& L, void* p) { if (!L.cxx) { if (!xp_free(L.pool, p)) problem("pool_free-failed", "pool_free returned false for a live block"); return; } InCall ic; cxx_free(L, p); }
inline bool p_reset(PoolLog& L) { L.teardown.store(true); bool ok = true; { InCall ic; if (!L.cxx) ok = rml::pool_reset(L.pool); else cxx_recycle(L); } L.teardown.store(false); return ok; }

// --------------------------------------------------------------------------------------------- traces
enum POpKind : uint8_t { PO_CREATE, PO_MALLOC, PO_AMALLOC, PO_REALLOC, PO_AREALLOC, PO_FREE, PO_RESET, PO_DESTROY, PO_ALLOCATOR, PO_DEF_MALLOC, PO_DEF_FREE, PO_KINDS };
static const char* const pop_names[] = { "create", "pool_malloc", "pool_aligned_malloc", "pool_realloc", "pool_aligned_realloc", "pool_free", "pool_reset", "pool_destroy", "memory_pool_allocator::allocate", "malloc", "free" };
struct POp { uint8_t kind; uint8_t slot; uint8_t variant; uint32_t sel; size_t n; size_t al; };
constexpr int kSlots = 4;
struct PTrace { uint64_t seed = 0; bool tiny = false; std::vector<POp> ops; };

inline size_t pool_size(Rng& r, bool fixed) {
    unsigned k = (unsigned)r.below(100);
    if (k < 35) return 1 + r.below(1024);
    if (k < 60) return 1025 + r.below(7104);
    if (k < 70) { static const std::vector<size_t> e = { 8, 1024, 8128, 8129, 16384, 65536, MB - 100, MB, MB + 1 }; return r.pick(e); }
    if (k < 88) return 8129 + r.below(200 * KB);
    if (k < 96 || fixed) return 200 * KB + r.below(900 * KB);
    return MB + r.below(5 * MB);
}
inline POp gen_create(Rng& r, int slot) {
    POp o{}; o.kind = PO_CREATE; o.slot = (uint8_t)slot; o.variant = (uint8_t)r.below(PV_VARIANTS);
    if (o.variant == PV_RML_GRAN) { static const std::vector<size_t> g = { 4096, 65536, MB, 2 * MB, 192 }; o.n = r.pick(g); }
    else if (o.variant == PV_RML_FIXED || o.variant == PV_CXX_FIXED) o.n = (size_t)(1 + r.below(8)) * MB + (r.chance(1, 3) ? r.below(5000) : 0);
    return o;
}
inline PTrace gen_ptrace(uint64_t seed, bool tiny) {
    PTrace t; t.seed = seed; t.tiny = tiny;
    Rng r(mix(seed, 0x9001));
    int nslots = tiny ? 1 + (int)r.below(2) : 2 + (int)r.below(kSlots - 1);
    bool fixed_slot[kSlots] = {};
    for (int s = 0; s < nslots; s++) { POp c = gen_create(r, s); if (tiny && s == 0 && (c.variant == PV_RML_FIXED || c.variant == PV_CXX_FIXED)) c.variant = PV_RML, c.n = 0; fixed_slot[s] = c.variant == PV_RML_FIXED || c.variant == PV_CXX_FIXED; t.ops.push_back(c); }
    int n = tiny ? 2 + (int)r.below(5) : 60 + (int)r.below(140);
    for (int i = 0; i < n; i++) {
        unsigned k = (unsigned)r.below(1000); int s = (int)r.below(nslots);
        POp o{}; o.slot = (uint8_t)s; o.sel = r.u32(); o.n = pool_size(r, fixed_slot[s]);
        if (tiny && r.chance(1, 2)) o.n = 300 * KB + r.below(3 * MB);
        if (k < 420 || i == 0) o.kind = PO_MALLOC;
        else if (k < 520) { o.kind = PO_AMALLOC; o.al = (size_t)1 << r.below(17); }
        else if (k < 620) o.kind = PO_REALLOC;
        else if (k < 660) { o.kind = PO_AREALLOC; o.al = (size_t)1 << r.below(15); }
        else if (k < 830) o.kind = PO_FREE;
        else if (k < 870) { o.kind = PO_ALLOCATOR; o.n = 1 + o.n / 48; }
        else if (k < 920) { o.kind = PO_DEF_MALLOC; }
        else if (k < 950) o.kind = PO_DEF_FREE;
        else if (k < 975) o.kind = PO_RESET;
        else { o.kind = PO_DESTROY; t.ops.push_back(o); POp c = gen_create(r, s); fixed_slot[s] = c.variant == PV_RML_FIXED || c.variant == PV_CXX_FIXED; t.ops.push_back(c); continue; }
        t.ops.push_back(o);
    }
    return t;
}
inline std::string ptrace_json(const PTrace& t, size_t max_ops = 40) {
    Json j; j.obj(); j.kv("class", "P"); j.kv("trace_seed", vrt::hex64(t.seed)); j.kv("ops", (long long)t.ops.size());
    j.key("first_ops").arr();
    for (size_t i = 0; i < t.ops.size() && i < max_ops; i++) {
        const POp& o = t.ops[i]; std::string s = "pool" + std::to_string(o.slot) + " " + pop_names[o.kind];
        if (o.kind == PO_CREATE) { s += std::string(" ") + variant_names[o.variant]; if (o.n) s += " " + szs(o.n); }
        else if (o.kind != PO_FREE && o.kind != PO_RESET && o.kind != PO_DESTROY && o.kind != PO_DEF_FREE) { s += " " + szs(o.n); if (o.al) s += " align " + szs(o.al); }
        j.val(s);
    }
    j.end_arr(); j.end_obj(); return j.s;
}

struct PoolRun {
    Child& C; Shadow S; PoolLog L[kSlots]; const PTrace& t;
    long api_failures = 0, api_success = 0; uint64_t fail_sig = 0;
    static PoolRun*& self() { static PoolRun* p = nullptr; return p; }
    PoolRun(Child& c, const PTrace& tr) : C(c), t(tr) { for (int i = 0; i < kSlots; i++) L[i].slot = i; }
    void fail(const std::string& what, const std::string& detail) { C.violation(cls_key('P', what), detail + " | during: " + const_cast<const char*>(g_shared->op), g_scenario_json); }
    static bool pool_block_live(PoolLog* Lg, uintptr_t lo, uintptr_t hi, std::string* what) {
        PoolRun* me = self(); if (!me) return false;
        auto it = me->S.by_addr.lower_bound(lo);
        for (; it != me->S.by_addr.end() && it->first < hi; ++it) if (it->second.pool == Lg->slot && it->first != g_exempt_block) { *what = "block #" + std::to_string(it->second.id) + " at " + hexs(it->first) + "+" + std::to_string(it->second.n); return true; }
        return false;
    }
    long fired_now() const { return g_raw_inj.fired.load() + g_map_inj.fired.load(); }
    void sweep(const char* when) { for (auto& kv : S.by_addr) { long d = first_damage(kv.second.p, kv.second.n, kv.second.id); if (d >= 0) { fail("live-block-damaged", std::string(when) + ": block #" + std::to_string(kv.second.id) + " of pool " + std::to_string(kv.second.pool) + " (" + std::to_string(kv.second.n) + " bytes) lost its pattern at offset " + std::to_string(d)); return; } } }
    void judge_failure(PoolLog& Lg, const Out& o, long fired0, const std::string& what, bool cxx_allocator) {
        api_failures++; fail_sig = mix(fail_sig, (uint64_t)g_shared->op_index); C.stat("P_failed_requests");
        if (cxx_allocator && !o.threw_bad_alloc) fail("no-bad_alloc", what + (o.threw_other ? " threw something that is not std::bad_alloc" : " returned null without throwing"));
        if (Lg.fixed) { C.stat("P_failed_requests_fixed_pool"); return; }      // a fixed pool may simply be full
        if (fired_now() == fired0) fail("fails-without-refusal", what + " failed although neither a raw allocation nor a mapping request was refused during the call");
    }
    bool judge_block(PoolLog& Lg, const Out& o, size_t n, size_t al, const std::string& what) {
        api_success++;
        uintptr_t a = (uintptr_t)o.p;
        if (o.threw_bad_alloc || o.threw_other) { fail("exception-and-result", what + " threw and returned"); return false; }
        if (al > 1 && (a & (al - 1))) fail("misaligned", what + " returned " + hexs(a) + " which is not aligned to " + std::to_string(al));
        if (!Lg.inside(a, a + n)) { fail("block-outside-own-raw-memory", what + " returned " + hexs(a) + "+" + std::to_string(n) + " which is not inside a region pool " + std::to_string(Lg.slot) + " obtained from its own raw allocator (" + std::to_string(Lg.regions()) + " regions held)"); return false; }
        rml::MemoryPool* id = xp_identify(o.p);
        if (id != Lg.pool) fail("pool_identify-wrong-pool", "pool_identify(" + hexs(a) + ") names " + hexs((uintptr_t)id) + ", the block came from pool " + std::to_string(Lg.slot) + " = " + hexs((uintptr_t)Lg.pool));
        size_t ms = xp_msize(Lg.pool, o.p);
        if (ms < n) { fail("msize-too-small", what + " returned a block whose pool_msize is " + std::to_string(ms)); return false; }
        std::string ov = S.overlap(a, a + n);
        if (!ov.empty()) { fail("overlaps-live-block", what + " returned " + hexs(a) + "+" + std::to_string(n) + " which overlaps live " + ov); return false; }
        return true;
    }
    void release(Blk b) {
        long d = first_damage(b.p, b.n, b.id); if (d >= 0) fail("live-block-damaged", "before free: block #" + std::to_string(b.id) + " of pool " + std::to_string(b.pool) + " lost its pattern at offset " + std::to_string(d));
        if (b.pool < 0) x_free(b.p); else p_free(L[b.pool], b.p);
    }
    // index (in S.order) of some block of the pool, or -1
    long find_blk(int pool, uint32_t sel) { size_t n = S.size(); if (!n) return -1; size_t st = sel % n; for (size_t k = 0; k < n; k++) { size_t i = (st + k) % n; if (S.at(i).pool == pool) return (long)i; } return -1; }

    void run(const FaultPlan& raw_plan, const FaultPlan& map_plan) {
        self() = this; g_shadow = &S; g_live_overlap = shadow_overlap_cb; g_pool_block_live = pool_block_live;
        g_raw_inj.reset_counts(); g_map_inj.reset_counts(); g_raw_inj.arm(raw_plan); g_map_inj.arm(map_plan);
        for (size_t i = 0; i < t.ops.size(); i++) {
            POp o = t.ops[i]; PoolLog& Lg = L[o.slot];
            long fired0 = fired_now(); char what[200];
            if (o.kind == PO_CREATE) {
                if (Lg.alive) continue;
                note_op((long)i, "create pool %d (%s, %zu)", o.slot, variant_names[o.variant], o.n);
                const char* pk = nullptr; std::string r = pool_create(Lg, o.variant, o.n, &pk);
                if (pk) fail(pk, r);
                else if (r == "refused") { C.stat("P_pool_creations_refused"); if (fired_now() == fired0) fail("fails-without-refusal", "pool creation failed although nothing was refused"); if (!Lg.fixed && Lg.regions()) fail("region-leaked-by-failed-create", "pool creation failed and " + std::to_string(Lg.regions()) + " raw region(s) were kept"); }
                else C.stat("P_pools_created");
                vrt::progress(); continue;
            }
            if (o.kind == PO_DEF_MALLOC) {
                snprintf(what, sizeof what, "malloc(%zu) next to the pools", o.n); note_op((long)i, "%s", what);
                Out r = x_malloc(o.n);
                if (!r.p) { api_failures++; if (r.err != ENOMEM) fail("wrong-errno", std::string(what) + " returned null with errno " + std::to_string(r.err)); if (fired_now() == fired0) fail("fails-without-refusal", std::string(what) + " failed although nothing was refused"); }
                else {
                    for (int s = 0; s < kSlots; s++) if (L[s].alive && L[s].inside((uintptr_t)r.p, (uintptr_t)r.p + 1)) fail("default-block-inside-pool-memory", std::string(what) + " returned an address inside raw memory of pool " + std::to_string(s));
                    std::string ov = S.overlap((uintptr_t)r.p, (uintptr_t)r.p + o.n); if (!ov.empty()) fail("overlaps-live-block", std::string(what) + " overlaps live " + ov); else { Blk& b = S.add(r.p, o.n, 0, -1); fill(b.p, b.n, b.id); }
                }
                vrt::progress(); continue;
            }
            if (o.kind == PO_DEF_FREE) { long idx = find_blk(-1, o.sel); if (idx >= 0) { Blk b = S.take((size_t)idx); note_op((long)i, "free(default block #%u)", b.id); release(b); } vrt::progress(); continue; }
            if (!Lg.alive) continue;
            switch (o.kind) {
            case PO_MALLOC: case PO_AMALLOC: case PO_ALLOCATOR: {
                Out r; size_t n = o.n, al = o.kind == PO_AMALLOC ? o.al : 0;
                bool allocator = o.kind == PO_ALLOCATOR && Lg.cxx;
                if (allocator) { n = o.n * sizeof(B48); snprintf(what, sizeof what, "memory_pool_allocator<48 bytes>(pool %d).allocate(%zu)", o.slot, o.n); note_op((long)i, "%s", what); r = cxx_allocator_allocate(Lg, o.n); }
                else if (al && !Lg.cxx) { snprintf(what, sizeof what, "pool_aligned_malloc(pool %d, %zu, %zu)", o.slot, n, al); note_op((long)i, "%s", what); r = xp_aligned_malloc(Lg.pool, n, al); }
                else { al = 0; if (o.kind == PO_ALLOCATOR) n = o.n * 48; snprintf(what, sizeof what, "pool_malloc(pool %d, %zu)", o.slot, n); note_op((long)i, "%s", what); r = p_malloc(Lg, n); }
                if (!r.p) judge_failure(Lg, r, fired0, what, allocator);
                else if (judge_block(Lg, r, n, al, what)) { Blk& b = S.add(r.p, n, al, o.slot); fill(b.p, b.n, b.id); }
                break;
            }
            case PO_REALLOC: case PO_AREALLOC: {
                long idx = find_blk(o.slot, o.sel);
                if (idx < 0) { snprintf(what, sizeof what, "pool_realloc(pool %d, null, %zu)", o.slot, o.n); note_op((long)i, "%s", what); Out r = p_realloc(Lg, nullptr, o.n); if (!r.p) judge_failure(Lg, r, fired0, what, false); else if (judge_block(Lg, r, o.n, 0, what)) { Blk& b = S.add(r.p, o.n, 0, o.slot); fill(b.p, b.n, b.id); } break; }
                Blk old = S.at((size_t)idx); size_t al = (o.kind == PO_AREALLOC && !Lg.cxx) ? o.al : 0;
                snprintf(what, sizeof what, "%s(pool %d, block #%u of %zu bytes, %zu, align %zu)", al ? "pool_aligned_realloc" : "pool_realloc", o.slot, old.id, old.n, o.n, al); note_op((long)i, "%s", what);
                Out r; { Exempt ex(old.p); r = al ? xp_aligned_realloc(Lg.pool, old.p, o.n, al) : p_realloc(Lg, old.p, o.n); }
                if (!r.p) {
                    judge_failure(Lg, r, fired0, what, false);
                    long d = first_damage(old.p, old.n, old.id); if (d >= 0) fail("failed-realloc-damaged-block", std::string(what) + " failed and the old block lost its pattern at offset " + std::to_string(d));
                    if (!Lg.inside((uintptr_t)old.p, (uintptr_t)old.p + old.n)) fail("failed-realloc-damaged-block", std::string(what) + " failed and the old block's region is gone");
                } else {
                    long d = first_damage(r.p, old.n, old.id, std::min(old.n, o.n));
                    // first_damage walks the probe positions of the OLD size; positions beyond the new size are cut by the limit
                    if (d >= 0) fail("realloc-lost-content", std::string(what) + " succeeded but byte " + std::to_string(d) + " of the kept prefix differs");
                    S.take((size_t)idx);
                    if (judge_block(Lg, r, o.n, al, what)) { Blk& b = S.add(r.p, o.n, al, o.slot); fill(b.p, b.n, b.id); }
                }
                break;
            }
            case PO_FREE: { long idx = find_blk(o.slot, o.sel); if (idx >= 0) { Blk b = S.take((size_t)idx); note_op((long)i, "pool_free(pool %d, block #%u of %zu bytes)", o.slot, b.id, b.n); release(b); } break; }
            case PO_RESET: {
                note_op((long)i, "pool_reset(pool %d)", o.slot);
                sweep("before pool_reset"); S.forget_pool(o.slot);
                if (!p_reset(Lg)) { C.stat("P_pool_reset_returned_false"); if (fired_now() == fired0) fail("pool_reset-failed", "pool_reset returned false although nothing was refused"); }
                C.stat("P_pool_resets");
                break;
            }
            case PO_DESTROY: {
                note_op((long)i, "pool_destroy(pool %d, %s)", o.slot, variant_names[Lg.variant]);
                sweep("before pool_destroy"); S.forget_pool(o.slot);
                const char* pk = nullptr; std::string r = pool_kill(Lg, &pk); if (pk) fail(pk, r);
                C.stat("P_pools_destroyed");
                break;
            }
            default: break;
            }
            vrt::progress();
            if ((i & 15) == 15) sweep("periodic sweep");
            if (C.violations > 3) break;
        }
        publish_counts();
        long raw_calls = g_raw_inj.calls.load(), raw_fired = g_raw_inj.fired.load(), map_calls = g_map_inj.calls.load(), map_fired = g_map_inj.fired.load();
        g_raw_inj.disarm(); g_map_inj.disarm();
        sweep("after the faulty phase");
        // memory is available again
        for (int s = 0; s < kSlots; s++) {
            PoolLog& Lg = L[s]; if (!Lg.alive) continue;
            if (Lg.fixed) {     // give everything back, then a modest request must fit again
                for (long idx; (idx = find_blk(s, 0)) >= 0;) release(S.take((size_t)idx));
                note_op((long)t.ops.size(), "recovery pool_malloc(fixed pool %d, 1000)", s);
                if (Lg.variant == PV_RML_FIXED && Lg.alloc_ok.load() == 0) { C.stat("P_fixed_pools_whose_only_raw_request_was_refused"); continue; }    // "no more pAlloc calls after 1st": the pool never got its buffer
                Out r = p_malloc(Lg, 1000); if (!r.p) fail("fixed-pool-empty-but-failing", "a fixed pool of " + std::to_string(Lg.fixed_size) + " bytes with no live block cannot serve 1000 bytes (raw allocator called " + std::to_string(Lg.alloc_calls.load()) + " times, answered " + std::to_string(Lg.alloc_ok.load()) + ")");
                else if (judge_block(Lg, r, 1000, 0, "recovery request")) { Blk& b = S.add(r.p, 1000, 0, s); fill(b.p, b.n, b.id); }
                continue;
            }
            for (size_t n : { (size_t)100, (size_t)20000, (size_t)(MB + 3) }) {
                note_op((long)t.ops.size(), "recovery pool_malloc(pool %d, %zu)", s, n);
                Out r = p_malloc(Lg, n);
                if (!r.p) fail("still-failing-after-faults-stopped", "pool " + std::to_string(s) + " (" + variant_names[Lg.variant] + ") cannot serve " + std::to_string(n) + " bytes although nothing is refused any more");
                else if (judge_block(Lg, r, n, 0, "recovery request")) { Blk& b = S.add(r.p, n, 0, s); fill(b.p, b.n, b.id); }
            }
            vrt::progress();
        }
        sweep("after recovery requests");
        note_op((long)t.ops.size() + 1, "tear-down");
        for (int s = 0; s < kSlots; s++) {
            PoolLog& Lg = L[s]; if (!Lg.alive) continue;
            // half of the blocks are freed one by one, the rest is left to pool_destroy
            for (long idx; (idx = find_blk(s, 0)) >= 0;) { Blk b = S.take((size_t)idx); if (b.id & 1) release(b); }
            note_op((long)t.ops.size() + 2, "final pool_destroy(pool %d, %s)", s, variant_names[Lg.variant]);
            const char* pk = nullptr; std::string r = pool_kill(Lg, &pk); if (pk) fail(pk, r);
            C.stat("P_pools_destroyed");
            vrt::progress();
        }
        while (S.size()) release(S.take(S.size() - 1));
        x_command(TBBMALLOC_CLEAN_ALL_BUFFERS);
        Out z = x_malloc(3 * MB); if (!z.p) fail("still-failing-after-faults-stopped", "malloc(3 MB) fails after all pools were destroyed"); else x_free(z.p);
        g_shadow = nullptr; g_live_overlap = nullptr; g_pool_block_live = nullptr; self() = nullptr;
        C.stat("P_raw_callback_calls", raw_calls); C.stat("P_raw_refusals_fired", raw_fired); C.stat("P_mapping_calls", map_calls); C.stat("P_mapping_refusals_fired", map_fired);
        C.stat("P_api_failures", api_failures); C.stat("P_api_successes", api_success);
        C.stat("raw_calls", raw_calls); C.stat("map_calls", map_calls); C.stat("fired", raw_fired + map_fired); C.stat("api_failures", api_failures);
        if (raw_fired + map_fired) C.signature(mix(mix(t.seed, fail_sig), mix(mix((uint64_t)raw_plan.kind, mix((uint64_t)raw_plan.from, mix((uint64_t)raw_plan.to, raw_plan.mask))), mix((uint64_t)map_plan.kind, mix((uint64_t)map_plan.from, (uint64_t)map_plan.to)))));
    }
};

struct PoolCfg { long budget = 1000; int cap = 300; int subset_max = 8; bool thorough = false; };

inline void run_pool_enum(Runner& P, const PoolCfg& cfg, Rng& top) {
    vrt::Result& R = vrt::result();
    long spent = 0; int ti = 0;
    while (spent < cfg.budget) {
        bool tiny = (ti++ % 3) == 0;
        PTrace t = gen_ptrace(top.next(), tiny);
        std::string tj = ptrace_json(t);
        auto one = [&](const FaultPlan& rp, const FaultPlan& mp, long Mr, long Mm) {
            std::string scen; { Json j; j.obj(); j.key("trace").raw(tj); j.kv("raw_callback_fault", rp.str()); j.kv("mapping_fault", mp.str()); j.kv("raw_callbacks_in_fault_free_run", (long long)Mr); j.kv("mapping_calls_in_fault_free_run", (long long)Mm); j.end_obj(); scen = j.s; }
            Report rep = P.run([&](Child& C) { g_scenario_json = scen; auto run = std::make_unique<PoolRun>(C, t); run->run(rp, mp); });
            P.absorb(rep, scen); spent++; R.scenarios++;
            for (auto h : rep.sigs) R.signature(h);
            return rep;
        };
        Report base = one(FaultPlan{}, FaultPlan{}, -1, -1);
        if (!base.done) { R.stat("P_traces_whose_fault_free_run_failed"); continue; }
        long Mr = (long)base.st("raw_calls"), Mm = (long)base.st("map_calls");
        if (base.st("api_failures") > base.st("P_failed_requests_fixed_pool")) R.violation("c18.P.fails-without-refusal", "the fault-free run of a pool trace had failing requests on growable pools", tj);
        R.stat("P_traces"); R.stat_max("max_P_raw_callbacks_per_trace", Mr); R.stat_max("max_P_mapping_calls_per_trace", Mm);
        struct Pl { FaultPlan raw, map; bool combo = false; };
        std::vector<Pl> plans; bool exhaustive = true; long ks_raw = 0, ks_map = 0;
        static const long widths[] = { 1, LONG_MAX, 2, LONG_MAX, 3, 7 };
        auto range_plans = [&](long M, bool raw, long& ks) {
            std::vector<long> kv;
            if (M <= cfg.cap) for (long k = 1; k <= M; k++) kv.push_back(k);
            else { exhaustive = false; for (long k = 1; k <= 30; k++) kv.push_back(k); for (int i = 0; i < cfg.cap - 30; i++) kv.push_back(31 + (long)((M - 31) * (double)i / (cfg.cap - 31))); kv.erase(std::unique(kv.begin(), kv.end()), kv.end()); }
            ks = (long)kv.size();
            for (long k : kv) {
                FaultPlan p; p.kind = FaultPlan::RANGE; p.from = p.to = k;
                long w = widths[k % 6]; FaultPlan q = p; q.to = w == LONG_MAX ? LONG_MAX : k + w;
                if (raw) { plans.push_back({ p, FaultPlan{}, false }); plans.push_back({ q, FaultPlan{}, false }); } else { plans.push_back({ FaultPlan{}, p, false }); plans.push_back({ FaultPlan{}, q, false }); }
                if (cfg.thorough) { FaultPlan q2 = p; q2.to = w == LONG_MAX ? k + 1 + k % 5 : LONG_MAX; if (raw) plans.push_back({ q2, FaultPlan{}, false }); else plans.push_back({ FaultPlan{}, q2, false }); }
            }
        };
        bool subsets = Mr >= 1 && Mr <= cfg.subset_max;
        if (subsets) { for (uint64_t m = 1; m < ((uint64_t)1 << Mr); m++) { FaultPlan p; p.kind = FaultPlan::MASK; p.mask = m; plans.push_back({ p, FaultPlan{}, false }); } ks_raw = Mr; R.stat("P_traces_with_every_subset"); R.stat("P_subset_cases", (long long)plans.size()); }
        else range_plans(Mr, true, ks_raw);
        range_plans(Mm, false, ks_map);
        // both sources at once, a few combinations
        Rng pr(mix(t.seed, 77));
        for (int i = 0; i < (tiny ? 4 : 12) && Mr > 0 && Mm > 0; i++) { FaultPlan a, b; a.kind = b.kind = FaultPlan::RANGE; a.from = 1 + (long)pr.below((uint64_t)Mr); a.to = pr.chance(1, 3) ? LONG_MAX : a.from + (long)pr.below(3); b.from = 1 + (long)pr.below((uint64_t)Mm); b.to = pr.chance(1, 3) ? LONG_MAX : b.from + (long)pr.below(3); plans.push_back({ a, b, true }); }
        long fired_cases = 0, not_fired = 0;
        for (auto& pl : plans) {
            Report rep = one(pl.raw, pl.map, Mr, Mm);
            long f = rep.done ? (long)rep.st("fired") : rep.raw_fired + rep.map_fired;
            if (f > 0) { fired_cases++; R.nontrivial++; } else if (!pl.combo) not_fired++; else R.stat("P_combined_cases_not_fired");
            if (R.want_sample() && rep.done && rep.st("api_failures") > 0 && (spent % 5) == 0) {
                Json j; j.obj(); j.key("trace").raw(ptrace_json(t, 12)); j.kv("raw_callback_fault", pl.raw.str()); j.kv("mapping_fault", pl.map.str()); j.kv("raw_callbacks_fault_free", (long long)Mr); j.kv("mapping_calls_fault_free", (long long)Mm);
                j.kv("refusals_fired", (long long)rep.st("fired")); j.kv("requests_that_reported_failure", (long long)rep.st("api_failures")); j.kv("requests_that_succeeded", (long long)rep.st("P_api_successes")); j.kv("outcome", rep.viols.empty() ? "clean" : "violation"); j.end_obj();
                R.sample(j.s);
            }
        }
        if (not_fired) exhaustive = false;
        R.stat("P_k_values_enumerated_raw", ks_raw); R.stat("P_k_values_total_raw", Mr); R.stat("P_k_values_enumerated_mapping", ks_map); R.stat("P_k_values_total_mapping", Mm);
        R.stat("P_fault_cases", (long long)plans.size()); R.stat("P_fault_cases_fired", fired_cases); R.stat("P_fault_cases_not_fired", not_fired);
        if (exhaustive) R.stat("P_traces_exhaustive");
        char key[220]; snprintf(key, sizeof key, "T|P|%s|%s|ops=%zu|Mraw=%ld|Mmap=%ld|k=%ld+%ld|cases=%zu|fired=%ld|exhaustive=%d|subsets=%d", tiny ? "tiny" : "mix", vrt::hex64(t.seed).c_str(), t.ops.size(), Mr, Mm, ks_raw, ks_map, plans.size(), fired_cases, exhaustive ? 1 : 0, subsets ? 1 : 0);
        R.stat(key, 1);
    }
}

} // namespace c18
