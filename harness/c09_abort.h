// C09 abort() scenario classes on concurrent_bounded_queue:
//  Q  quiescent abort: every consumer is blocked in pop (asleep per sleep registry, or at least past the "about to wait"
//     hook), abort() is called, nobody starts a new operation until every aborted pop has returned user_abort.
//  R  racing abort: consumers retry pop immediately after user_abort while others are still unwinding (known defect 4.2).
//  P  abort against pushes blocked on a full queue, with concurrent pops (known defect: aborted push leaves a slot that
//     counts toward capacity; wedges when >= capacity pushes were aborted in a row).
// Every abort phase is followed by an abort-free phase: one producer pushes 0..N-1, consumers pop fixed quotas; every value
// must be delivered exactly once, in order, with no pop left blocked.
#pragma once
#include "c09_lin.h"

namespace c09 {

static thread_local std::atomic<long>* tl_wait_counter = nullptr;
static void c09_observer(int id, const void*, long) { if (id == 65 && tl_wait_counter) tl_wait_counter->fetch_add(1, std::memory_order_relaxed); }
inline void install_observer() { set_point_observer(&c09_observer); }

struct AbortScen {
    int cls = 'Q'; uint64_t seed = 0; long cap = 1; int size_class = 0; int nworkers = 2; int rounds = 1; int N = 12; int preadvance = 0;
    int pushers = 0, pops_during_abort = 0; bool wait_asleep = true; bool wall = false; bool wedgeable = true;
    std::string json() const {
        Json j; j.obj(); j.kv("class", std::string(1, (char)cls)); j.kv("seed", (unsigned long long)seed); j.kv("capacity", cap); j.kv("elem_bytes", kSizes[size_class]);
        j.kv("workers", nworkers); j.kv("abort_rounds", rounds); j.kv("N", N); j.kv("preadvance", preadvance); j.kv("abort_when", wait_asleep ? "all asleep (sleep registry)" : "all past the about-to-wait hook");
        if (cls == 'P') { j.kv("blocked_pushers", pushers); j.kv("pops_during_abort", pops_during_abort); }
        j.end_obj(); return j.s;
    }
};

template <class Q> void abort_scenario(Engine& E, Q& q, const AbortScen& sc, Rng& r, Outcome& out) {
    Result& R = result();
    HangCtx& hc = hang_ctx();
    Clock& clk = E.clk; clk.wall = sc.wall || E.light; clk.c.store(1);
    const int nw = sc.nworkers, me = nw;
    for (int t = 0; t <= nw; t++) E.logs[t].reset(t);
    for (int i = 0; i < sc.preadvance; i++) { do_op(q, K_PUSH, 900000 + i); do_op(q, K_TRY_POP, 0); }
    if (sc.cap >= 0) q.set_capacity(sc.cap);
    std::vector<long> initial;
    std::atomic<long> waits[Pool::kMax]; for (auto& w : waits) w.store(0);
    std::atomic<int> go{0}, returned{0}, unexpected{0};
    uint64_t last_abort_ret = 0;
    const int cls = sc.cls;
    // quotas for the abort-free phase
    int leftover_target = 0;   // set before phase 2 (values already inside)
    std::atomic<int> quota[Pool::kMax]; for (auto& x : quota) x.store(0);
    auto wait_go = [&](int v) { int s = 0; while (go.load(std::memory_order_acquire) < v) relax(s); };
    auto consume = [&](int t, bool abort_is_retry) {       // abort-free phase consumer (class R: also the abort phase)
        Log& lg = E.logs[t]; int got = 0;
        while (got < quota[t].load(std::memory_order_relaxed)) {
            size_t i = lg.begin(clk, K_POP, 0); long res;
            { BlockMark b(hc.blocked_pop); res = do_op(q, K_POP, 0); }
            lg.end(clk, i, res);
            if (res == RS_ABORT) { (void)abort_is_retry; progress(); continue; }   // judged afterwards against the stamp of the last abort()
            got++; hc.popped.fetch_add(1, std::memory_order_relaxed); hc.delivered.fetch_add(1, std::memory_order_relaxed);
            long m = hc.max_delivered.load(std::memory_order_relaxed); while (res > m && res < 100 && !hc.max_delivered.compare_exchange_weak(m, res)) {}
            progress();
        }
    };
    int nconsumers2 = nw;      // consumers of the abort-free phase
    auto split = [&](int total, int parts, int mn) { int left = total - mn * parts; for (int t = 0; t < parts; t++) { int extra = t == parts - 1 ? left : (int)r.below((uint64_t)left + 1); quota[t].store(mn + extra); left -= extra; } };
    if (cls == 'R') { split(sc.N, nw, 1); hc.expect.store(sc.N); }      // the consumers go straight into their pop loops
    if (cls == 'P') {
        for (long i = 0; i < sc.cap; i++) { do_op(q, K_PUSH, 100 + i); initial.push_back(100 + i); hc.pushed.fetch_add(1); }
    }
    E.pool.start(nw, [&](int t) {
        tl_wait_counter = &waits[t];
        Log& lg = E.logs[t];
        if (cls == 'Q') {
            for (int rd = 1; rd <= sc.rounds; rd++) {
                wait_go(rd);
                size_t i = lg.begin(clk, K_POP, 0); long res;
                { BlockMark b(hc.blocked_pop); res = do_op(q, K_POP, 0); }
                lg.end(clk, i, res);
                if (res != RS_ABORT) unexpected.fetch_add(1);
                returned.fetch_add(1, std::memory_order_release); progress();
            }
            wait_go(sc.rounds + 1);
            consume(t, false);
        } else if (cls == 'R') {
            consume(t, true);
        } else {   // P
            wait_go(1);
            if (t < sc.pushers) {
                size_t i = lg.begin(clk, (t & 1) ? K_EMPLACE : K_PUSH, 200 + t); long res;
                { BlockMark b(hc.blocked_push); res = do_op(q, (t & 1) ? K_EMPLACE : K_PUSH, 200 + t); }
                lg.end(clk, i, res);
                if (res == RS_OK) hc.pushed.fetch_add(1, std::memory_order_relaxed);
                else if (res != RS_ABORT) unexpected.fetch_add(1);
            } else if (t == sc.pushers) {
                wait_go(2);
                for (int k = 0; k < sc.pops_during_abort; k++) {
                    spin_iters((unsigned)trng().below(800));
                    size_t i = lg.begin(clk, K_TRY_POP, 0); long res = do_op(q, K_TRY_POP, 0); lg.end(clk, i, res);
                    if (res >= 0) hc.popped.fetch_add(1, std::memory_order_relaxed);
                }
            }
            returned.fetch_add(1, std::memory_order_release); progress();
            wait_go(3);
            consume(t, false);
        }
        tl_wait_counter = nullptr;
    });
    auto all_waiting = [&](int lo, int hi, long round) {
        for (int t = lo; t < hi; t++) { if (sc.wait_asleep ? !E.pool.asleep(t) : waits[t].load(std::memory_order_relaxed) < round) return false; }
        return true;
    };
    auto count_asleep = [&](int lo, int hi) { int c = 0; for (int t = lo; t < hi; t++) if (E.pool.asleep(t)) c++; return c; };
    int sp = 0;
    hc.phase.store(1);
    if (cls == 'Q') {
        for (int rd = 1; rd <= sc.rounds; rd++) {
            go.store(rd, std::memory_order_release);
            while (!all_waiting(0, nw, rd)) relax(sp);
            if (!sc.wait_asleep) spin_iters((unsigned)r.below(3000));
            int asleep = count_asleep(0, nw);
            hc.phase.store(2);
            q.abort(); last_abort_ret = clk.ret();
            R.stat("Q_aborts"); if (asleep) R.stat("Q_aborts_with_sleepers"); R.stat("Q_sleepers_at_abort", asleep);
            while (returned.load(std::memory_order_acquire) < rd * nw) relax(sp);      // every aborted pop has returned: quiescent again
            hc.phase.store(1); progress();
        }
    } else if (cls == 'R') {
        go.store(1, std::memory_order_release);
        long seen_waits = 0;
        for (int a = 0; a < sc.rounds; a++) {
            // let at least one consumer reach a wait, then abort at a random moment
            int guard = 0; while (true) { long w = 0; for (int t = 0; t < nw; t++) w += waits[t].load(std::memory_order_relaxed); if (w > seen_waits || ++guard > 20000) { seen_waits = w; break; } relax(sp); }
            if (r.chance(1, 2)) spin_iters((unsigned)r.below(4000)); else sleep_us((unsigned)r.below(300));
            int asleep = count_asleep(0, nw);
            q.abort(); last_abort_ret = clk.ret();
            R.stat("R_aborts"); if (asleep) R.stat("R_aborts_with_sleepers");
            progress();
        }
        sleep_us(200 + (unsigned)r.below(1500));
    } else {   // P
        go.store(1, std::memory_order_release);
        while (!all_waiting(0, sc.pushers, 1)) relax(sp);
        go.store(2, std::memory_order_release);
        spin_iters((unsigned)r.below(1500));
        int asleep = count_asleep(0, sc.pushers);
        hc.phase.store(2);
        q.abort(); last_abort_ret = clk.ret();
        R.stat("P_aborts"); if (asleep) R.stat("P_aborts_with_sleepers"); R.stat("P_sleepers_at_abort", asleep);
        while (returned.load(std::memory_order_acquire) < nw) relax(sp);
        progress();
    }
    // ---- abort-free phase
    long inside_now = hc.pushed.load() - hc.popped.load();
    leftover_target = (int)inside_now;
    if (cls != 'R') {
        split(sc.N + leftover_target, nconsumers2, 0);
        hc.expect.store(sc.N);
    }
    if (cls == 'P') {
        long aborted = 0; for (int t = 0; t < sc.pushers; t++) for (auto& o : E.logs[t].ops) if (o.res == RS_ABORT) aborted++;
        R.stat("P_pushes_aborted", aborted); R.stat("P_pushes_completed", sc.pushers - aborted);
        if (aborted >= sc.cap) R.stat("P_scenarios_with_capacity_many_aborted_pushes");
    }
    hc.phase.store(3);
    go.store(cls == 'Q' ? sc.rounds + 1 : 3, std::memory_order_release);
    {
        Log& lg = E.logs[me];
        for (long v = 0; v < sc.N; v++) {
            if (r.chance(1, 5)) spin_iters((unsigned)r.below(1500));
            size_t i = lg.begin(clk, K_PUSH, v); long res;
            { BlockMark b(hc.blocked_push); res = do_op(q, K_PUSH, v); }
            lg.end(clk, i, res);
            if (res == RS_OK) hc.pushed.fetch_add(1, std::memory_order_relaxed); else unexpected.fetch_add(1);
            progress();
        }
    }
    E.pool.wait();
    hc.phase.store(4);
    // quiescent: the queue must be empty now
    { Log& lg = E.logs[me]; size_t i = lg.begin(clk, K_TRY_POP, 0); long res = do_op(q, K_TRY_POP, 0); lg.end(clk, i, res); if (res != RS_EMPTY) out.fail("value-invented", "after every value was delivered try_pop still returned " + std::to_string(res)); }
    for (int t = 0; t <= nw; t++) out.ops.insert(out.ops.end(), E.logs[t].ops.begin(), E.logs[t].ops.end());
    for (auto& o : out.ops) if (!o.open && o.res == RS_ABORT && o.call > last_abort_ret) { out.fail("spurious-user_abort", std::string(kind_names[o.kind]) + " of thread " + std::to_string(o.thread) + " was invoked after the last abort() had returned and still ended with user_abort"); break; }
    { long na = 0; for (auto& o : out.ops) if (o.res == RS_ABORT) na++; R.stat(std::string(1, (char)cls) + "_calls_ended_by_user_abort", na); }
    if (unexpected.load()) out.fail("unexpected-result", std::to_string(unexpected.load()) + " calls ended with a result that nothing explains (a pop of an empty queue returned a value, user_abort without abort(), or a push failed)");
    E.out_initial = initial;
}

inline void run_abort(Engine& E, Rng& r, int cls, bool wedgeable = true) {
    Result& R = result();
    AbortScen sc; sc.cls = cls; sc.seed = r.next(); sc.wedgeable = wedgeable;
    sc.size_class = (int)r.below(6);
    sc.preadvance = r.chance(1, 2) ? near_page_boundary(r, sc.size_class) : (int)r.below(5);
    if (sc.size_class <= 1 && r.chance(2, 3)) sc.preadvance = (int)r.below(10);
    sc.wall = r.chance(1, 4);
    sc.wait_asleep = r.chance(3, 5);
    sc.N = 6 + (int)r.below(15);
    if (cls == 'Q') { sc.nworkers = 1 + (int)r.below(4); sc.rounds = 1 + (int)r.below(3); sc.cap = r.pick(std::vector<long>{ 1, 2, 3, -1 }); }
    else if (cls == 'R') { sc.nworkers = 2 + (int)r.below(3); sc.rounds = 2 + (int)r.below(5); sc.cap = r.pick(std::vector<long>{ 1, 2, 3, -1 }); }
    else {
        sc.cap = 1 + (long)r.below(3);
        sc.pushers = 1 + (int)r.below(4);
        if (!wedgeable) { sc.cap = 2 + (long)r.below(2); sc.pushers = 1 + (int)r.below((uint64_t)sc.cap - 1); }
        sc.pops_during_abort = (int)r.below((uint64_t)sc.cap + 1);
        sc.nworkers = sc.pushers + 1 + (int)r.below(2);          // pushers, the popping thread, maybe one more consumer for the abort-free phase
        sc.N = 6 + (int)r.below(10);
    }
    hang_ctx().begin(cls, sc.cap, sc.json());
    Outcome out;
    perturb_random(r, hook_ids());
    by_size(sc.size_class, [&](auto sz) { constexpr int SZ = decltype(sz)::value; BL<SZ> q; abort_scenario(E, q, sc, r, out); });
    perturb().clear();
    R.scenarios++;
    R.stat(std::string(1, (char)cls) + "_scenarios_completed");
    Aspect as;
    aspect_check(out.ops, E.out_initial, sc.cap, out, as);
    int ov = overlapping_pairs(out.ops);
    if (ov > 0) { R.nontrivial++; R.signature(mix(history_signature(out.ops), (uint64_t)cls)); }
    if (out.fail_key.empty() && out.ops.size() <= 62) {
        uint64_t steps = 0; Lin res = wgl_check(out.ops, E.out_initial, sc.cap, 400000, &steps);
        if (res == Lin::BUDGET) { R.inconclusive++; R.stat("wgl_budget"); }
        else if (res == Lin::VIOLATION) out.fail("order-broken", "no linearization of the scenario's history (abort phase + abort-free phase) against the bounded FIFO model");
        else R.stat(std::string("wgl_ok_") + (char)cls);
    }
    if (!out.fail_key.empty()) {
        std::string k = out.fail_key == "value-lost" ? "value-never-delivered" : out.fail_key;
        Json j; j.obj(); j.key("scenario").raw(sc.json()); j.key("history[thread,op,arg,result,call,ret]").raw(history_json(out.ops, kind_names)); j.end_obj();
        R.violation(cls_key(cls, k), out.fail_detail + "\n" + rings_dump(6), j.s);
    } else if (R.want_sample() && ov >= 2 && r.chance(1, 3)) {
        Json j; j.obj(); j.key("scenario").raw(sc.json()); j.kv("overlapping_pairs", ov); j.key("history[thread,op,arg,result,call,ret]").raw(history_json(out.ops, kind_names)); j.end_obj();
        R.sample(j.s);
    }
}

} // namespace c09
