// C02: no lost wake-up - a thread asleep inside the library is woken once its condition holds; enqueued work runs
// even if nobody waits. Every scenario is designed so that it *must* complete by the library's contract; the verdict
// "hang" is never a wall-clock verdict: it is quiescence (all threads asleep and unscheduled - nobody can ever notify
// again) or a spin-stall (CPU burnt without progress), both decided by vrt's watchdog, with the sleep registry as witness.
// Arenas here are SILENT (no keeper traffic): unrelated notifications would rescue a sleeper whose own wake-up was lost.
#define VRT_IMPL
#include "vrt_tbb.h"
#include <oneapi/tbb.h>
#include <condition_variable>
#include <memory>

using namespace vrt;

struct Current {            // what the running scenario is waiting for (read by the watchdog callback)
    std::mutex m; std::string family, params; std::atomic<long> expected{0}, done{0};
    void set(const std::string& f, const std::string& p, long e) { std::lock_guard<std::mutex> l(m); family = f; params = p; expected = e; done = 0; }
    std::string describe() { std::lock_guard<std::mutex> l(m); Json j; j.obj(); j.kv("family", family); j.kv("params", params); j.kv("expected_completions", (long long)expected.load()); j.kv("completed", (long long)done.load()); j.end_obj(); return j.s; }
} g_cur;

static uint64_t my_cnt(int id) { return hook_thread().cnt[id].load(std::memory_order_relaxed); }
struct WaiterProbe {        // what the calling thread did inside the monitors during a wait
    uint64_t p0, c0, x0, s0;
    WaiterProbe() : p0(my_cnt(50)), c0(my_cnt(52)), x0(my_cnt(53)), s0(hook_thread().sleeps.load()) {}
    uint64_t prepares() const { return my_cnt(50) - p0; }
    uint64_t commits() const { return my_cnt(52) - c0; }
    uint64_t cancels() const { return my_cnt(53) - x0; }
    uint64_t sleeps() const { return hook_thread().sleeps.load() - s0; }
    uint64_t sig() const { return mix(mix(std::min<uint64_t>(prepares(), 6), std::min<uint64_t>(commits(), 6)), mix(std::min<uint64_t>(cancels(), 6), std::min<uint64_t>(sleeps(), 6))); }
};
static void note(Result& R, const char* fam, const WaiterProbe& w, uint64_t extra_sig) {
    R.scenarios++;
    if (w.sleeps() > 0) { R.nontrivial++; R.stat(std::string(fam) + ".waiter_really_slept"); }
    if (w.cancels() > 0) R.stat(std::string(fam) + ".wait_cancelled_after_prepare");
    R.signature(mix(mix(std::hash<std::string>{}(fam), w.sig()), extra_sig));
    if (w.sleeps() > 0 && R.want_sample()) { Json j; j.obj(); j.key("scenario").raw(g_cur.describe()); j.kv("waiter_prepare_wait", (long long)w.prepares()); j.kv("waiter_commits", (long long)w.commits()); j.kv("waiter_cancelled_waits", (long long)w.cancels()); j.kv("waiter_real_sleeps", (long long)w.sleeps()); j.end_obj(); R.sample(j.s); }
    progress();
}
static void think(Rng& r, int long_pct) { unsigned k = (unsigned)r.below(100); if ((int)k < long_pct) sleep_us(200 + (unsigned)r.below(2500)); else if (k < 60) spin_iters((unsigned)r.below(3000)); }

// ---------------------------------------------------------------------------------------------- group wait
static void fam_group(Result& R, Rng& r) {
    int conc = (int)r.pick(std::vector<int>{ 2, 2, 3, 4, 8 });
    tbb::task_arena A(conc, 1); A.initialize();
    int rounds = 3 + (int)r.below(4);
    for (int rd = 0; rd < rounds; rd++) {
        int units = 1 + (int)r.below(4);
        bool algo = r.chance(1, 4);
        Json pj; pj.obj(); pj.kv("arena", conc); pj.kv("units", units); pj.kv("algorithm", algo); pj.end_obj();
        g_cur.set("group", pj.s, units);
        std::atomic<int> bounces{0}, on_worker{0};
        int waiter_ord = thread_ordinal();
        WaiterProbe* wp = nullptr;
        A.execute([&] {
            WaiterProbe w; wp = &w;
            if (algo) {
                // the calling thread takes part; chunks that land on workers outlast its spin budget
                tbb::parallel_for(0, units + 1, [&](int i) {
                    if (i == 0) return;
                    if (thread_ordinal() != waiter_ord) { on_worker++; sleep_us(300 + (unsigned)trng().below(2500)); }
                    g_cur.done++;
                }, tbb::simple_partitioner());
            } else {
                tbb::task_group tg;
                std::function<void()> unit = [&] {
                    // bounce back into the pool until a worker (not the waiter) takes it, then outlast the waiter's spinning
                    if (thread_ordinal() == waiter_ord && bounces.fetch_add(1) < 4000) { if (bounces.load() > 50) sched_yield(); tg.run(unit); return; }
                    if (thread_ordinal() != waiter_ord) { on_worker++; sleep_us(300 + (unsigned)trng().below(2500)); }
                    g_cur.done++;
                };
                for (int u = 0; u < units; u++) tg.run(unit);
                tg.wait();
            }
            if (g_cur.done.load() != units) R.violation("c02.group.wait-returned-early", "wait returned with " + std::to_string(g_cur.done.load()) + " of " + std::to_string(units) + " units done", g_cur.describe());
            note(R, "group", w, (uint64_t)conc * 16 + units + (algo ? 8 : 0));
        });
        if (on_worker.load()) R.stat("group.units_finished_on_worker", on_worker.load());
        sleep_us(500 + (unsigned)r.below(4000));          // idle gap: workers go back to sleep
    }
}

// ---------------------------------------------------------------------------------------------- bounded queue
static void fam_cbq(Result& R, Rng& r) {
    int cap = 1 + (int)r.below(3), np = 1 + (int)r.below(3), nc = 1 + (int)r.below(3);
    int per_consumer = 6 + (int)r.below(20);
    int total = per_consumer * nc;
    std::vector<int> per_prod(np, total / np); per_prod[0] += total % np;
    tbb::concurrent_bounded_queue<int> q; q.set_capacity(cap);
    Json pj; pj.obj(); pj.kv("capacity", cap); pj.kv("producers", np); pj.kv("consumers", nc); pj.kv("items", total); pj.end_obj();
    g_cur.set("cbq", pj.s, 2L * total);
    std::vector<std::thread> th; std::atomic<uint64_t> slept{0}, sig{0}; std::atomic<long> sum_in{0}, sum_out{0};
    uint64_t s0 = r.next();
    for (int p = 0; p < np; p++) th.emplace_back([&, p] { Rng tr(mix(s0, p)); WaiterProbe w; for (int i = 0; i < per_prod[p]; i++) { int v = p * 100000 + i; think(tr, 12); q.push(v); sum_in += v; g_cur.done++; progress(); } slept += w.sleeps(); sig ^= w.sig(); });
    for (int c = 0; c < nc; c++) th.emplace_back([&, c] { Rng tr(mix(s0, 100 + c)); WaiterProbe w; for (int i = 0; i < per_consumer; i++) { int v = -1; think(tr, 12); q.pop(v); sum_out += v; g_cur.done++; progress(); } slept += w.sleeps(); sig ^= w.sig(); });
    for (auto& t : th) t.join();
    if (sum_in.load() != sum_out.load() || q.size() != 0) R.violation("c02.cbq.conservation", "sum pushed " + std::to_string(sum_in.load()) + " != sum popped " + std::to_string(sum_out.load()) + " or size " + std::to_string((long)q.size()), g_cur.describe());
    R.scenarios++; if (slept.load()) { R.nontrivial++; R.stat("cbq.sleeps", (long long)slept.load()); }
    R.signature(mix(mix(cap * 16 + np * 4 + nc, sig.load()), 0xCB));
    if (slept.load() && R.want_sample()) { Json j; j.obj(); j.key("scenario").raw(g_cur.describe()); j.kv("real_sleeps_in_queue_monitors", (long long)slept.load()); j.end_obj(); R.sample(j.s); }
    progress();
}

// ---------------------------------------------------------------------------------------------- mutexes that sleep
template <class M> static void run_mutex(Result& R, Rng& r, const char* name, bool rw) {
    int nt = 2 + (int)r.below(5), ops = 10 + (int)r.below(30);
    M mtx; long shared = 0; std::atomic<int> writers{0}, readers{0};
    Json pj; pj.obj(); pj.kv("mutex", name); pj.kv("threads", nt); pj.kv("ops", ops); pj.end_obj();
    g_cur.set("mutex", pj.s, (long)nt * ops);
    std::vector<std::thread> th; std::atomic<uint64_t> slept{0}, sig{0}; std::atomic<int> bad{0};
    uint64_t s0 = r.next();
    for (int t = 0; t < nt; t++) th.emplace_back([&, t] {
        Rng tr(mix(s0, t)); WaiterProbe w;
        for (int i = 0; i < ops; i++) {
            bool wr = !rw || tr.chance(1, 2);
            if (wr) {
                mtx.lock();
                if (writers.fetch_add(1) != 0 || readers.load() != 0) bad++;
                shared++; think(tr, 15);
                writers.fetch_sub(1); mtx.unlock();
            } else {
                if constexpr (std::is_same<M, tbb::rw_mutex>::value) {
                    mtx.lock_shared();
                    readers.fetch_add(1); if (writers.load() != 0) bad++;
                    think(tr, 15);
                    readers.fetch_sub(1); mtx.unlock_shared();
                }
            }
            g_cur.done++; progress(); think(tr, 5);
        }
        slept += w.sleeps(); sig ^= w.sig();
    });
    for (auto& t : th) t.join();
    if (bad.load()) R.violation(std::string("c02.mutex.exclusion.") + name, std::to_string(bad.load()) + " conflicting holders observed", g_cur.describe());
    R.scenarios++; if (slept.load()) { R.nontrivial++; R.stat(std::string("mutex.") + name + ".sleeps", (long long)slept.load()); }
    R.signature(mix(mix(nt, sig.load()), std::hash<std::string>{}(name)));
    progress();
}
static void fam_mutex(Result& R, Rng& r) { if (r.chance(1, 2)) run_mutex<tbb::mutex>(R, r, "mutex", false); else run_mutex<tbb::rw_mutex>(R, r, "rw_mutex", true); }

// ---------------------------------------------------------------------------------------------- execute into a saturated arena
static void fam_execute(Result& R, Rng& r) {
    static const int shapes[][2] = { { 1, 0 }, { 1, 1 }, { 2, 1 }, { 2, 2 }, { 3, 1 } };
    auto& sh = shapes[r.below(5)];
    tbb::task_arena A(sh[0], sh[1]); A.initialize();
    int nt = 3 + (int)r.below(4), ops = 8 + (int)r.below(20);
    Json pj; pj.obj(); pj.kv("arena", sh[0]); pj.kv("reserved", sh[1]); pj.kv("threads", nt); pj.kv("ops", ops); pj.end_obj();
    g_cur.set("execute", pj.s, (long)nt * ops);
    std::vector<std::thread> th; std::atomic<uint64_t> slept{0}, sig{0}; std::atomic<int> inside{0}, maxin{0};
    uint64_t s0 = r.next();
    for (int t = 0; t < nt; t++) th.emplace_back([&, t] {
        Rng tr(mix(s0, t)); WaiterProbe w;
        for (int i = 0; i < ops; i++) {
            int ret = A.execute([&] { int n = inside.fetch_add(1) + 1; int m = maxin.load(); while (n > m && !maxin.compare_exchange_weak(m, n)) {} think(tr, 25); inside.fetch_sub(1); return i; });
            if (ret != i) R.violation("c02.execute.result", "execute returned a wrong value", g_cur.describe());
            g_cur.done++; progress(); think(tr, 5);
        }
        slept += w.sleeps(); sig ^= w.sig();
    });
    for (auto& t : th) t.join();
    R.scenarios++; if (slept.load()) { R.nontrivial++; R.stat("execute.callers_slept_waiting_for_a_slot", (long long)slept.load()); }
    R.signature(mix(mix(sh[0] * 8 + sh[1], nt), sig.load()));
    progress();
}

// ---------------------------------------------------------------------------------------------- execute: the slot notification must be handed over
// All slots reserved (no worker can ever help). E1..En occupy the slots; En waits on a task_group, i.e. it runs the arena's delegated
// tasks. W1 calls execute(d1): full, so d1 is delegated and W1 sleeps on the exit monitor; En runs d1, which blocks. W2 calls execute(d2)
// and sleeps behind W1. E1 leaves: its notify_one wakes W1, the oldest sleeper - but d1 finishes at that very moment (it also ends En's
// task_group wait, En goes on with user code that waits for W2), so W1 returns without needing the slot. It must pass the notification on:
// W2 has a free slot in front of it and nobody else will ever leave or run d2. "Asleep" is read from the sleep registry (hooks 56/57).
static void fam_execute_handover(Result& R, Rng& r) {
    int n = r.chance(2, 3) ? 2 : 3;
    tbb::task_arena A(n, n); A.initialize();
    int nw = 2 + (int)r.below(2);                 // sleepers: W1 (its functor is run by En) and W2.. (must get the slot)
    unsigned d1_lag = r.chance(1, 2) ? 0 : (unsigned)r.below(60);
    Json pj; pj.obj(); pj.kv("arena_all_reserved", n); pj.kv("sleepers", nw); pj.kv("d1_finishes_us_after_E1_left", (long long)d1_lag); pj.end_obj();
    g_cur.set("execute_handover", pj.s, nw);
    std::mutex m; std::condition_variable cv;
    std::atomic<int> in{0}, d1_started{0}, e1_left{0}, returned{0}; bool e1_go = false, all_back = false;
    std::atomic<HookThread*> wh[4] = {};
    tbb::task_handle* hp = nullptr;
    std::vector<std::thread> occ;
    for (int e = 0; e < n - 1; e++) occ.emplace_back([&, e] {
        A.execute([&] { in++; std::unique_lock<std::mutex> l(m); if (e == 0) cv.wait(l, [&] { return e1_go; }); else cv.wait(l, [&] { return all_back; }); });
        if (e == 0) e1_left.store(1, std::memory_order_release);
    });
    occ.emplace_back([&] {
        A.execute([&] {
            tbb::task_group tg; tbb::task_handle h = tg.defer([] {}); hp = &h;
            in.fetch_add(1, std::memory_order_release);
            tg.wait();                                                    // runs delegated tasks until d1 drops the handle
            std::unique_lock<std::mutex> l(m); cv.wait(l, [&] { return all_back; });      // user code: neither leaves nor runs tasks before every sleeper is back
        });
    });
    while (in.load(std::memory_order_acquire) < n) sched_yield();
    std::vector<std::thread> ws; std::atomic<uint64_t> slept{0};
    auto asleep = [&](int k) { HookThread* h = wh[k].load(); return h && h->sleeping_on.load() != nullptr; };
    for (int k = 0; k < nw; k++) {
        ws.emplace_back([&, k] {
            WaiterProbe w; wh[k].store(&hook_thread());
            if (k == 0) A.execute([&] { d1_started = 1; while (!e1_left.load(std::memory_order_acquire)) { /* must react at once */ } if (d1_lag) spin_iters(d1_lag * 40); *hp = tbb::task_handle(); });
            else A.execute([&] {});
            slept += w.sleeps(); g_cur.done++; progress();
            { std::lock_guard<std::mutex> l(m); if (returned.fetch_add(1) + 1 == nw) all_back = true; } cv.notify_all();
        });
        if (k == 0) while (!d1_started.load()) sched_yield();
        // the next sleeper must queue up behind this one: wait until this one is registered asleep (a fact, not a delay)
        while (!asleep(k)) { if (returned.load() > k) break; sched_yield(); }
    }
    { std::lock_guard<std::mutex> l(m); e1_go = true; } cv.notify_all();
    for (auto& t : ws) t.join();
    for (auto& t : occ) t.join();
    R.scenarios++; if (slept.load() >= 2) { R.nontrivial++; R.stat("execute_handover.scenarios_with_two_sleepers_queued"); }
    R.stat("execute_handover.sleeps_on_the_exit_monitor", (long long)slept.load());
    R.signature(mix(mix(0xE8, n * 4 + nw), mix(slept.load(), d1_lag / 16)));
    progress();
}

// ---------------------------------------------------------------------------------------------- execute: the slot is vacated by a worker
// One worker in the whole process (limit 2). It occupies the only slot of arena X (running an enqueued task) when the caller arrives in
// X.execute: the caller delegates and sleeps. Then an arena of higher priority takes the worker (X is recalled): the worker leaves X as
// soon as its task ends and sleeps in a task of Y that only ends after the caller's functor ran. The slot of X is free: the caller must wake.
static void fam_execute_recall(Result& R, Rng& r) {
    tbb::global_control one_worker(tbb::global_control::max_allowed_parallelism, 2);
    int xr = 0, xc = r.chance(2, 3) ? 1 : 2;
    auto xp = r.chance(1, 2) ? tbb::task_arena::priority::normal : tbb::task_arena::priority::low;
    tbb::task_arena X(xc, xr, xp), Y(2, 1, tbb::task_arena::priority::high);
    X.initialize(); Y.initialize();
    unsigned hold_us = 300 + (unsigned)r.below(4000), helper_delay = (unsigned)r.below(hold_us), caller_delay = (unsigned)r.below(hold_us / 2 + 1);
    int callers = xc;       // as many callers as X has slots: with the worker inside, the last of them finds X full
    Json pj; pj.obj(); pj.kv("X_slots", xc); pj.kv("X_priority", xp == tbb::task_arena::priority::low ? "low" : "normal"); pj.kv("worker_task_us", (long long)hold_us); pj.kv("callers", callers); pj.end_obj();
    g_cur.set("execute_recall", pj.s, callers);
    std::atomic<bool> t_started{false}, y_done{false}; std::atomic<int> ran{0};
    std::mutex m; std::condition_variable cv;
    X.enqueue([&, hold_us] { t_started = true; sleep_us(hold_us); });
    while (!t_started.load()) sched_yield();
    std::thread helper([&] { sleep_us(helper_delay); Y.enqueue([&] { { std::unique_lock<std::mutex> l(m); cv.wait(l, [&] { return ran.load() >= callers; }); } y_done.store(true, std::memory_order_release); }); });
    std::atomic<uint64_t> slept{0};
    std::vector<std::thread> th;
    for (int c = 0; c < callers; c++) th.emplace_back([&, c] {
        WaiterProbe w;
        if (c == callers - 1) sleep_us(caller_delay);
        X.execute([&] { if (c != callers - 1) sleep_us(hold_us * 2); { std::lock_guard<std::mutex> l(m); ran++; } cv.notify_all(); });
        slept += w.sleeps(); g_cur.done++; progress();
    });
    for (auto& t : th) t.join();
    helper.join();
    R.scenarios++; if (slept.load()) { R.nontrivial++; R.stat("execute_recall.callers_slept_waiting_for_a_slot", (long long)slept.load()); }
    R.signature(mix(mix(0xEC, xc), mix(slept.load() ? 1 : 0, hold_us / 500)));
    progress();
    // Y's task refers to this frame: it must have finished (it may even start only now) before the function returns
    while (!y_done.load(std::memory_order_acquire)) sched_yield();
    progress();
}

// ---------------------------------------------------------------------------------------------- enqueue, nobody waits in TBB
struct Latch { std::mutex m; std::condition_variable cv; long left; explicit Latch(long n) : left(n) {} void hit() { std::lock_guard<std::mutex> l(m); if (--left == 0) cv.notify_all(); } void wait() { std::unique_lock<std::mutex> l(m); cv.wait(l, [&] { return left == 0; }); } };
static void fam_enqueue(Result& R, Rng& r) {
    // never (n,n) with n>=2: such an arena has no slot a worker may take, enqueued work legitimately waits for an external thread
    // the last three shapes have more than 32 slots: their task streams get 64 lanes (the population mask needs all 64 bits)
    static const int shapes[][2] = { { 1, 1 }, { 1, 0 }, { 2, 1 }, { 2, 0 }, { 4, 0 }, { 4, 2 }, { 8, 1 }, { 16, 0 }, { 33, 0 }, { 40, 1 }, { 64, 0 } };
    int narenas = r.chance(1, 3) ? 2 + (int)r.below(4) : 1;
    std::vector<std::unique_ptr<tbb::task_arena>> arenas;
    std::string shp; bool big_arena = false;
    for (int i = 0; i < narenas; i++) {
        auto& sh = shapes[r.below(11)];
        if (sh[0] > 32) big_arena = true;
        tbb::task_arena::priority pr = r.chance(1, 3) ? tbb::task_arena::priority::high : r.chance(1, 2) ? tbb::task_arena::priority::low : tbb::task_arena::priority::normal;
        arenas.emplace_back(new tbb::task_arena(sh[0], sh[1], pr)); arenas.back()->initialize();
        shp += "(" + std::to_string(sh[0]) + "," + std::to_string(sh[1]) + "," + (pr == tbb::task_arena::priority::high ? "H" : pr == tbb::task_arena::priority::low ? "L" : "N") + ")";
    }
    bool zero_workers = r.chance(1, 4);          // max_allowed_parallelism = 1 => no workers => mandatory concurrency must kick in
    bool toggler = !zero_workers && r.chance(1, 4);
    int submitters = 1 + (int)r.below(3), rounds = 2 + (int)r.below(4);
    std::unique_ptr<tbb::global_control> limit; if (zero_workers) limit.reset(new tbb::global_control(tbb::global_control::max_allowed_parallelism, 1));
    std::atomic<bool> tstop{false}; std::thread tog;
    uint64_t tog_seed = r.next();
    if (toggler) tog = std::thread([&, tog_seed] { Rng tr(tog_seed); while (!tstop.load()) { { tbb::global_control g(tbb::global_control::max_allowed_parallelism, 1 + tr.below(4)); sleep_us(100 + (unsigned)tr.below(1500)); } sleep_us(100 + (unsigned)tr.below(1500)); } });
    // competitors: application threads that bring *spawned* (not enqueued) demand into some of the arenas - before and while the
    // enqueues happen - and never depend on the enqueued tasks. Their arenas keep asking for workers (with no worker around nobody
    // retracts the request), possibly at a higher priority than the arena that holds an enqueued task: that task must run all the same.
    int ncomp = narenas >= 2 && r.chance(1, 2) ? 1 + (int)r.below(2) : 0;
    std::atomic<bool> cstop{false}; std::vector<std::thread> comp; uint64_t cseed = r.next();
    std::atomic<long> comp_groups{0};
    for (int c = 0; c < ncomp; c++) comp.emplace_back([&, c] {
        Rng cr(mix(cseed, c)); tbb::task_arena& ca = *arenas[c % arenas.size()];
        int bursts = 1 + (int)cr.below(4);
        for (int b = 0; (b < bursts || cr.chance(1, 2)) && !cstop.load(); b++) {
            ca.execute([&] { tbb::task_group tg; int n = 1 + (int)cr.below(6); for (int k = 0; k < n; k++) tg.run([] { spin_iters(200 + (unsigned)trng().below(3000)); }); tg.wait(); });
            comp_groups++;
            sleep_us(50 + (unsigned)cr.below(1500));
        }
    });
    if (ncomp) sleep_us(200 + (unsigned)r.below(1500));
    for (int rd = 0; rd < rounds; rd++) {
        int per = 1 + (int)r.below(5); if (big_arena && r.chance(2, 3)) per = 20 + (int)r.below(150);
        long total = (long)submitters * per;
        Json pj; pj.obj(); pj.kv("arenas", shp); pj.kv("zero_workers", zero_workers); pj.kv("global_control_toggled", toggler); pj.kv("submitters", submitters); pj.kv("tasks", total); pj.kv("competitor_threads_with_spawned_work", ncomp); pj.end_obj();
        g_cur.set("enqueue", pj.s, total);
        Latch latch(total);
        std::atomic<int> ran_by_other{0};
        std::vector<std::thread> th; uint64_t s0 = r.next();
        for (int s = 0; s < submitters; s++) th.emplace_back([&, s] {
            Rng tr(mix(s0, s)); int me = thread_ordinal();
            for (int i = 0; i < per; i++) {
                tbb::task_arena& a = *arenas[tr.below(arenas.size())];
                a.enqueue([&, me] { if (thread_ordinal() != me) ran_by_other++; if (trng().chance(1, 4)) sleep_us(100 + (unsigned)trng().below(800)); g_cur.done++; progress(); latch.hit(); });
                if (tr.chance(1, 3)) sleep_us((unsigned)tr.below(600));
            }
        });
        for (auto& t : th) t.join();
        latch.wait();                       // plain condition variable: the submitters never enter a TBB wait
        R.scenarios++; R.nontrivial++;
        R.stat("enqueue.tasks", total); R.stat("enqueue.tasks_run_by_another_thread", ran_by_other.load());
        R.signature(mix(mix(std::hash<std::string>{}(shp), (uint64_t)zero_workers * 2 + toggler), mix(submitters, per)));
        progress();
        sleep_us(1000 + (unsigned)r.below(9000));   // idle gap: workers fall asleep, mandatory concurrency is switched off again
    }
    cstop = true; for (auto& t : comp) t.join();
    if (big_arena) R.stat("enqueue.scenarios_with_an_arena_of_more_than_32_slots");
    if (ncomp) { R.stat("enqueue.scenarios_with_spawned_demand_in_a_competing_arena"); if (zero_workers) R.stat("enqueue.scenarios_with_spawned_demand_in_a_competing_arena_and_no_workers"); R.stat("enqueue.competitor_groups", comp_groups.load()); }
    if (toggler) { tstop = true; tog.join(); }
}

// ---------------------------------------------------------------------------------------------- suspend / resume wakes the waiter
static void fam_resume(Result& R, Rng& r) {
    int conc = (int)r.pick(std::vector<int>{ 1, 2, 2, 4 });
    tbb::task_arena A(conc, 1); A.initialize();
    int pts = 1 + (int)r.below(3);
    Json pj; pj.obj(); pj.kv("arena", conc); pj.kv("suspend_points", pts); pj.end_obj();
    g_cur.set("resume", pj.s, pts);
    std::vector<std::thread> resumers; std::mutex rm;
    A.execute([&] {
        WaiterProbe w;
        tbb::task_group tg;
        for (int p = 0; p < pts; p++) tg.run([&] {
            unsigned delay = 200 + (unsigned)trng().below(2500);
            tbb::task::suspend([&](tbb::task::suspend_point sp) {
                std::lock_guard<std::mutex> l(rm);
                resumers.emplace_back([sp, delay] { sleep_us(delay); tbb::task::resume(sp); });
            });
            g_cur.done++;
        });
        tg.wait();
        if (g_cur.done.load() != pts) R.violation("c02.resume.wait-returned-early", "wait returned before every suspended task continued", g_cur.describe());
        note(R, "resume", w, (uint64_t)conc * 8 + pts);
    });
    for (auto& t : resumers) t.join();
}

int main(int argc, char** argv) {
    Args a = standard_init(argc, argv, "c02");
    Result& R = result();
    long cases = a.num("cases", 200);
    bool do_perturb = a.num("perturb", 1) != 0;
    std::string fam = a.str("family", "all");
    std::vector<int> ids = { 40, 50, 51, 52, 53, 54, 55, 58, 59, 60, 61, 62, 63, 64, 65, 66, 72, 73, 74, 80, 81, 102, 125, 30, 31 };
    Rng top(mix(R.seed, 0xC02));
    tbb::global_control gc(tbb::global_control::max_allowed_parallelism, 16);
    WatchdogCfg wc; wc.no_progress_s = 4.0;
    watchdog_start(wc, [&](const HangInfo& hi) {
        std::string family; { std::lock_guard<std::mutex> l(g_cur.m); family = g_cur.family; }
        std::string d = "family " + family + ": no completion for " + std::to_string(hi.stalled_for) + "s with " + std::to_string(g_cur.done.load()) + "/" + std::to_string(g_cur.expected.load()) +
                        " expected completions; threads(state, tbb sleep registry): " + hi.threads.substr(0, 900) + "\n" + rings_dump(10).substr(0, 1500);
        if (!hi.quiescent && !hi.spin_stall) { R.inconclusive++; fprintf(stderr, "[c02] inconclusive stall: %s\n", d.substr(0, 600).c_str()); R.finish_and_exit(4); }
        R.violation("c02." + family + (hi.quiescent ? ".hang.quiescent" : ".hang.spin-stall"), d, g_cur.describe());
        R.finish_and_exit(3);
    });
    typedef void (*Fam)(Result&, Rng&);
    std::vector<std::pair<std::string, Fam>> fams = { { "group", fam_group }, { "cbq", fam_cbq }, { "mutex", fam_mutex }, { "execute", fam_execute }, { "execute_recall", fam_execute_recall }, { "execute_handover", fam_execute_handover }, { "enqueue", fam_enqueue }, { "resume", fam_resume } };
    for (long k = 0; k < cases; k++) {
        Rng r(top.next());
        if (do_perturb) { if (r.chance(1, 4)) perturb().clear(); else perturb_random(r, ids); }
        size_t f = r.below(fams.size());
        if (fam != "all") { for (size_t i = 0; i < fams.size(); i++) if (fams[i].first == fam) f = i; }
        fams[f].second(R, r);
        perturb().clear();
    }
    watchdog_stop();
    R.stat("monitor_sleeps_total", (long long)hook_count(56));
    R.stat("worker_sleeps_total", (long long)hook_count(61));
    R.write();
    return 0;
}
