// C04: cancellation reaches every descendant context and nothing else; exactly one winner; stays cancelled.
//
// Scenario: a random tree of task_group_contexts is *built by the running code itself*: nested
// parallel_for(..., ctx) bodies create child contexts (bound or isolated) and use them for further nested loops, so
// siblings bind on different threads of a hot arena; meanwhile bodies and a foreign thread call
// cancel_group_execution on own / ancestor / child / random contexts. All contexts live to the end of the scenario.
// Oracle (at quiescence): cancelled(c) == [c was a cancel target] or [c bound-and-used under a cancelled parent];
// per context at most one cancel call returned true, exactly one if it was a target and not already cancelled through
// its parent; a context seen cancelled stays cancelled; a context created after an ancestor's cancel call *returned*
// is cancelled as soon as it has been used (certain-order check, also for short-lived contexts destroyed mid-run).
#define VRT_IMPL
#include "vrt_tbb.h"
#include <oneapi/tbb.h>
#include <memory>

using namespace vrt;

static std::atomic<uint64_t> g_seq{1};
static bool g_light = false;
static inline uint64_t stamp() { return g_light ? 0 : g_seq.fetch_add(1, std::memory_order_relaxed); }

struct Node {
    std::unique_ptr<tbb::task_group_context> ctx;
    int parent = -1;
    bool bound = true;         // traits: bound vs isolated
    bool cut = false;          // used at the outermost level of another arena: treated as isolated by the library
    std::atomic<bool> used{false};
    std::atomic<int> cancel_calls{0}, winners{0};
    std::atomic<uint64_t> cancel_done_seq{0};   // stamp after the winning cancel call on this context returned
    std::atomic<uint64_t> create_seq{0};
    std::atomic<bool> seen_cancelled{false};
    std::atomic<int> thread{-1};
    int depth = 0;
};

struct Scen {
    std::mutex m;
    std::vector<std::unique_ptr<Node>> nodes;
    std::atomic<int> count{0};
    int maxn = 0, maxd = 0, fan = 0;
    std::atomic<bool> building{true};
    tbb::task_arena* B = nullptr;
    uint64_t seed = 0;
    std::atomic<int> fails{0}; std::string fail_first; std::mutex fm;
    std::atomic<long> ephemerals{0}, ephemeral_checked{0}, certain_checked{0};

    void fail(const std::string& key, const std::string& what) { if (fails.fetch_add(1) == 0) { std::lock_guard<std::mutex> l(fm); fail_first = key + "|" + what; } }
    int add(int parent, bool bound, int depth) {
        std::lock_guard<std::mutex> l(m);
        nodes.emplace_back(new Node);
        Node& n = *nodes.back();
        n.ctx.reset(new tbb::task_group_context(bound ? tbb::task_group_context::bound : tbb::task_group_context::isolated));
        n.parent = parent; n.bound = bound; n.depth = depth;
        n.create_seq.store(stamp(), std::memory_order_relaxed);
        return (int)nodes.size() - 1;
    }
    Node& at(int i) { std::lock_guard<std::mutex> l(m); return *nodes[i]; }
    int size() { std::lock_guard<std::mutex> l(m); return (int)nodes.size(); }

    void cancel(int i) {
        Node& n = at(i);
        n.cancel_calls.fetch_add(1, std::memory_order_relaxed);
        bool won = n.ctx->cancel_group_execution();
        // Only the call that returned true is known to have finished propagating when it returns; a losing call may
        // return while the winner (or a propagation from an ancestor) is still walking the forest.
        if (won) { n.winners.fetch_add(1, std::memory_order_relaxed); uint64_t z = 0; n.cancel_done_seq.compare_exchange_strong(z, stamp() | 1, std::memory_order_relaxed); }
    }
    // has some context on the bound-and-used chain strictly above `i` (or i itself if incl) a cancel call that returned before `before`?
    bool certain_cancel_above(int i, uint64_t before) {
        if (g_light) return false;
        for (int a = i;;) {
            Node& n = at(a);
            if (a != i) { uint64_t d = n.cancel_done_seq.load(std::memory_order_relaxed); if (d && d < before) return true; }
            if (!n.bound || n.cut || n.parent < 0) return false;
            a = n.parent;
        }
    }

    void grow(int me, int depth, Rng& r) {
        if (depth >= maxd) return;
        int f = 1 + (int)r.below(fan);
        Node& n = at(me);
        n.used.store(true, std::memory_order_relaxed);
        uint64_t seedb = r.next();
        auto body = [&, me, depth, seedb](int k) {
            Rng br(mix(seedb, k));
            Node& self = at(me);
            self.thread.store(thread_ordinal(), std::memory_order_relaxed);
            if (self.ctx->is_group_execution_cancelled()) self.seen_cancelled.store(true, std::memory_order_relaxed);
            if (count.fetch_add(1) >= maxn) return;
            unsigned kind = (unsigned)br.below(100);
            if (kind < 12) {
                // short-lived context: created, used and destroyed while cancellations may be propagating
                ephemerals.fetch_add(1, std::memory_order_relaxed);
                uint64_t cs = stamp();
                bool must = certain_cancel_above_self(me, cs);
                tbb::task_group_context eph;
                std::atomic<int> ran{0};
                tbb::parallel_for(0, 1 + (int)br.below(3), [&ran](int) { ran.fetch_add(1, std::memory_order_relaxed); spin_iters(150); }, tbb::simple_partitioner(), eph);
                if (must) { ephemeral_checked.fetch_add(1, std::memory_order_relaxed); if (!eph.is_group_execution_cancelled()) fail("c04.bound-after-cancel-not-cancelled", "short-lived context created under context " + std::to_string(me) + " after a cancel call on that chain had returned is not cancelled after use (bodies run: " + std::to_string(ran.load()) + ")"); }
                return;
            }
            // A context used directly inside another arena's execute() is treated as isolated by the library (or, on the
            // delegation path, would be bound to execute()'s own short-lived context): make it isolated explicitly.
            bool via_arena = B && br.chance(1, 12);
            bool bound = !via_arena && !br.chance(1, 6);
            int c = add(me, bound, depth + 1);
            if (br.chance(1, 4)) spin_iters((unsigned)br.below(3000));
            unsigned a = (unsigned)br.below(24);
            if (a == 0) cancel(me);
            else if (a == 1) { int anc = me; for (int h = (int)br.below(3); h > 0 && at(anc).parent >= 0; --h) anc = at(anc).parent; cancel(anc); }
            else if (a == 2) cancel(c);            // cancelled before its first use
            else if (a == 3 && size() > 2) cancel((int)br.below(size()));
            if (via_arena) { at(c).cut = true; B->execute([&] { grow(c, depth + 1, br); }); }
            else grow(c, depth + 1, br);
            // certain-order check for this child: if an ancestor's cancel had returned before the child was created
            // and the child has been used (bound), it must be cancelled by now
            Node& cn = at(c);
            if (cn.used.load(std::memory_order_relaxed) && cn.bound && !cn.cut && certain_cancel_above(c, cn.create_seq.load(std::memory_order_relaxed))) {
                certain_checked.fetch_add(1, std::memory_order_relaxed);
                if (!cn.ctx->is_group_execution_cancelled()) fail("c04.bound-after-cancel-not-cancelled", "context " + std::to_string(c) + " created and used after a cancel call on an ancestor had returned is not cancelled");
            }
        };
        switch (r.below(3)) {
        case 0: tbb::parallel_for(0, f, body, tbb::simple_partitioner(), *n.ctx); break;
        case 1: tbb::parallel_for(0, f, body, tbb::auto_partitioner(), *n.ctx); break;
        default: tbb::parallel_for(tbb::blocked_range<int>(0, f, 1), [&](const tbb::blocked_range<int>& rg) { for (int i = rg.begin(); i != rg.end(); ++i) body(i); }, tbb::simple_partitioner(), *n.ctx);
        }
    }
    bool certain_cancel_above_self(int me, uint64_t before) {
        if (g_light) return false;
        Node& n = at(me);
        uint64_t d = n.cancel_done_seq.load(std::memory_order_relaxed);
        if (d && d < before) return true;
        return certain_cancel_above(me, before);
    }
    std::string describe() {
        Json j; j.obj(); j.kv("seed", (unsigned long long)seed); j.key("nodes").arr();
        int n = size();
        for (int i = 0; i < n && i < 70; i++) { Node& nd = *nodes[i]; j.arr(); j.val(i); j.val(nd.parent); j.val(nd.bound ? (nd.cut ? "cut" : "bound") : "isolated"); j.val((int)nd.used.load()); j.val(nd.cancel_calls.load()); j.val(nd.winners.load()); j.val((int)nd.ctx->is_group_execution_cancelled()); j.end_arr(); }
        j.end_arr(); j.kv("columns", "id,parent,kind,used,cancel_calls,winners,cancelled"); j.end_obj(); return j.s;
    }
};

int main(int argc, char** argv) {
    Args a = standard_init(argc, argv, "c04");
    Result& R = result();
    long cases = a.num("cases", 20000);
    g_light = (R.variant == "tsan") || a.has("light");
    bool hot = a.num("hot", 1) != 0;
    bool do_perturb = a.num("perturb", 1) != 0;   // store-buffer windows need raw volume, not delays
    std::vector<int> ids = { 90, 91, 92, 93, 94, 95, 8, 10 };
    Rng top(mix(R.seed, 0xC04));
    tbb::global_control gc(tbb::global_control::max_allowed_parallelism, 16);
    std::atomic<Scen*> cur{nullptr};
    watchdog_start(WatchdogCfg{}, [&](const HangInfo& hi) {
        std::string d = "no progress for " + std::to_string(hi.stalled_for) + "s; threads: " + hi.threads.substr(0, 600);
        if (!hi.quiescent && !hi.spin_stall) { R.inconclusive++; fprintf(stderr, "[c04] inconclusive stall: %s\n", d.c_str()); R.finish_and_exit(4); }
        R.violation(hi.quiescent ? "c04.hang.quiescent" : "c04.hang.spin-stall", d, "{}");
        R.finish_and_exit(3);
    });
    if (R.mode == "sb") {
        // Store-buffer litmus for the binding fast path: a context P that has a parent G and no children yet; one thread
        // binds P's first child C (relaxed store of may_have_children, speculative load of P's flag, then the fence) while
        // a foreign thread, released by a flag at that very moment, cancels P (exchange, then load of may_have_children).
        // Whatever the order, once both have returned C must be cancelled; G must not be.
        tbb::task_arena A(4); A.initialize();
        std::atomic<int> go{0}; std::atomic<bool> stop{false};
        std::atomic<tbb::task_group_context*> target{nullptr};
        std::atomic<int> cancel_done{0}; std::atomic<unsigned> skew_c{0};
        std::thread foreign([&] {
            int seen = 0;
            while (!stop.load(std::memory_order_relaxed)) {
                int g = go.load(std::memory_order_acquire);
                if (g == seen) { _mm_pause(); continue; }
                seen = g;
                spin_iters(skew_c.load(std::memory_order_relaxed));
                bool won = target.load(std::memory_order_relaxed)->cancel_group_execution();
                cancel_done.store(won ? 2 : 1, std::memory_order_release);
            }
        });
        long bad = 0;
        for (long k = 0; k < cases; k++) {
            Rng r(top.next());
            tbb::task_group_context G, P, C;
            unsigned skew_b = (unsigned)r.below(r.chance(1, 2) ? 120 : 700), sk = (unsigned)r.below(r.chance(1, 2) ? 20 : 200);
            bool pre_child = r.chance(1, 8);   // sometimes P already has a child: then the canceller must propagate
            tbb::task_group_context C0;
            std::atomic<int> c_ran{0};
            A.execute([&] {
                tbb::parallel_for(0, 1, [&](int) {
                    tbb::parallel_for(0, 1, [&](int) {
                        if (pre_child) tbb::parallel_for(0, 1, [](int) {}, tbb::simple_partitioner(), C0);
                        target.store(&P, std::memory_order_relaxed); skew_c.store(sk, std::memory_order_relaxed); cancel_done.store(0, std::memory_order_relaxed);
                        go.fetch_add(1, std::memory_order_release);
                        spin_iters(skew_b);
                        tbb::parallel_for(0, 1, [&](int) { c_ran.fetch_add(1, std::memory_order_relaxed); }, tbb::simple_partitioner(), C);
                        while (!cancel_done.load(std::memory_order_acquire)) _mm_pause();
                    }, tbb::simple_partitioner(), P);
                }, tbb::simple_partitioner(), G);
            });
            bool pc = P.is_group_execution_cancelled(), cc = C.is_group_execution_cancelled(), gc2 = G.is_group_execution_cancelled();
            bool c0c = C0.is_group_execution_cancelled();
            R.scenarios++; R.nontrivial++;
            R.signature(mix(mix(skew_b, sk), (uint64_t)c_ran.load() * 2 + pre_child));
            R.stat(c_ran.load() ? "sb_child_body_ran_before_cancel" : "sb_child_found_parent_cancelled");
            std::string det;
            if (cancel_done.load() != 2) det = "the only cancel call on P did not return true";
            else if (!pc) det = "P not cancelled after a winning cancel";
            else if (!cc) det = "child C bound under P concurrently with cancel(P) is not cancelled (its body ran: " + std::to_string(c_ran.load()) + ")";
            else if (pre_child && !c0c) det = "earlier child C0 of P not cancelled";
            else if (gc2) det = "grand-parent G cancelled by a cancel of P";
            if (!det.empty()) {
                bad++;
                Json j; j.obj(); j.kv("mode", "sb"); j.kv("skew_binder", skew_b); j.kv("skew_canceller", sk); j.kv("pre_child", pre_child); j.end_obj();
                R.violation(!cc && pc ? "c04.descendant-missed" : "c04.sb-inconsistent", det, j.s);
                if (bad > 20) break;
            }
            progress();
        }
        stop.store(true); foreign.join();
        watchdog_stop();
        R.write();
        return 0;
    }
    long done = 0;
    while (done < cases) {
        int conc = (int)top.pick(std::vector<int>{ 2, 3, 4, 8, 8, 16 });
        tbb::task_arena A(conc), B(2);
        A.initialize(); B.initialize();
        std::unique_ptr<Keeper> keeper; if (hot) keeper.reset(new Keeper(A, 4, 50));
        long batch = std::min<long>(cases - done, 300 + (long)top.below(500));
        for (long k = 0; k < batch; k++) {
            Scen s; s.seed = top.next(); Rng r(s.seed);
            s.maxn = 8 + (int)r.below(60); s.maxd = 2 + (int)r.below(4); s.fan = 2 + (int)r.below(3); s.B = r.chance(1, 3) ? &B : nullptr;
            cur.store(&s);
            if (do_perturb) perturb_random(r, ids);
            int root = s.add(-1, true, 0);
            bool with_foreign = r.chance(2, 3);
            std::thread foreign;
            if (with_foreign) foreign = std::thread([&] {
                Rng fr(mix(s.seed, 77));
                while (s.building.load(std::memory_order_acquire)) {
                    int n = s.size();
                    if (n > 1 && fr.chance(1, 3)) s.cancel((int)fr.below(n));
                    spin_iters((unsigned)fr.below(20000));
                }
            });
            A.execute([&] {
                // the root context is used at the outermost level => isolated by definition
                tbb::parallel_for(0, 1, [&](int) { s.grow(root, 0, r); }, tbb::simple_partitioner(), *s.at(root).ctx);
            });
            s.building.store(false, std::memory_order_release);
            if (with_foreign) foreign.join();
            // ---- oracle at quiescence
            int n = s.size();
            std::vector<char> exp(n, 0), inherited(n, 0);
            int cancelled = 0, targets = 0; std::set<int> threads;
            for (int i = 0; i < n; i++) {
                Node& nd = *s.nodes[i];
                bool inh = i != 0 && nd.parent >= 0 && nd.bound && !nd.cut && nd.used.load() && exp[nd.parent];
                inherited[i] = inh;
                exp[i] = nd.cancel_calls.load() > 0 || inh;
                if (nd.cancel_calls.load() > 0) targets++;
                if (nd.thread.load() >= 0) threads.insert(nd.thread.load());
            }
            for (int i = 0; i < n; i++) {
                Node& nd = *s.nodes[i];
                bool got = nd.ctx->is_group_execution_cancelled();
                if (got) cancelled++;
                if (got && !exp[i]) s.fail("c04.cancelled-without-cause", "context " + std::to_string(i) + " (parent " + std::to_string(nd.parent) + ", " + (nd.bound ? (nd.cut ? "cut" : "bound") : "isolated") + ", used=" + std::to_string((int)nd.used.load()) + ") is cancelled but neither it nor a bound ancestor chain was a target");
                if (!got && exp[i]) s.fail(nd.cancel_calls.load() > 0 ? "c04.target-not-cancelled" : "c04.descendant-missed", "context " + std::to_string(i) + " (parent " + std::to_string(nd.parent) + ", used=" + std::to_string((int)nd.used.load()) + ", own cancel calls=" + std::to_string(nd.cancel_calls.load()) + ") is not cancelled although " + (nd.cancel_calls.load() > 0 ? "cancel_group_execution was called on it" : "its bound parent is cancelled"));
                if (nd.winners.load() > 1) s.fail("c04.two-winners", std::to_string(nd.winners.load()) + " cancel calls on context " + std::to_string(i) + " returned true");
                if (nd.cancel_calls.load() > 0 && nd.winners.load() == 0 && !inherited[i]) s.fail("c04.no-winner", "none of " + std::to_string(nd.cancel_calls.load()) + " cancel calls on context " + std::to_string(i) + " returned true although nothing else cancelled it");
                if (nd.seen_cancelled.load() && !got) s.fail("c04.uncancelled", "context " + std::to_string(i) + " was observed cancelled by a body and is not cancelled at the end (no reset)");
            }
            // ---- second round on the same, still bound, tree: reset every cancelled context (legal: nothing is running), then
            // cancel a few targets again. Binding is permanent, so the closure over the same edges must be cancelled again.
            if (!s.fails.load() && n >= 3 && r.chance(1, 2)) {
                for (int i = 0; i < n; i++) { Node& nd = *s.nodes[i]; if (nd.ctx->is_group_execution_cancelled()) nd.ctx->reset(); nd.cancel_calls = 0; nd.winners = 0; nd.seen_cancelled = false; nd.cancel_done_seq = 0; }
                for (int i = 0; i < n; i++) if (s.nodes[i]->ctx->is_group_execution_cancelled()) s.fail("c04.reset-did-not-clear", "context " + std::to_string(i) + " still cancelled after reset()");
                int k2 = 1 + (int)r.below(3);
                for (int j = 0; j < k2; j++) s.cancel((int)r.below(n));
                std::vector<char> exp2(n, 0);
                for (int i = 0; i < n; i++) { Node& nd = *s.nodes[i]; bool inh = i != 0 && nd.parent >= 0 && nd.bound && !nd.cut && nd.used.load() && exp2[nd.parent]; exp2[i] = nd.cancel_calls.load() > 0 || inh; }
                for (int i = 0; i < n; i++) {
                    Node& nd = *s.nodes[i]; bool got = nd.ctx->is_group_execution_cancelled();
                    if (got && !exp2[i]) s.fail("c04.cancelled-without-cause", "after reset and a new cancel: context " + std::to_string(i) + " is cancelled without cause");
                    if (!got && exp2[i]) s.fail(nd.cancel_calls.load() > 0 ? "c04.target-not-cancelled" : "c04.descendant-missed", "after reset() of the whole tree and a new cancel: context " + std::to_string(i) + " (parent " + std::to_string(nd.parent) + ") is not cancelled although " + (nd.cancel_calls.load() > 0 ? "it was the target" : "its bound parent is cancelled again (binding is permanent)"));
                    if (nd.cancel_calls.load() > 0 && nd.winners.load() != 1 && !(exp2[i] && nd.winners.load() == 0 && nd.parent >= 0 && exp2[nd.parent] && nd.bound && !nd.cut && nd.used.load())) s.fail("c04.winner-count", "after reset: " + std::to_string(nd.winners.load()) + " winners among " + std::to_string(nd.cancel_calls.load()) + " cancel calls on context " + std::to_string(i));
                }
                R.stat("reset_rounds");
            }
            R.scenarios++;
            R.stat("contexts", n); R.stat("cancelled", cancelled); R.stat("targets", targets);
            R.stat("ephemeral_contexts", s.ephemerals.load()); R.stat("certain_order_checks", s.certain_checked.load() + s.ephemeral_checked.load());
            if (threads.size() >= 2 && n >= 4) {
                R.nontrivial++;
                uint64_t h = 0xC04; for (int i = 0; i < n; i++) { Node& nd = *s.nodes[i]; h = mix(h, (uint64_t)(nd.parent + 1) * 8 + (nd.bound ? 1 : 0) + (nd.cancel_calls.load() ? 2 : 0) + (nd.used.load() ? 4 : 0)); }
                R.signature(h);
            }
            if (s.fails.load()) {
                std::string key = s.fail_first.substr(0, s.fail_first.find('|')), det = s.fail_first.substr(s.fail_first.find('|') + 1);
                R.violation(key, det + " (" + std::to_string(s.fails.load()) + " failed checks)", s.describe());
            } else if (R.want_sample() && threads.size() >= 2 && targets >= 2 && n >= 8 && n <= 30) R.sample(s.describe());
            cur.store(nullptr);
            progress();
        }
        done += batch;
        perturb().clear();
    }
    watchdog_stop();
    R.write();
    return 0;
}
